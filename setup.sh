#!/bin/sh
# Build the two extractors from files on disk only (offline).
set -e
cd "$(dirname "$0")"
export CARGO_NET_OFFLINE=true
(cd tools/mirfacts && cargo build --release --offline)
(cd tools/wirefacts && cargo build --release --offline)
