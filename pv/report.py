"""Verdict bookkeeping: obligations, reports, known findings, evidence and replay files."""
import json
import os
import time
from collections import Counter, defaultdict

VERIF = os.path.dirname(os.path.dirname(os.path.abspath(__file__)))
KNOWN = os.path.join(VERIF, "known_findings.jsonl")


def load_known():
    out = []
    if os.path.exists(KNOWN):
        with open(KNOWN) as fh:
            for line in fh:
                line = line.strip()
                if line and not line.startswith("#"):
                    out.append(json.loads(line))
    return out


class Ctx:
    """One run of one property's rules."""

    def __init__(self, prop, tier, facts, prog, wire, seed=0):
        self.prop = prop
        self.tier = tier
        self.facts = facts
        self.prog = prog
        self.wire = wire
        self.seed = seed
        self.t0 = time.time()
        self.obligations = []  # dicts: rule,key,ok,detail,file,line,trivial
        self.undecided = []
        self.notes = []
        self.samples = []
        self.rule_counts = Counter()
        self.floors = []
        self.clauses_decided = []
        self.clauses_not_decided = []
        self.trusted = []
        self.extra = {}

    # --- recording
    def ob(self, rule, key, ok, detail="", file=None, line=None, trivial=False, chain=None, sample=False):
        """Record one obligation instance. `key` must not contain line numbers or local names."""
        self.obligations.append(dict(rule=rule, key=f"{rule}|{key}", ok=bool(ok), detail=detail, file=file, line=line, trivial=trivial, chain=chain))
        self.rule_counts[rule] += 1
        if sample or (len([s for s in self.samples if s.get("rule") == rule]) < 2):
            self.samples.append(dict(rule=rule, key=key, holds=bool(ok), detail=detail[:300], at=f"{file}:{line}" if file else None))
        return ok

    def fail_closed(self, rule, what):
        """An anchor or a count the rule needs is missing: never a pass."""
        self.undecided.append(dict(rule=rule, key=f"{rule}|undecided|{what}", detail=what))

    def floor(self, rule, what, got, minimum):
        self.floors.append(dict(rule=rule, what=what, got=got, floor=minimum))
        if got < minimum:
            self.fail_closed(rule, f"{what}: analysed {got} instance(s), floor is {minimum} (counted by hand on the pinned tree)")

    def note(self, s):
        self.notes.append(s)

    def decided(self, s):
        self.clauses_decided.append(s)

    def not_decided(self, s):
        self.clauses_not_decided.append(s)

    # --- finishing
    def finish(self, technique, trusted_base, assumptions=None):
        known = [k for k in load_known() if k.get("property") == self.prop]
        known_open = defaultdict(int)
        known_what = {}
        for k in known:
            if k.get("status") == "known":
                known_open[k["key"]] += int(k.get("count", 1))
                known_what[k["key"]] = k.get("what", "")
        failing = [o for o in self.obligations if not o["ok"]]
        by_key = defaultdict(list)
        for o in failing:
            by_key[o["key"]].append(o)
        violations = []
        known_hits = []
        for key, lst in sorted(by_key.items()):
            allowed = known_open.get(key, 0)
            if allowed >= len(lst):
                known_hits.append((key, len(lst)))
            else:
                # the first `allowed` are covered; the rest are new
                if allowed:
                    known_hits.append((key, allowed))
                violations.extend(lst[allowed:])
        for u in self.undecided:
            violations.append(dict(rule=u["rule"], key=u["key"], ok=False, detail="UNDECIDED (fail closed): " + u["detail"], file=None, line=None, chain=None, kind="undecided"))
        # output
        os.makedirs(os.path.join(VERIF, "replays"), exist_ok=True)
        os.makedirs(os.path.join(VERIF, "evidence"), exist_ok=True)
        if not os.environ.get("PV_NO_EVIDENCE"):
            import glob

            for old_rp in glob.glob(os.path.join(VERIF, "replays", f"{self.prop}-*.json")):
                os.remove(old_rp)
        for key, n in known_hits:
            print(f"KNOWN-FINDING: property={self.prop} {key} x{n} :: {known_what.get(key, '')}")
        seen_counts = dict(known_hits)
        for key, allowed in sorted(known_open.items()):
            if seen_counts.get(key, 0) < allowed:
                # informational only: a listed finding that is (partly) gone never fails a check
                print(f"NOTE: property={self.prop} listed finding observed {seen_counts.get(key, 0)}/{allowed} times: {key}")
        for i, v in enumerate(violations):
            rp = os.path.join(VERIF, "replays", f"{self.prop}-{i}.json") if not os.environ.get("PV_NO_EVIDENCE") else os.path.join("/tmp", f"pv-replay-{self.prop}-{i}.json")
            with open(rp, "w") as fh:
                json.dump(dict(property=self.prop, rule=v["rule"], key=v["key"], file=v.get("file"), line=v.get("line"), detail=v["detail"], chain=v.get("chain"), facts_hash=self.facts.hash), fh, indent=1)
            loc = f"{v.get('file')}:{v.get('line')}" if v.get("file") else "-"
            print(f"REPORT {self.prop} rule={v['rule']} at={loc} key={v['key']}\n       {v['detail']}")
            if v.get("chain"):
                print("       chain: " + " -> ".join(v["chain"][-8:]))
            print(f"VIOLATION property={self.prop} replay={rp}")
        n_ob = len(self.obligations)
        n_ok = sum(1 for o in self.obligations if o["ok"])
        distinct_nontrivial = len({o["key"] + "|" + str(o.get("file")) + ":" + str(o.get("line")) for o in self.obligations if not o["trivial"]})
        expl = "Static analysis of the type-checked program (MIR, const-eval, binrw declarations). Decided clauses: " + "; ".join(self.clauses_decided) + ". NOT decided (left to other techniques): " + "; ".join(self.clauses_not_decided)
        cov = dict(
            explanation=expl,
            evaluations=max(n_ob, 1),
            distinct_nontrivial=distinct_nontrivial,
            rule="one evaluation = one rule instance (site / table row / field / arm / obligation) examined on this run; non-trivial = not discharged by a constant-only argument; distinct by (rule key, source position)",
            obligations=n_ob,
            discharged=n_ok + sum(n for _, n in known_hits),
            holding=n_ok,
            known_findings=[dict(key=k, count=n) for k, n in known_hits],
            rules={r: c for r, c in sorted(self.rule_counts.items())},
            floors=self.floors,
            samples=self.samples[:40] or [dict(note="no instances")],
            checker_cmd=f"./check {self.prop} --tier {self.tier}",
            technique=technique,
            trusted_base=trusted_base,
            facts_hash=self.facts.hash,
            mir_stats=self.prog.mir.get("stats"),
            notes=self.notes[:60],
            exhaustive=False,
        )
        cov.update(self.extra)
        ev = dict(property_id=self.prop, tier=self.tier, seed=self.seed, level="other", coverage=cov, assumptions=assumptions or [], wall_s=round(time.time() - self.t0, 2), violations=len(violations))
        if not os.environ.get("PV_NO_EVIDENCE"):
            with open(os.path.join(VERIF, "evidence", f"{self.prop}.json"), "w") as fh:
                json.dump(ev, fh, indent=1)
        print(f"[{self.prop}] {n_ob} obligations, {n_ok} hold, {sum(n for _, n in known_hits)} known findings, {len(violations)} violations; rules: {dict(self.rule_counts)}")
        return 1 if violations else 0
