"""Expression reconstruction over acyclic MIR regions (term algebra; nothing is evaluated except literal folding).

`explore(body, ...)` walks the CFG from a start block, rebuilding for every local the operator tree that
defines it (def-use chains made explicit), splitting at `switchInt` into one path per arm and stopping a path
when it returns, reaches a stop block, or meets a block already on the path (loop back-edge).  The result is
what the rule layer pattern-matches: decision tables (path conditions -> leaf value) and normal forms of
scalar expressions.  No feasibility reasoning and no solver is involved: infeasible combinations of arms are
simply enumerated like the others, and rules that use the output only compare shapes and constants.
"""
from .mir import const_int

COMMUTATIVE = {"BitXor", "BitAnd", "BitOr", "Add", "Mul", "WAdd", "WMul", "Eq", "Ne"}

# callee path (resolved or declared) -> structural model
PASS_THROUGH = (
    "std::convert::Into::into", "std::convert::From::from", "std::clone::Clone::clone", "std::ops::Deref::deref", "std::ops::DerefMut::deref_mut",
    "std::convert::AsRef::as_ref", "std::borrow::Borrow::borrow", "std::borrow::ToOwned::to_owned", "std::iter::IntoIterator::into_iter",
    "std::convert::AsMut::as_mut",
)


def K(v, ty="?"):
    return ("k", v, ty)


def is_const(e):
    return isinstance(e, tuple) and e and e[0] == "k"


def show(e, depth=0):
    if not isinstance(e, tuple):
        return str(e)
    if depth > 12:
        return "…"
    t = e[0]
    if t == "k":
        v = e[1]
        return hex(v) if isinstance(v, int) and abs(v) > 9 else str(v)
    if t == "p":
        return f"arg{e[1]}"
    if t == "u":
        return f"{e[2]}"
    if t == "h":
        return f"{e[2]}@loop"
    if t == "bin":
        return f"({show(e[2], depth+1)} {e[1]} {show(e[3], depth+1)})"
    if t == "nary":
        return "(" + f" {e[1]} ".join(show(x, depth + 1) for x in e[2]) + ")"
    if t == "un":
        return f"{e[1]}({show(e[2], depth+1)})"
    if t == "cast":
        return f"({show(e[2], depth+1)} as {e[1]})"
    if t == "fld":
        return f"{show(e[1], depth+1)}.{e[2]}"
    if t == "idx":
        return f"{show(e[1], depth+1)}[{show(e[2], depth+1)}]"
    if t == "deref":
        return f"*{show(e[1], depth+1)}"
    if t == "ref":
        return f"&{show(e[1], depth+1)}"
    if t == "call":
        return f"{e[1].split('::')[-1]}(" + ", ".join(show(a, depth + 1) for a in e[2]) + ")"
    if t == "agg":
        return f"{e[2]}{{" + ", ".join(show(a, depth + 1) for a in e[3]) + "}"
    if t == "down":
        return f"({show(e[1], depth+1)} as {e[2]})"
    if t == "discr":
        return f"discr({show(e[1], depth+1)})"
    if t == "len":
        return f"len({show(e[1], depth+1)})"
    if t == "ks":
        return repr(e[1])
    return str(e)


class Env:
    def __init__(self, body):
        self.body = body
        self.loc = {}  # local -> expr
        self.mem = {}  # lvalue expr -> expr  (writes through projections)

    def copy(self):
        e = Env(self.body)
        e.loc = dict(self.loc)
        e.mem = dict(self.mem)
        return e

    def local(self, l):
        if l in self.loc:
            return self.loc[l]
        if 1 <= l <= self.body.argc:
            return ("p", l)
        nm = self.body.local_names().get(l)
        return ("u", l, nm or f"_{l}")

    def lvalue(self, place):
        """Symbolic lvalue of a place (refs resolved where known)."""
        e = ("loc", place["l"])
        cur_val = self.local(place["l"])
        first = True
        for pr in place["p"]:
            if pr == "*":
                base = cur_val if first else self._read_l(e)
                if isinstance(base, tuple) and base[0] == "ref":
                    e = ("lv", base[1])
                else:
                    e = ("deref", base)
            elif isinstance(pr, dict) and "f" in pr:
                e = ("fld", e, pr.get("n", pr["f"]))
            elif isinstance(pr, dict) and "i" in pr:
                e = ("idx", e, self.local(pr["i"]))
            elif isinstance(pr, dict) and "ci" in pr:
                e = ("idx", e, K(pr["ci"], "usize") if not pr.get("fe") else ("fromend", pr["ci"]))
            elif isinstance(pr, dict) and "d" in pr:
                e = ("down", e, pr.get("n"))
            elif isinstance(pr, dict) and "ss" in pr:
                e = ("subslice", e, tuple(pr["ss"]), pr.get("fe"))
            else:
                e = ("o", e)
            first = False
        return e

    def _read_l(self, lv):
        # value stored at a symbolic lvalue
        if lv in self.mem:
            return self.mem[lv]
        t = lv[0]
        if t == "loc":
            return self.local(lv[1])
        if t == "lv":
            return lv[1] if not (isinstance(lv[1], tuple) and lv[1][0] in ("loc",)) else self._read_l(lv[1])
        if t == "deref":
            b = lv[1]
            if isinstance(b, tuple) and b[0] == "ref":
                return b[1]
            return ("deref", b)
        if t == "fld":
            base = self._read_l(lv[1])
            return proj_field(base, lv[2])
        if t == "idx":
            base = self._read_l(lv[1])
            return proj_index(base, lv[2])
        if t == "down":
            base = self._read_l(lv[1])
            if isinstance(base, tuple) and base[0] == "agg" and base[1] == "adt" and base[2].endswith("::" + str(lv[2])):
                return base
            return ("down", base, lv[2])
        if t == "subslice":
            return ("subslice", self._read_l(lv[1]), lv[2], lv[3])
        return ("o", self._read_l(lv[1]))

    def read(self, place):
        if not place["p"]:
            return self.local(place["l"])
        # walk projections; field reads need positional info for aggregates
        val = self.local(place["l"])
        lv = ("loc", place["l"])
        for pr in place["p"]:
            if pr == "*":
                if isinstance(val, tuple) and val[0] == "ref":
                    inner = val[1]
                    lv = ("lv", inner)
                    val = self.mem.get(lv, inner)
                else:
                    lv = ("deref", val)
                    val = self.mem.get(lv, ("deref", val))
            elif isinstance(pr, dict) and "f" in pr:
                lv = ("fld", lv, pr.get("n", pr["f"]))
                if lv in self.mem:
                    val = self.mem[lv]
                else:
                    val = proj_field(val, pr.get("n", pr["f"]), pr["f"])
            elif isinstance(pr, dict) and "i" in pr:
                ix = self.local(pr["i"])
                lv = ("idx", lv, ix)
                val = self.mem[lv] if lv in self.mem else proj_index(val, ix)
            elif isinstance(pr, dict) and "ci" in pr:
                ix = K(pr["ci"], "usize") if not pr.get("fe") else ("fromend", pr["ci"])
                lv = ("idx", lv, ix)
                val = self.mem[lv] if lv in self.mem else proj_index(val, ix)
            elif isinstance(pr, dict) and "d" in pr:
                lv = ("down", lv, pr.get("n"))
                if isinstance(val, tuple) and val[0] == "agg" and val[1] == "adt" and val[2].endswith("::" + str(pr.get("n"))):
                    pass
                else:
                    val = ("down", val, pr.get("n"))
            elif isinstance(pr, dict) and "ss" in pr:
                lv = ("subslice", lv, tuple(pr["ss"]), pr.get("fe"))
                val = ("subslice", val, tuple(pr["ss"]), pr.get("fe"))
            else:
                lv = ("o", lv)
                val = ("o", val)
        return val

    def write(self, place, val):
        if not place["p"]:
            self.loc[place["l"]] = val
            # forget memory cells rooted at this local
            for k in [k for k in self.mem if _root_local(k) == place["l"]]:
                del self.mem[k]
            return
        # single-field update of a known aggregate
        if len(place["p"]) == 1 and isinstance(place["p"][0], dict) and "f" in place["p"][0]:
            cur = self.loc.get(place["l"])
            if isinstance(cur, tuple) and cur[0] == "agg" and place["p"][0]["f"] < len(cur[3]):
                ops = list(cur[3])
                ops[place["p"][0]["f"]] = val
                self.loc[place["l"]] = ("agg", cur[1], cur[2], tuple(ops), cur[4] if len(cur) > 4 else None)
                return
        # element update of a known array aggregate at a constant index: c[2] = x
        if len(place["p"]) == 1 and isinstance(place["p"][0], dict) and ("i" in place["p"][0] or "ci" in place["p"][0]):
            cur = self.loc.get(place["l"])
            ix = self.local(place["p"][0]["i"]) if "i" in place["p"][0] else K(place["p"][0]["ci"], "usize")
            if isinstance(cur, tuple) and cur[0] == "agg" and cur[1] == "array" and is_const(ix) and isinstance(ix[1], int) and 0 <= ix[1] < len(cur[3]):
                ops = list(cur[3])
                ops[ix[1]] = val
                self.loc[place["l"]] = ("agg", cur[1], cur[2], tuple(ops), cur[4] if len(cur) > 4 else None)
                return
        # build lvalue like read()
        val0 = self.local(place["l"])
        lv = ("loc", place["l"])
        v = val0
        for pr in place["p"]:
            if pr == "*":
                if isinstance(v, tuple) and v[0] == "ref":
                    lv = ("lv", v[1])
                    v = self.mem.get(lv, v[1])
                else:
                    lv = ("deref", v)
                    v = self.mem.get(lv, ("deref", v))
            elif isinstance(pr, dict) and "f" in pr:
                lv = ("fld", lv, pr.get("n", pr["f"]))
                v = self.mem.get(lv, proj_field(v, pr.get("n", pr["f"]), pr["f"]))
            elif isinstance(pr, dict) and "i" in pr:
                ix = self.local(pr["i"])
                lv = ("idx", lv, ix)
                v = self.mem.get(lv, proj_index(v, ix))
            elif isinstance(pr, dict) and "ci" in pr:
                ix = K(pr["ci"], "usize")
                lv = ("idx", lv, ix)
                v = self.mem.get(lv, proj_index(v, ix))
            elif isinstance(pr, dict) and "d" in pr:
                lv = ("down", lv, pr.get("n"))
                v = ("down", v, pr.get("n"))
            else:
                lv = ("o", lv)
                v = ("o", v)
        self.mem[lv] = val


def _root_local(lv):
    while isinstance(lv, tuple):
        if lv[0] == "loc":
            return lv[1]
        if lv[0] in ("fld", "idx", "down", "subslice", "o"):
            lv = lv[1]
        else:
            return None
    return None


def proj_field(val, name, idx=None):
    if isinstance(val, tuple):
        if val[0] == "chk":
            if idx == 0 or name == 0:
                return val[1]
            return ("ovf", val[1])
        if val[0] == "agg" and idx is not None and idx < len(val[3]):
            if val[1] in ("tuple", "adt", "closure"):
                return val[3][idx]
    return ("fld", val, name)


def proj_index(val, ix):
    if isinstance(val, tuple) and val[0] == "agg" and val[1] == "array" and is_const(ix) and isinstance(ix[1], int) and ix[1] < len(val[3]):
        return val[3][ix[1]]
    return ("idx", val, ix)


def norm_bin(op, a, b):
    if op.endswith("WithOverflow"):
        return ("chk", norm_bin(op[: -len("WithOverflow")], a, b))
    if op.endswith("Unchecked"):
        op = op[: -len("Unchecked")]
    if op in COMMUTATIVE and repr(b) < repr(a):
        a, b = b, a
    return ("bin", op, a, b)


class Path:
    __slots__ = ("conds", "env", "end", "end_bb", "events", "blocks")

    def __init__(self, conds, env, end, end_bb, events, blocks):
        self.conds = conds
        self.env = env
        self.end = end
        self.end_bb = end_bb
        self.events = events
        self.blocks = blocks


class Explorer:
    def __init__(self, body, call_model=None, max_paths=20000, fold_const_switch=True):
        self.body = body
        self.call_model = call_model
        self.max_paths = max_paths
        self.paths = []
        self.truncated = False
        self.fold = fold_const_switch

    def operand(self, env, op):
        if "c" in op:
            return env.read(op["c"])
        if "m" in op:
            return env.read(op["m"])
        k = op.get("k")
        if k is None:
            return ("o", "operand")
        if "bits" in k:
            return K(const_int(op), k["ty"])
        if "str" in k:
            return ("ks", k["str"])
        if "fn" in k:
            return ("kfn", k["fn"], tuple(k.get("ga", [])))
        if "bytes" in k:
            if k.get("fields"):
                # struct constant: field layout [(name, offset, size), ...] from the compiler
                return ("kb", k["bytes"], k["ty"], tuple(tuple(f) for f in k["fields"]))
            return ("kb", k["bytes"], k["ty"])
        if "closure" in k:
            return ("kclosure", k["closure"])
        return ("kz", k["ty"], k.get("uneval"), k.get("promoted"))

    def rvalue(self, env, rv):
        k = rv["k"]
        if k == "use":
            return self.operand(env, rv["a"])
        if k == "bin":
            return norm_bin(rv["op"], self.operand(env, rv["a"]), self.operand(env, rv["b"]))
        if k == "un":
            a = self.operand(env, rv["a"])
            if rv["op"] == "PtrMetadata":
                return ("len", a)
            return ("un", rv["op"], a)
        if k == "cast":
            a = self.operand(env, rv["a"])
            ck = rv["ck"]
            if ck.startswith("PointerCoercion") or ck in ("Transmute", "PtrToPtr"):
                if "reify" in rv:
                    return ("kfn", rv["reify"], ())
                if ck.startswith("PointerCoercion(Unsize"):
                    return a
                return a
            return ("cast", rv["to"], a)
        if k in ("ref", "rawptr"):
            v = self._lv_as_value(env, rv["p"])
            if isinstance(v, tuple) and v[0] == "deref":
                return v[1]  # reborrow &*x
            return ("ref", v)
        if k == "discr":
            v = env.read(rv["p"])
            if isinstance(v, tuple) and v[0] == "agg" and v[1] == "adt" and len(v) > 4 and v[4] is not None:
                return ("kvariant", v[2], v[4])
            return ("discr", v)
        if k == "agg":
            ops = tuple(self.operand(env, o) for o in rv["ops"])
            ak = rv.get("ak")
            if ak == "adt":
                return ("agg", "adt", rv["adt"] + "::" + rv["variant"], ops, rv.get("vidx"))
            if ak == "closure":
                return ("agg", "closure", rv["closure"], ops, None)
            return ("agg", ak, ak, ops, None)
        if k == "repeat":
            return ("repeat", self.operand(env, rv["a"]), rv["n"])
        return ("o", k)

    def _lv_as_value(self, env, place):
        # value-level representation of the referenced place: reading through the ref gives the current value
        return env.read(place)

    def model_call(self, env, t):
        f = t["f"].get("k") or {}
        callee = t.get("res") or f.get("fn") or "?"
        if t.get("resl") and f.get("ga") and t.get("resn"):
            callee = t["resn"]  # local generic callee: keep the instantiation (`read_data_raw::<u32>`)
        decl = f.get("fn") or callee
        args = tuple(self.operand(env, a) for a in t["args"])
        if self.call_model:
            r = self.call_model(callee, decl, args, t)
            if r is not None:
                return callee, args, r
        short = decl
        if (decl in PASS_THROUGH or callee in PASS_THROUGH) and not t.get("resl"):
            a = args[0]
            if decl.endswith("Clone::clone") or decl.endswith("Deref::deref") or decl.endswith("AsRef::as_ref") or decl.endswith("Borrow::borrow") or decl.endswith("deref_mut") or decl.endswith("as_mut"):
                # &T -> T (clone) or &T -> &U view: keep the referent identity
                if decl.endswith("Clone::clone") or decl.endswith("ToOwned::to_owned"):
                    return callee, args, (a[1] if isinstance(a, tuple) and a[0] == "ref" else ("deref", a))
                return callee, args, a
            if decl.endswith("Into::into") or decl.endswith("From::from"):
                return callee, args, ("cast", t["dest"]["ty"], a)
            return callee, args, a
        last = short.split("::")[-1]
        if last in ("wrapping_add", "wrapping_mul", "wrapping_sub", "wrapping_shl", "wrapping_shr") and len(args) == 2 and "num::<impl" in short:
            op = {"wrapping_add": "WAdd", "wrapping_mul": "WMul", "wrapping_sub": "WSub", "wrapping_shl": "WShl", "wrapping_shr": "WShr"}[last]
            return callee, args, norm_bin(op, args[0], args[1])
        if decl in ("std::ops::Index::index", "std::ops::IndexMut::index_mut") and len(args) == 2:
            base = args[0]
            base = base[1] if isinstance(base, tuple) and base[0] == "ref" else ("deref", base)
            return callee, args, ("ref", proj_index(base, args[1]))
        return callee, args, ("call", callee, args)

    def loops(self):
        """Natural loops over normal edges: head -> set of locals assigned in the loop body."""
        if getattr(self, "_loops", None) is not None:
            return self._loops
        b = self.body
        heads = {}
        for s_ in b.reachable():
            for h in b.succ(s_):
                if b.dominates(h, s_):
                    # natural loop of back-edge s_ -> h
                    body = {h, s_}
                    work = [s_]
                    while work:
                        x = work.pop()
                        if x == h:
                            continue
                        for p_ in b.pred(x):
                            if p_ not in body and p_ in b.reachable():
                                body.add(p_)
                                work.append(p_)
                    heads.setdefault(h, set()).update(body)
        out = {}
        for h, blocks in heads.items():
            assigned = set()
            for bi in blocks:
                blk = b.blocks[bi]
                for st in blk["s"]:
                    if st["k"] in ("assign", "setdiscr"):
                        assigned.add(st["lhs"]["l"])
                        rv = st.get("rv", {})
                        # a mutable borrow taken in the loop may be written through
                        if rv.get("k") in ("ref", "rawptr") and rv.get("mut") not in (False, "Not", "Const"):
                            assigned.add(rv["p"]["l"])
                t = blk["t"]
                if t["k"] == "call" and "dest" in t:
                    assigned.add(t["dest"]["l"])
            out[h] = (blocks, assigned)
        self._loops = out
        return out

    def havoc(self, env, head):
        blocks, assigned = self.loops()[head]
        names = self.body.local_names()
        for l in assigned:
            env.loc[l] = ("h", l, names.get(l) or f"_{l}", head)
            for k in [k for k in env.mem if _root_local(k) == l]:
                del env.mem[k]

    def explore(self, start_bb=0, env=None, stop_blocks=(), havoc_loops=True):
        env = env or Env(self.body)
        stop = set(stop_blocks)
        self._havoc = havoc_loops
        if havoc_loops and start_bb in self.loops():
            self.havoc(env, start_bb)
        # iterative DFS: (bb, env, conds, events, onpath)
        stack = [(start_bb, env, (), (), (start_bb,))]
        first = True
        while stack:
            bb, env, conds, events, onpath = stack.pop()
            while True:
                if len(self.paths) >= self.max_paths:
                    self.truncated = True
                    return self.paths
                blk = self.body.blocks[bb]
                for s in blk["s"]:
                    if s["k"] == "assign":
                        env.write(s["lhs"], self.rvalue(env, s["rv"]))
                    elif s["k"] == "setdiscr":
                        env.write(s["lhs"], ("setdiscr", s["v"]))
                t = blk["t"]
                k = t["k"]
                nxt = None
                if k == "goto":
                    nxt = t["t"]
                elif k in ("drop", "assert"):
                    nxt = t["t"]
                elif k == "call":
                    callee, args, res = self.model_call(env, t)
                    events = events + ((bb, callee, args, res),)
                    if "dest" in t:
                        env.write(t["dest"], res)
                    if t.get("t", -1) >= 0:
                        nxt = t["t"]
                    else:
                        self.paths.append(Path(conds, env, "diverge", bb, events, onpath))
                        break
                elif k == "switch":
                    d = self.operand(env, t["a"])
                    arms = [(int(v), tgt) for v, tgt in t["arms"]]
                    if self.fold and is_const(d) and isinstance(d[1], (int, bool)):
                        dv = int(d[1])
                        tgt = next((tg for v, tg in arms if v == dv), t["else"])
                        nxt = tgt
                    elif self.fold and isinstance(d, tuple) and d[0] == "kvariant":
                        dv = d[2]
                        nxt = next((tg for v, tg in arms if v == dv), t["else"])
                    else:
                        vals = [v for v, _ in arms]
                        succs = [(("eq", v), tgt) for v, tgt in arms] + [(("ne", tuple(vals)), t["else"])]
                        for c, tgt in reversed(succs):
                            # skip the `otherwise` edge when it is an `unreachable` block
                            if self.body.blocks[tgt]["t"]["k"] == "unreachable" and not self.body.blocks[tgt]["s"]:
                                continue
                            if tgt in onpath and tgt != bb:
                                self.paths.append(Path(conds + ((d, c),), env.copy(), "loop", tgt, events, onpath))
                                continue
                            if tgt in stop:
                                self.paths.append(Path(conds + ((d, c),), env.copy(), "stop", tgt, events, onpath))
                                continue
                            e2 = env.copy()
                            if self._havoc and tgt in self.loops():
                                self.havoc(e2, tgt)
                            stack.append((tgt, e2, conds + ((d, c),), events, onpath + (tgt,)))
                        break
                elif k == "return":
                    self.paths.append(Path(conds, env, "return", bb, events, onpath))
                    break
                else:
                    self.paths.append(Path(conds, env, k, bb, events, onpath))
                    break
                if nxt in stop:
                    self.paths.append(Path(conds, env, "stop", nxt, events, onpath))
                    break
                if nxt in onpath:
                    self.paths.append(Path(conds, env, "loop", nxt, events, onpath))
                    break
                onpath = onpath + (nxt,)
                if self._havoc and nxt in self.loops():
                    self.havoc(env, nxt)
                bb = nxt
        return self.paths


def flatten(e, op):
    """Flatten nested commutative/associative `op` applications into a sorted tuple of operands."""
    out = []

    def rec(x):
        if isinstance(x, tuple) and x[0] == "bin" and x[1] == op:
            rec(x[2])
            rec(x[3])
        else:
            out.append(x)

    rec(e)
    return tuple(sorted(out, key=repr))


def strip_casts(e):
    while isinstance(e, tuple) and e[0] == "cast":
        e = e[2]
    return e


def walk(e):
    """All sub-terms of an expression."""
    if isinstance(e, tuple) and not e:
        return
    if isinstance(e, tuple) and e and not isinstance(e[0], str):
        # a plain sequence of expressions (e.g. call arguments)
        for x in e:
            if isinstance(x, tuple):
                yield from walk(x)
        return
    yield e
    if isinstance(e, tuple):
        for x in e[1:]:
            if isinstance(x, tuple):
                yield from walk(x)


# ---- normal forms shared by the rules (literal folding, cast removal, variable leaves)
def fold(e):
    """Literal folding of integer constants and removal of overflow-check wrappers."""
    if not isinstance(e, tuple) or not e:
        return e
    if e[0] == "chk":
        return fold(e[1])
    if e[0] == "bin":
        a, b = fold(e[2]), fold(e[3])
        op = e[1]
        if is_const(a) and is_const(b) and isinstance(a[1], int) and isinstance(b[1], int):
            if op in ("Add", "WAdd"):
                return K(a[1] + b[1], a[2])
            if op in ("Sub",):
                return K(a[1] - b[1], a[2])
            if op in ("Mul",):
                return K(a[1] * b[1], a[2])
            if op == "Shr":
                return K(a[1] >> b[1], a[2])
            if op == "Shl":
                return K(a[1] << b[1], a[2])
        r = norm_bin(op, a, b)
        return r
    if e[0] == "cast":
        inner = fold(e[2])
        if is_const(inner):
            return K(inner[1], e[1])
        return ("cast", e[1], inner)
    return tuple(fold(x) if isinstance(x, tuple) else x for x in e)


def nocast(e):
    """Remove integer casts everywhere (widths are not what is compared here)."""
    if not isinstance(e, tuple) or not e:
        return e
    if e[0] == "cast":
        return nocast(e[2])
    if e[0] == "k":
        return ("k", e[1], "int")
    if e[0] in ("p", "u", "h"):
        return ("v", e[1])
    return tuple(nocast(x) if isinstance(x, tuple) else x for x in e)


def N(e):
    e = nocast(fold(e))

    def re(x):
        if not isinstance(x, tuple):
            return x
        x = tuple(re(y) if isinstance(y, tuple) else y for y in x)
        if x and x[0] == "bin":
            return norm_bin(x[1], x[2], x[3])
        return x

    return re(e)


