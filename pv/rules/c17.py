"""C17 — untrusted user and launcher files never crash the caller.

Decided:
  PANIC     no panic-capable construct (unwrap/expect, panic!, indexing, slice preconditions, Sub/shift/div asserts,
            header-sized allocations, recursion) is reachable in the monomorphic call graph from the entry points
            unless discharged by D1..D9, excepted by name (spec/exceptions.json) or listed as a known finding
  WIREALLOC binrw `count = <wide field>` on Vec<u8> (binrw reserves the whole count up front)
  EOF       ZiPatch::apply constructs Ok(()) only under the EndOfFile arm
  ERRDISC   every Result from the I/O / parse layer inside apply and its helpers is propagated with `?` or consumed by
            an enumerated idiom
Not decided: wall-time bounds of loops, Add/Mul overflow (wraps in release; the wrapped value then meets an index or
alloc site which is decided).
"""
import re

from ..mir import is_user_span, op_place
from ..prov import derive, index_of
from .panic_common import run_loops, run_panic

TECHNIQUE = "static analysis: reachability of panic-capable MIR constructs over the monomorphic call graph from the untrusted-input entry points, with dataflow discharges (constant/masked index, induction variable, dominating guard, infallible unwrap), dominator check for the success return and consumer check for I/O results; structural termination arguments for every reachable natural loop (finite iterator, stepped counter tested on exit, stepped bounds-checked index, input-consuming read)"
TRUSTED = ["rustc nightly MIR and trait resolution", "binrw 0.14 generated code and std internals (not inspected; their panicking preconditions are modelled by the callee list in pv/panic.py)", "spec/exceptions.json (named infeasible sites with reasons)"]

ENTRIES = [
    "cfg::ConfigFile::from_existing",
    "exl::EXL::from_existing",
    "fiin::FileInfo::from_existing",
    "chardat::CharacterData::from_existing",
    "gearsets::GearSets::from_existing",
    "log::ChatLog::from_existing",
    "patchlist::PatchList::from_string",
    "patch::ZiPatch::apply",
    "gamedata::GameData::apply_patch",
    "bootdata::BootData::apply_patch",
    "bootdata::BootData::from_existing",
    "execlookup::extract_frontier_url",
]

IO_ERR = ("std::io::Error>", "binrw::Error>", "patch::PatchError>")


def consumers(body, local):
    """How a temp holding a Result is consumed: list of (kind, callee_or_op, bb)."""
    out = []
    for bi, t in body.calls():
        for a in t["args"]:
            p = op_place(a)
            if p and p["l"] == local and not p["p"]:
                out.append(("call", t.get("res") or "", bi))
    for bi, si, s in body.stmts():
        if s["k"] != "assign":
            continue
        rv = s["rv"]
        ops = []
        if rv["k"] in ("use", "cast", "un", "repeat"):
            ops = [rv["a"]]
        elif rv["k"] == "bin":
            ops = [rv["a"], rv["b"]]
        elif rv["k"] == "agg":
            ops = rv["ops"]
        for a in ops:
            p = op_place(a)
            if p and p["l"] == local:
                out.append(("use", rv["k"], bi))
        if rv["k"] in ("ref", "discr") and rv["p"]["l"] == local:
            out.append((rv["k"], s["lhs"]["l"], bi))
    return out


def errdisc(ctx, fn):
    b = ctx.prog.body(fn)
    if not b:
        ctx.fail_closed("ERRDISC", f"{fn} not found")
        return 0
    n = 0
    for bi, t in b.calls():
        ty = t.get("dest", {}).get("ty", "")
        if not (ty.startswith("std::result::Result<") and ty.endswith(IO_ERR)):
            continue
        if not is_user_span(t["sp"]):
            continue
        callee = t.get("res") or ""
        if "FromResidual" in callee or callee.endswith("::ok_or") or callee.endswith("::map_err"):
            continue
        d = t["dest"]
        if d["p"]:
            continue
        n += 1
        short = callee.split("::")[-1]
        if d["l"] == 0:
            ctx.ob("ERRDISC", f"{fn}|{short}|returned", True, f"{callee} result is returned to the caller", b.file, None)
            continue
        cons = consumers(b, d["l"])
        # a plain copy/move of the Result into another local (e.g. the return slot of an inlined helper) is not a
        # consumption: follow it to the consumers of the copy
        for _ in range(4):
            moved = []
            rest = []
            for kind, what, bb_ in cons:
                whole = []
                if kind == "use" and what == "use":
                    for bi_, si_, s_ in b.stmts():
                        q_ = op_place(s_["rv"]["a"]) if s_["k"] == "assign" and s_["rv"]["k"] == "use" else None
                        if bi_ == bb_ and q_ is not None and q_["l"] == d["l"] and not q_["p"] and not s_["lhs"]["p"]:
                            whole.append(s_["lhs"]["l"])
                if whole:
                    moved += whole
                else:
                    rest.append((kind, what, bb_))
            if not moved:
                break
            cons = rest
            for l_ in moved:
                if l_ == 0:
                    cons.append(("call", "returned::Try>::branch", -1))
                else:
                    cons += consumers(b, l_)
                d = dict(d, l=l_)
        kinds = set()
        for kind, what, _bb in cons:
            if kind == "call" and what.endswith("Try>::branch"):
                kinds.add("?")
            elif kind == "call":
                kinds.add(what.split("::")[-1])
            elif kind == "discr":
                kinds.add("match")
            elif kind == "ref":
                # &result passed on: look one level further (is_err(&r), is_ok(&r))
                for k2, w2, _b2 in consumers(b, what):
                    kinds.add(w2.split("::")[-1] if k2 == "call" else k2)
            else:
                kinds.add(kind)
        ok = kinds == {"?"}
        # enumerated idioms (one line of reason each)
        if not ok and short == "remove_file" and kinds == {"is_err"}:
            ok = True  # deleting an absent file is a no-op in the reference semantics; failure is logged
        if not ok and short == "read_dir" and kinds == {"is_ok"}:
            ok = True  # existence probe only; the removal that follows is propagated with `?`
        ctx.ob("ERRDISC", f"{fn}|{short}|{'+'.join(sorted(kinds)) or 'dropped'}", ok, f"{callee} returns {ty.split('<')[0]}<..>; consumed by {sorted(kinds) or 'nothing'}; must be propagated with `?` (or an enumerated idiom)", b.file, int(t["sp"]["at"].split(":")[-2]))
    return n


LOOPS_FLOOR = 6  # natural loops counted on the pinned tree: 8; the floor leaves room for loops rewritten as iterator chains


def run(ctx):
    prog = ctx.prog
    ctx.decided("no undischarged panic/abort/overflow/alloc construct reachable from the 12 untrusted-input entry points")
    ctx.decided("no recursion reachable from them")
    ctx.decided("binrw up-front reservations driven by wide count fields")
    ctx.decided("ZiPatch::apply reports success only at the end-of-file chunk")
    ctx.decided("I/O and parse errors inside apply are propagated")
    ctx.decided("every reachable loop carries a structural termination argument (LOOPS)")
    ctx.decided("reachable unsafe operations stay inside the memory of the slice they view (UNSAFE: extent, not data validity)")
    ctx.not_decided("wall time; Add/Mul overflow asserts")

    sites, reach, parent, defs, sccs, und = run_panic(ctx, ENTRIES, floor_entries=12, floor_defs=300)
    from ..unsafe_rule import rule as unsafe_rule

    n_unsafe = unsafe_rule(ctx, defs)
    ctx.floor("UNSAFE", "unsafe operations reachable from the entry points (from_u16 view, SHA-1 block cast, libz calls)", n_unsafe, 1)
    run_loops(ctx, defs, floor=LOOPS_FLOOR)
    for comp in sccs:
        ctx.ob("RECURSION", "|".join(comp)[:200], False, f"recursion reachable from untrusted input (stack depth is input-controlled): {comp}", None, None)
    if not sccs:
        ctx.ob("RECURSION", "none", True, "no recursive cycle among the reachable local functions", None, None)

    # ---- WIREALLOC (shared helper)
    from .wirealloc import wire_alloc

    wire_alloc(ctx, defs)

    # ---- EOF: Ok(()) only under the EndOfFile arm
    ab = prog.body("patch::ZiPatch::apply")
    ct = prog.adts.get("patch::ChunkType")
    if not ab or not ct:
        ctx.fail_closed("EOF", "patch::ZiPatch::apply / patch::ChunkType not found")
    else:
        eof = [int(v["discr"]) for v in ct["variants"] if v["name"] == "EndOfFile"]
        oks = []
        for bi, si, s in ab.stmts():
            if s["k"] == "assign" and s["lhs"]["l"] == 0 and not s["lhs"]["p"] and s["rv"].get("k") == "agg" and s["rv"].get("variant") == "Ok":
                oks.append((bi, s))
        if not eof or not oks:
            ctx.fail_closed("EOF", "no EndOfFile variant or no Ok(()) construction in apply")
        for bi, s in oks:
            # walk dominators: some dominating switch on discriminant(chunk.chunk_type) must take the EndOfFile arm
            ok = False
            idom = ab.idom()
            cur = bi
            while cur in idom and idom[cur] != cur:
                par = idom[cur]
                t = ab.term(par)
                if t["k"] == "switch":
                    arm = [int(v) for v, tgt in t["arms"] if tgt == cur or ab.dominates(tgt, bi)]
                    p = op_place(t["a"])
                    if p is not None and not p["p"]:
                        for kind, _b, _s, st in ab.defs().get(p["l"], []):
                            if kind == "assign" and st["rv"]["k"] == "discr" and st["rv"]["p"]["ty"] == "patch::ChunkType" and arm == eof:
                                ok = True
                cur = par
            ctx.ob("EOF", "Ok-under-EndOfFile", ok, "the only success value of apply is constructed in the region dominated by the EndOfFile arm of the chunk switch", ab.file, int(s["sp"]["at"].split(":")[-2]))

    # ---- ERRDISC
    n = 0
    # apply and every hand-written helper of the patch module it reaches (helpers that were inlined are covered by
    # their callers; a helper that no longer exists is not an error)
    helpers = sorted({d for d in defs if d.startswith("patch::") and "::{closure" not in d and d in prog.raw_bodies and not prog.raw_bodies[d].user_derived() and not prog.raw_bodies[d].j.get("impl_trait")} | {"patch::ZiPatch::apply"})
    for fn in helpers:
        if fn.startswith("patch::ZiPatch::") and fn != "patch::ZiPatch::apply":
            continue
        if getattr(prog, "_inliner", None) is not None and prog._inliner.inlinable(fn):
            continue
        n += errdisc(ctx, fn)
        # a buffering writer around a file reports the failure of its last write only from flush() / into_inner(); when
        # it is merely dropped the error is discarded and apply would report success for data that never reached the file
        fb_ = prog.body(fn)
        fix_ = index_of(fb_)
        for _bi, t_ in fb_.calls():
            c_ = fix_.callee(t_)
            if re.search(r"(BufWriter|LineWriter)::<[^>]*>::(new|with_capacity)$", c_) and "std::fs::File" in (t_.get("resn") or "") + " ".join(fb_.locals[op_place(a_)["l"]]["ty"] for a_ in t_["args"] if op_place(a_)):
                wl = t_["dest"]["l"]
                flushed = False
                for _b2, t2 in fb_.calls():
                    if fix_.callee(t2).split("::")[-1] in ("flush", "into_inner", "into_parts") and t2["args"] and wl in derive(fix_, t2["args"][0]).locals:
                        flushed = True
                ctx.ob("ERRDISC", f"{fn}|buffered-writer|flushed", flushed, f"{fn} writes to a file through a buffering writer: it is {'flushed explicitly' if flushed else 'only dropped, which discards the error of the final write'}", fb_.file, int(t_["sp"]["at"].split(":")[-2]))
    ctx.floor("ERRDISC", "I/O results produced in apply and its helpers", n, 30)
