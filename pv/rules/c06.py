"""C06 — model parsing yields the stored geometry for every vertex layout.

Decided:
  W1/W5    file header (0x44), runtime header tail (56 B), LOD / mesh / sub-mesh / bone table / shape / element-id /
           bounding-box records and the read order of ModelData; VertexType / VertexUsage codes; declaration constants
           (17 slots, 8-byte elements, 0xFF end marker); version gates cover every version exactly once
  DISPATCH the (usage, type) switch of MDL::from_existing: typed reader and destination field of Vertex per pair
           against the reference; uv0 / uv1 take components 0..2 / 2..4
  WIDTH    each typed reader consumes the documented width of its type (number and type of scalar reads) and decodes
           with the standard meaning (u8 / 255, f16::from_bits().to_f32(), raw floats / bytes)
  SEEK     element seek derives from LOD vertex offset + stream offset + element offset + stride * vertex index;
           index seek from index_offsets[lod] + start_index * 2; raw stream seek from LOD offset + stream offset + z * stride
  FRESH    every Vec placed in a Part / Shape / Lod literal is created inside each loop that encloses the literal (a
           buffer hoisted out of the per-shape / per-mesh loop carries one item's data into the next)
Not decided: decoded numeric values, shape/sub-mesh extraction semantics, string-table names.
"""
from .. import dispatch as D
from .. import wire as W
from ..mir import const_int
from ..prov import derive, index_of
from ..wrules import model, w1, w5_repr

ANCHOR_RE = [r"model_file_operations::.*::(read|write)_(byte_float4|byte_float42|tangent|half4|half2|byte4|single3|single4|unsigned_short4)$"]  # typed readers are addressed by computed name
TECHNIQUE = "static analysis: binrw layout rules vs reference; per-arm dispatch facts of the (usage, type) switch nest (callees, Vertex fields touched); callee/generic-argument inventory of the typed readers; derives-from obligations on the seek arguments"
TRUSTED = ["pv/wire.py binrw model", "spec/layouts.txt (Lumina MdlStructs)", "reference dispatch table embedded in this rule", "rustc nightly MIR"]

REF_TYPES = {"Single1": 0, "Single2": 1, "Single3": 2, "Single4": 3, "Byte4": 5, "Short2": 6, "Short4": 7, "ByteFloat4": 8, "Short2n": 9, "Short4n": 10, "Half2": 13, "Half4": 14, "UnsignedShort2": 16, "UnsignedShort4": 17}
REF_USAGES = {"Position": 0, "BlendWeights": 1, "BlendIndices": 2, "Normal": 3, "UV": 4, "Tangent": 5, "BiTangent": 6, "Color": 7}
# (usage, type) -> (typed reader, Vertex fields).  None as reader = not constrained (unconfirmed in the reference).
REF_READ = {
    ("Position", "Single4"): ("read_single4", {"position"}), ("Position", "Half4"): ("read_half4", {"position"}), ("Position", "Single3"): ("read_single3", {"position"}),
    ("BlendWeights", "ByteFloat4"): ("read_byte_float4", {"bone_weight"}), ("BlendWeights", "Byte4"): (None, {"bone_weight"}), ("BlendWeights", "UnsignedShort4"): ("read_unsigned_short4", {"bone_weight"}),
    ("BlendIndices", "Byte4"): ("read_byte4", {"bone_id"}), ("BlendIndices", "UnsignedShort4"): ("read_unsigned_short4", {"bone_id"}),
    ("Normal", "Half4"): ("read_half4", {"normal"}), ("Normal", "Single3"): ("read_single3", {"normal"}),
    ("UV", "ByteFloat4"): ("read_byte_float4", {"uv0", "uv1"}), ("UV", "Half4"): ("read_half4", {"uv0", "uv1"}), ("UV", "Single4"): ("read_single4", {"uv0", "uv1"}), ("UV", "Half2"): ("read_half2", {"uv0"}),
    ("BiTangent", "ByteFloat4"): ("read_tangent", {"bitangent"}), ("Tangent", "ByteFloat4"): ("", set()), ("Color", "ByteFloat4"): ("read_byte_float4", {"color"}),
}
# typed reader -> (scalar read type, count of scalar reads or array length, total bytes)
REF_WIDTH = {"read_byte_float4": ("u8", 4, 4), "read_tangent": ("u8", 4, 4), "read_half4": ("u16", 4, 8), "read_half2": ("u16", 2, 4), "read_byte4": ("[u8; 4]", 1, 4),
             "read_single3": ("[f32; 3]", 1, 12), "read_single4": ("[f32; 4]", 1, 16), "read_unsigned_short4": ("[u16; 4]", 1, 8)}
TYPES = ["model::ModelFileHeader", "model::ModelHeader", "model::MeshLod", "model::Mesh", "model::Submesh", "model::BoneTable", "model::ShapeStruct", "model::ShapeMesh", "model::ShapeValue",
         "model::ElementId", "model::BoundingBox", "model_vertex_declarations::VertexElement", "model::ModelData"]


def arms_table(prog, fn):
    b = prog.body(fn)
    if not b:
        return None, None
    arms = D.nested_arms(b, "model_vertex_declarations::VertexUsage", "model_vertex_declarations::VertexType")
    U = {int(v["discr"]): v["name"] for v in prog.adts["model_vertex_declarations::VertexUsage"]["variants"]}
    T = {int(v["discr"]): v["name"] for v in prog.adts["model_vertex_declarations::VertexType"]["variants"]}
    out = {}
    for (u, t), blocks in arms.items():
        calls, fields = D.region_facts(b, blocks, "model::Vertex")
        names = [(t_.get("res") or "").split("::")[-1] for _bi, _n, t_ in calls]
        out[(U.get(u, u), T.get(t, t) if t not in (None, "else") else t)] = (names, fields, blocks)
    return b, out


def _f32(e):
    import struct

    if isinstance(e, tuple) and e[0] == "k" and e[2] == "f32" and isinstance(e[1], int):
        return struct.unpack("<f", struct.pack("<I", e[1] & 0xFFFFFFFF))[0]
    return None


def _is_byte(e):
    """A freshly read byte, possibly converted to f32."""
    if isinstance(e, tuple) and e[0] == "cast" and e[1] == "f32":
        e = e[2]
    return isinstance(e, tuple) and any(isinstance(t, tuple) and t[0] == "call" and t[1].endswith("read_le") for t in _walk(e))


def _walk(e):
    from ..sym import walk

    return walk(e)


def untry(e):
    """`Some(x)?` / `Ok(x)?` spelled through an inlined helper: ((branch(Some(x)) as Continue).0) is x."""
    if not isinstance(e, tuple):
        return e
    if e[0] == "fld" and len(e) == 3 and e[2] in ("0", 0) and isinstance(e[1], tuple) and e[1][0] == "down" and e[1][2] == "Continue":
        c = e[1][1]
        if isinstance(c, tuple) and c[0] == "call" and c[1].endswith("Try>::branch") and len(c[2]) == 1:
            a = c[2][0]
            if isinstance(a, tuple) and a[0] == "agg" and a[2].split("::")[-1] in ("Some", "Ok") and len(a[3]) == 1:
                return untry(a[3][0])
    return tuple(untry(x) if isinstance(x, tuple) else x for x in e)


def is_snorm(e):
    """byte * 2 / 255 - 1 (signed normalised byte) in any of its exactly equal spellings."""
    if not (isinstance(e, tuple) and e[0] == "bin" and e[1] == "Sub" and _f32(e[3]) == 1.0):
        return False
    x = e[2]
    if not (isinstance(x, tuple) and x[0] == "bin"):
        return False

    def times2(y):
        return isinstance(y, tuple) and y[0] == "bin" and y[1] == "Mul" and ((_f32(y[3]) == 2.0 and _is_byte(y[2])) or (_f32(y[2]) == 2.0 and _is_byte(y[3])))

    if x[1] == "Div" and _f32(x[3]) == 255.0 and times2(x[2]):
        return True
    if x[1] == "Div" and _f32(x[3]) == 127.5 and _is_byte(x[2]):
        return True
    if x[1] == "Mul":
        for a, b_ in ((x[2], x[3]), (x[3], x[2])):
            if _f32(b_) == 2.0 and isinstance(a, tuple) and a[0] == "bin" and a[1] == "Div" and _f32(a[3]) == 255.0 and _is_byte(a[2]):
                return True
    return False


def tangent_decode(rb):
    """(three signed-normalised components?, handedness rule) of read_tangent, from its Some(..) paths."""
    from ..sym import Explorer

    xyz_ok, w = True, {}
    n = 0
    for p in Explorer(rb, max_paths=400).explore():
        leaf = p.env.local(0)
        if not (isinstance(leaf, tuple) and leaf[0] == "agg" and leaf[2].endswith("Option::Some") and leaf[3] and isinstance(leaf[3][0], tuple) and leaf[3][0][0] == "agg" and len(leaf[3][0][3]) == 4):
            continue
        n += 1
        comps = [untry(c) for c in leaf[3][0][3]]
        xyz_ok = xyz_ok and all(is_snorm(c) for c in comps[:3])
        sign = _f32(comps[3])
        cond = None
        for c in p.conds:
            e, (op, val) = untry(c[0]), c[1]
            v0 = val[0] if isinstance(val, tuple) and val else val
            if isinstance(e, tuple) and e[0] == "bin" and e[1] in ("Eq", "Ge", "Ne", "Lt"):
                truth = (op == "eq" and v0 != 0) or (op == "ne" and v0 == 0)
                if e[1] in ("Ne", "Lt"):
                    truth = not truth
                full = (is_snorm(e[2]) and _f32(e[3]) == 1.0) or (_is_byte(e[2]) and isinstance(e[3], tuple) and e[3][0] == "k" and e[3][1] == 255 and e[3][2] != "f32") or (_is_byte(e[2]) and _f32(e[3]) == 255.0)
                if full:
                    cond = truth
        w[sign] = cond
    return n, xyz_ok, w


def fresh_rule(ctx):
    """FRESH: what a parsed mesh part / shape / LOD carries was collected for that item alone: every Vec placed in a
    `Part`, `Shape` or `Lod` literal is a buffer created inside each loop that encloses the literal (so it starts empty or
    zeroed for every item), not one allocated further out and reused across iterations."""
    from ..mir import op_place
    from ..sym import Explorer

    prog = ctx.prog
    b = prog.body("model::MDL::from_existing")
    if not b:
        ctx.fail_closed("FRESH", "model::MDL::from_existing not found")
        return
    ix = index_of(b)
    defs = b.defs()
    loops = Explorer(b).loops()
    CTOR = ("from_elem", "Vec::<T>::new", "Vec::<T>::with_capacity", "FromIterator<T>>::from_iter", "Iterator::collect", "::collect", "into_vec", "to_vec", "Default>::default")
    VIEW = ("Clone>::clone", "::deref", "::to_owned", "mem::take")

    def origin(op, depth=0):
        """block of the call that created the buffer an operand holds (through moves, clones and borrows)"""
        pl = op_place(op)
        if pl is None or depth > 16:
            return None
        ds = [d for d in defs.get(pl["l"], []) if d[0] == "call" or not d[3]["lhs"].get("p")]
        whole = [d for d in ds if d[0] == "call" or d[3].get("rv", {}).get("k") in ("use", "ref", "cast", "agg")]
        if len(whole) != 1:
            # a buffer assigned in several places: the creating call that dominates all others
            calls_ = [d for d in ds if d[0] == "call" and ix.callee(d[3]).endswith(CTOR)]
            return calls_[0][1] if len(calls_) == 1 else None
        kind, bb, _i, x = whole[0]
        if kind == "call":
            c = ix.callee(x)
            if c.endswith(VIEW) and x["args"]:
                return origin(x["args"][0], depth + 1)
            return bb
        rv = x["rv"]
        if rv["k"] in ("use", "cast"):
            return origin(rv["a"], depth + 1) if op_place(rv["a"]) else bb
        if rv["k"] == "ref":
            return origin({"c": {"l": rv["p"]["l"], "p": []}}, depth + 1)
        return bb

    n = 0
    for bi, _si, st in b.stmts():
        rv = st.get("rv") or {}
        if rv.get("k") != "agg" or rv.get("adt") not in ("model::Part", "model::Shape", "model::Lod"):
            continue
        enclosing = [h for h, (blocks, _a) in loops.items() if bi in blocks]
        for fld, op in zip(rv.get("fields", []), rv["ops"]):
            pl = op_place(op)
            if pl is None or not b.locals[pl["l"]]["ty"].startswith("std::vec::Vec<"):
                continue
            ob = origin(op)
            missing = [h for h in enclosing if ob is None or ob not in loops[h][0]]
            n += 1
            ctx.ob("FRESH", f"{rv['adt'].split('::')[-1]}.{fld}", ob is not None and not missing,
                   f"{rv['adt'].split('::')[-1]}.{fld}: the vector is created " + ("at an unrecognised place" if ob is None else f"in bb{ob}") + f"; the literal sits in {len(enclosing)} nested loop(s)" + (f", {len(missing)} of which do not contain the creation (the buffer survives from one item to the next)" if missing else ", all of which contain it"), b.file, b.line, sample=(fld == "morphed_vertices"))
    ctx.floor("FRESH", "vector fields of Part / Shape / Lod literals", n, 6)


def run(ctx):
    prog = ctx.prog
    ctx.decided("buffers placed in Part / Shape / Lod are created per item, inside every enclosing loop (FRESH)")
    fresh_rule(ctx)
    wm = model(ctx)
    ctx.decided("model header/record layouts, ModelData read order, VertexType/VertexUsage codes, declaration constants, version gates")
    ctx.decided("(usage, type) -> typed reader and Vertex field for the 17 supported pairs; uv0/uv1 component ranges")
    ctx.decided("typed reader widths and decode idioms")
    ctx.decided("element / index / raw-stream seek provenance")
    ctx.not_decided("decoded numeric values; shape and sub-mesh extraction; names from the string table; BlendWeights/Byte4 decoder (unconfirmed in the reference)")

    n = w1(ctx, TYPES)
    ctx.floor("W1", "model types", n, 13)
    w5_repr(ctx, "model_vertex_declarations::VertexType", REF_TYPES, repr_ty="u8")
    w5_repr(ctx, "model_vertex_declarations::VertexUsage", REF_USAGES, repr_ty="u8")
    for path, want in (("model::NUM_VERTICES", 17), ("model_vertex_declarations::VERTEX_ELEMENT_SIZE", 8), ("model_vertex_declarations::END_OF_STREAM", 0xFF)):
        v = prog.const_scalar(path)
        ctx.ob("CONST", path, v == want, f"{path} = {v}; reference {want}", None)
    # declaration parser: each declaration occupies 17 * 8 bytes; the skip is 17*8 - (elements + 1) * 8
    vp = prog.body("model_vertex_declarations::vertex_element_parser")
    if not vp:
        ctx.fail_closed("CONST", "vertex_element_parser not found")
    else:
        consts = set()
        for _bi, _si, s in vp.stmts():
            rv = s.get("rv", {})
            if rv.get("k") == "bin" and rv["op"].replace("WithOverflow", "") in ("Mul", "Add", "Sub"):
                for o in (rv["a"], rv["b"]):
                    v = const_int(o)
                    if v is not None:
                        consts.add((rv["op"].replace("WithOverflow", ""), v))
        ctx.ob("CONST", "declaration-block", ("Mul", 8) in consts and ("Add", 1) in consts and all(v in (8, 1, 17) for _o, v in consts), f"vertex_element_parser arithmetic constants {sorted(consts)}; a declaration is 17 slots of 8 bytes, terminator included", vp.file, vp.line)
        ends = any(s.get("rv", {}).get("k") == "bin" and s["rv"]["op"] == "Eq" and any((o.get("k") or {}).get("uneval", "").endswith("END_OF_STREAM") or const_int(o) == 0xFF for o in (s["rv"]["a"], s["rv"]["b"])) for _b, _s, s in vp.stmts())
        ctx.ob("CONST", "declaration-terminator", ends, "element list ends at stream == END_OF_STREAM", vp.file, vp.line)
    # version gates
    md = wm.items.by_path.get("model::ModelData")
    if md:
        conds = {f["name"]: [d.text.replace(" ", "") for d in W.directives(f["attrs"]) if d.name == "if" and "r" in d.side] for f in md["fields"]}
        for a, b_ in (("bone_tables", "bone_tables_v2"), ("submesh_bone_map_size", "submesh_bone_map_size_v2")):
            ok = conds.get(a) == ["file_header.version<=0x1000005"] and conds.get(b_) == ["file_header.version>=0x1000006"]
            ctx.ob("GATE", f"{a}|{b_}", ok, f"version gates {conds.get(a)} / {conds.get(b_)}; must be <= 0x1000005 / >= 0x1000006 (every version exactly once)", md["file"], md["line"])
        cnt = [d.text.replace(" ", "") for f in md["fields"] if f["name"] == "submesh_bone_map" for d in W.directives(f["attrs"]) if d.name == "count"]
        ctx.ob("GATE", "submesh_bone_map|count", cnt == ["iffile_header.version>=0x1000006{(submesh_bone_map_size_v2/2)asu32}else{submesh_bone_map_size/2}"], f"bone map count expression {cnt}; must be size / 2 of the version's own size field", md["file"], md["line"])

    # ---- DISPATCH
    b, arms = arms_table(prog, "model::MDL::from_existing")
    if not b or not arms:
        ctx.fail_closed("DISPATCH", "element switch of MDL::from_existing not found")
    else:
        n_arms = 0
        for (u, t), (want_reader, want_fields) in REF_READ.items():
            got = arms.get((u, t))
            if got is None:
                ctx.ob("DISPATCH", f"{u}|{t}", False, f"({u}, {t}) has no decoding arm in MDL::from_existing", b.file, b.line)
                continue
            n_arms += 1
            names, fields, _blocks = got
            readers = [n_ for n_ in names if n_.startswith("read_")]
            if want_reader is None:
                ok_r = len(readers) == 1
            elif want_reader == "":
                ok_r = readers == []
            else:
                ok_r = readers == [want_reader]
            ctx.ob("DISPATCH", f"{u}|{t}|reader", ok_r, f"({u}, {t}) decodes with {readers}; reference {want_reader if want_reader is not None else '(one typed reader)'}", b.file, b.line, sample=(u == "UV" and t == "Half4"))
            ctx.ob("DISPATCH", f"{u}|{t}|field", fields == want_fields, f"({u}, {t}) stores into Vertex.{sorted(fields)}; reference {sorted(want_fields)}", b.file, b.line)
        ctx.floor("DISPATCH", "supported (usage, type) pairs", n_arms, 17)
        # unsupported pairs must not silently decode: their arm (the `else` of each inner switch) stores nothing
        for (u, t), (names, fields, _bl) in arms.items():
            if t == "else":
                ctx.ob("DISPATCH", f"{u}|unsupported", not fields and not any(n_.startswith("read_") for n_ in names), f"unsupported types under {u} touch Vertex fields {sorted(fields)}", b.file, b.line, trivial=True)
        # extra pairs not in the reference
        extra = [(u, t) for (u, t) in arms if t not in ("else", None) and (u, t) not in REF_READ]
        ctx.ob("DISPATCH", "no-extra-pairs", not extra, f"decoding arms without a reference: {extra}", b.file, b.line, trivial=True)
        # uv ranges: in 4-component UV arms uv0 <- [0..2], uv1 <- [2..4]
        for t in ("ByteFloat4", "Half4", "Single4"):
            got = arms.get(("UV", t))
            if not got:
                continue
            _names, _fields, blocks = got
            pairs = uv_ranges(b, blocks)
            ctx.ob("DISPATCH", f"UV|{t}|ranges", pairs == {"uv0": (0, 2), "uv1": (2, 4)}, f"(UV, {t}): component ranges {pairs}; must be uv0 <- [0..2], uv1 <- [2..4]", b.file, b.line)

    # ---- WIDTH
    n_w = 0
    for fn, (sty, cnt, total) in REF_WIDTH.items():
        rb = next((x for nme, x in prog.bodies.items() if nme.endswith("::" + fn) and "MDL" in nme), None)
        if not rb:
            ctx.fail_closed("WIDTH", f"MDL::{fn} not found")
            continue
        n_w += 1
        reads = []
        from ..loops import trip_counts

        tc_ = trip_counts(rb)
        for _bi, t_ in rb.calls():
            c = t_.get("res") or ""
            if c.endswith("BinReaderExt::read_le") or c.endswith("BinReaderExt::read_be") or c.endswith("::read_le"):
                ga = (t_["f"].get("k") or {}).get("ga", [])
                # a read written once in a loop over a fixed-size array happens once per element
                mult = 1
                for h_, (n_, bl_, _nb, _el) in tc_.items():
                    if _bi in bl_ and all(rb.dominates(_bi, l_) for l_ in rb.pred(h_) if l_ in bl_):
                        mult *= n_
                reads += [(c.split("::")[-1], ga[-1] if ga else "?")] * mult
        ok = reads == [("read_le", sty)] * cnt
        ctx.ob("WIDTH", fn, ok, f"{fn} performs {reads}; reference {cnt} x little-endian {sty} ({total} bytes)", rb.file, rb.line, sample=(fn == "read_half4"))
        if fn in ("read_half4", "read_half2"):
            calls = [(t_.get("res") or "").split("::")[-1] for _bi, t_ in rb.calls()]
            ctx.ob("WIDTH", f"{fn}|decode", calls.count("from_bits") == cnt and calls.count("to_f32") == cnt, f"{fn} decodes with {calls.count('from_bits')} x f16::from_bits and {calls.count('to_f32')} x to_f32", rb.file, rb.line)
        if fn == "read_byte_float4":
            divs = []
            for _b, _s, s in rb.stmts():
                if s.get("rv", {}).get("k") == "bin" and s["rv"]["op"] == "Div":
                    mult = 1
                    for h_, (n_, bl_, _nb, _el) in tc_.items():
                        if _b in bl_ and all(rb.dominates(_b, l_) for l_ in rb.pred(h_) if l_ in bl_):
                            mult *= n_
                    divs += [s] * mult
            consts = {(o.get("k") or {}).get("uneval") or (o.get("k") or {}).get("bits") for s in divs for o in (s["rv"]["b"],)}
            ctx.ob("WIDTH", f"{fn}|decode", len(divs) == 4 and consts <= {"model_file_operations::MAX_BYTE_FLOAT", str(0x437F0000)}, f"{fn} divides {len(divs)} components by {sorted(str(c) for c in consts)}; must be 255.0", rb.file, rb.line)
        if fn == "read_tangent":
            try:
                n_t, xyz_ok, wsel = tangent_decode(rb)
            except Exception as e:  # noqa: BLE001
                n_t, xyz_ok, wsel = 0, False, {"error": str(e)[:80]}
            ctx.ob("WIDTH", f"{fn}|decode", n_t >= 2 and xyz_ok, f"{fn}: the first three components are byte * 2 / 255 - 1 on each of its {n_t} value path(s): {xyz_ok}", rb.file, rb.line)
            ctx.ob("WIDTH", f"{fn}|handedness", wsel == {1.0: True, -1.0: False}, f"{fn}: fourth component per test outcome {wsel}; must be +1 exactly when the byte is 255 (decoded value == 1.0) and -1 otherwise", rb.file, rb.line)
    ctx.floor("WIDTH", "typed readers", n_w, 8)
    mbf = prog.consts.get("model_file_operations::MAX_BYTE_FLOAT")
    ctx.ob("WIDTH", "MAX_BYTE_FLOAT", bool(mbf) and mbf.get("bits") == str(0x437F0000), f"MAX_BYTE_FLOAT bits = {mbf.get('bits') if mbf else None}; 255.0f32 is {0x437F0000}", "src/model_file_operations.rs")

    # ---- SEEK
    if b:
        ix = index_of(b)
        seeks = []
        for bi, t_ in b.calls():
            c = t_.get("res") or ""
            if c.endswith("Seek>::seek") and len(t_["args"]) == 2:
                d = derive(ix, t_["args"][1])
                seeks.append((bi, d))
        elem = [d for _bi, d in seeks if {"vertex_data_offset", "vertex_buffer_offsets", "vertex_buffer_strides", "stream", "offset"} <= d.names]
        ctx.ob("SEEK", "element", len(elem) == 1 and "Mul" in elem[0].ops and "Add" in elem[0].ops, f"element seek derives from {sorted(elem[0].names) if elem else None}; must include LOD vertex_data_offset, vertex_buffer_offsets[stream], element offset, vertex_buffer_strides[stream] * k", b.file, b.line, sample=True)
        idx = [d for _bi, d in seeks if {"index_offsets", "start_index"} <= d.names]
        ctx.ob("SEEK", "indices", len(idx) == 1 and "Mul" in idx[0].ops and (2 in idx[0].consts or any(c.endswith("size_of") for c in idx[0].calls)), f"index seek derives from {sorted(idx[0].names) if idx else None} with constants {sorted(idx[0].consts) if idx else None}; must be index_offsets[lod] + start_index * 2", b.file, b.line)
        raw = [d for _bi, d in seeks if {"vertex_data_offset", "vertex_buffer_offsets"} <= d.names and "offset" not in d.names and "Mul" in d.ops]
        ctx.ob("SEEK", "raw-streams", len(raw) == 1 and "vertex_buffer_strides" in raw[0].names, f"raw stream seek derives from {sorted(raw[0].names) if raw else None}; must be LOD offset + stream offset + z * stride", b.file, b.line)
        ctx.floor("SEEK", "seek sites in MDL::from_existing", len(seeks), 3)
        # every one of them addresses the file from its start and computes the position with + and * only
        from ..posrule import seeks_from_start_sum_only

        seeks_from_start_sum_only(ctx, "SEEK", b, "from_existing", allow_ops=("Mul", "MulWithOverflow"))
        # the element seek is executed for every element: its block dominates the (usage, type) switch
        usw = D.discr_switches(b, "model_vertex_declarations::VertexUsage")
        elem_bb = [bi for bi, t_ in b.calls() if (t_.get("res") or "").endswith("Seek>::seek") and len(t_["args"]) == 2 and {"vertex_data_offset", "vertex_buffer_offsets", "vertex_buffer_strides", "stream", "offset"} <= derive(ix, t_["args"][1]).names]
        dom = bool(usw) and bool(elem_bb) and all(b.dominates(elem_bb[0], sw_[0]) for sw_ in usw if len(sw_[2]) >= 6)
        # and nothing between the seek and the switch is conditional on anything but the seek's own result
        ctx.ob("SEEK", "element|unconditional", dom, "the element seek dominates the (usage, type) switch: every element is read at its own computed position (no position is carried over from the previous element)", b.file, b.line)
        # LOD and mesh loops are bounded by the header counts, not by the fixed-size record arrays
        bounds = []
        for _bi, _si, s_ in b.stmts():
            rv = s_.get("rv", {})
            if rv.get("k") == "agg" and rv.get("adt", "").endswith("ops::Range") and len(rv["ops"]) == 2:
                bounds.append((derive(ix, rv["ops"][0]), derive(ix, rv["ops"][1])))
        lod_ok = any("lod_count" in hi.names for _lo, hi in bounds)
        mesh_ok = any("mesh_index" in lo.names and {"mesh_index", "mesh_count"} <= hi.names for lo, hi in bounds)
        iter_lods = False
        for _bi, t_ in b.calls():
            c_ = t_.get("res") or ""
            if (c_.endswith("::iter") or c_.endswith("IntoIterator::into_iter") or c_.endswith("::into_iter") or c_.endswith("::iter_mut")) and t_["args"]:
                r_ = ix.resolve(t_["args"][0])
                hops = 0
                while r_[0] == "call" and hops < 3 and r_[1]["args"]:
                    # iter(deref(&model.lods)) etc.
                    hops += 1
                    r_ = ix.resolve(r_[1]["args"][0])
                pl = r_[1]["p"] if r_[0] == "rv" and r_[1]["k"] in ("ref", "rawptr") else (r_[1] if r_[0] == "place" else None)
                if pl is not None and pl["p"]:
                    last = [pr for pr in pl["p"] if pr != "*"][-1:] or [None]
                    if isinstance(last[0], dict) and last[0].get("n") == "lods" and last[0].get("a") == "model::ModelData":
                        iter_lods = True
        ctx.ob("SEEK", "lod-loop-bound", lod_ok and not iter_lods, f"LODs are walked over 0..header.lod_count ({lod_ok}); the fixed 3-record LOD array is not iterated wholesale ({not iter_lods})", b.file, b.line)
        ctx.ob("SEEK", "mesh-loop-bound", mesh_ok, "meshes of a LOD are walked over lods[i].mesh_index .. mesh_index + mesh_count", b.file, b.line)


def uv_ranges(body, blocks):
    """In a UV arm: which constant sub-range of the decoded array is copied into uv0 / uv1."""
    from ..mir import op_place
    from ..panic import BodyIndex

    ix = BodyIndex(body)
    out = {}
    for bi in sorted(blocks):
        t = body.blocks[bi]["t"]
        if t["k"] != "call":
            continue
        c = t.get("res") or ""
        if c.endswith("clone_from_slice") or c.endswith("copy_from_slice"):
            d0 = derive(ix, t["args"][0])
            tgt = next((f for f in ("uv0", "uv1") if f in d0.names), None)
            # source: Index::index(&combined, Range{lo, hi})
            r = ix.resolve(t["args"][1])
            seen = 0
            while r[0] in ("rv",) and r[1]["k"] in ("ref", "use") and seen < 4:
                seen += 1
                r = ix.resolve({"c": r[1]["p"]}) if r[1]["k"] == "ref" and not r[1]["p"]["p"] else ("unknown",)
            # walk def chain manually: find the index call feeding args[1]
            p = op_place(t["args"][1])
            rng = None
            hops = 0
            while p is not None and hops < 6:
                hops += 1
                dd = ix.single_def(p["l"]) if not p["p"] or p["p"] == ["*"] else None
                if not dd:
                    break
                if dd[0] == "call" and (dd[3].get("res") or "").endswith("::index"):
                    rr = ix.resolve(dd[3]["args"][1])
                    if rr[0] == "rv" and rr[1]["k"] == "agg" and rr[1].get("adt", "").endswith("ops::Range"):
                        lo, hi = const_int(rr[1]["ops"][0]), const_int(rr[1]["ops"][1])
                        rng = (lo, hi)
                    break
                if dd[0] == "assign" and dd[3]["rv"]["k"] in ("ref", "use"):
                    p = dd[3]["rv"]["p"] if dd[3]["rv"]["k"] == "ref" else op_place(dd[3]["rv"]["a"])
                    continue
                break
            if tgt:
                out[tgt] = rng
    return out
