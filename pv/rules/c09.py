"""C09 — saved character and gear-set files keep the documented layout.

Decided:
  W1  layouts of CharacterData / CustomizeData / DatHeader / GearSlot / GearSet / GearSets equal the reference
      (documented byte positions, public field order, 212 / 17 / 28 / 452 / 45204 bytes)
  W2  read/write symmetry of all six (count = N <-> pad_size_to = N, mapped fields through the enumerated pairs)
  W4  DatHeader sizes written by GearSets::write_to_buffer = 1 + wire size of GearSets
  CONST  GEARSET_KEY = 0x73, 100 sets, 14 slots, comment length 164, magics
  CHK   checksum is calc-ed on write from calc_checksum (never copied); calc_checksum's input is customize, one zero
        byte, timestamp little-endian, the comment resized to the comment length; update is c ^= byte << (i % 24)
  XOR   the 0x73 key is applied on both the read and the write path
Not decided: checksum value for a concrete record; behaviour over all byte values; canonical round trip (needs execution).
"""
import re

from .. import wire as W
from ..mir import const_int
from ..sym import Explorer, is_const, show, walk
from ..wrules import model, w1, w2
from .c11 import N

TECHNIQUE = "static analysis: serialised layout computed from the binrw declarations vs hand-written reference layouts; read/write stream symmetry; compiler-evaluated constants; operator-tree reconstruction of the checksum loop; converter-pair table over the binrw map directives; reference order of the slot enum's compiler-evaluated discriminants"
TRUSTED = ["model of binrw 0.14 directive semantics in pv/wire.py (cross-checked against sample file sizes 212 / 45221)", "spec/layouts.txt references", "rustc nightly MIR / const-eval"]

TYPES = ["chardat::CharacterData", "chardat::CustomizeData", "dat::DatHeader", "gearsets::GearSlot", "gearsets::GearSet", "gearsets::GearSets"]


SLOT_ORDER = ["MainHand", "SecondaryHand", "Head", "Body", "Hands", "Waist", "Legs", "Feet", "Bracelets", "Necklace", "Earrings", "Ring1", "Ring2", "Soul"]
# (reader converter, writer converter) pairs confirmed as inverses by reading
CODEC_PAIRS = {("read_bool_from", "write_bool_as"), ("read_string", "write_string"), ("convert_id_opt", "convert_opt_id"), ("convert_from_gear_id", "convert_to_gear_id"),
               ("convert_to_string", "convert_from_string"), ("convert_from_slots", "convert_to_slots"), ("convert_from_gearsets", "convert_to_gearsets")}


def loop_search_table(prog, tb, by_name):
    """position -> variant name for a try_from written as a linear search over a constant array of the variants that
    returns the element whose discriminant equals the argument (and Err after the loop); None if the body is not that."""
    from ..loops import classify
    from ..prov import derive, index_of

    ix = index_of(tb)
    arrs = []
    for _bi, t_ in tb.calls():
        for o in t_["args"]:
            k = o.get("k") if isinstance(o, dict) else None
            if isinstance(k, dict) and str(k.get("ty", "")).replace(" ", "").startswith("[gearsets::GearSlotType;") and k.get("bytes"):
                arrs.append(bytes.fromhex(k["bytes"]))
    cl = classify(tb)
    if len(arrs) != 1 or len(cl) != 1 or cl[0]["kind"] != "ITER":
        return None
    present = set(arrs[0])
    # the comparison: discriminant of the loop element (as usize) == the argument, Ok(element) on its true side
    cmp_ok = ok_from_elem = err_after = False
    for bi, blk in enumerate(tb.blocks):
        t_ = blk["t"]
        if t_["k"] == "switch":
            r = ix.resolve(t_["a"])
            if r[0] == "rv" and r[1]["k"] == "bin" and r[1]["op"] == "Eq":
                sides = [ix.resolve(r[1]["a"]), ix.resolve(r[1]["b"])]
                ds = [derive(ix, r[1]["a"]), derive(ix, r[1]["b"])]
                for (sa, da), (sb_, _db) in ((list(zip(sides, ds))[0], list(zip(sides, ds))[1]), (list(zip(sides, ds))[1], list(zip(sides, ds))[0])):
                    elem_side = any(c_.split("::")[-1] == "next" for c_ in da.calls) and not (da.ops - set()) and 1 not in da.params
                    if elem_side and sb_ == ("param", 1):
                        cmp_ok = True
    for _bi, _si, st in tb.stmts():
        rv = st.get("rv") or {}
        if st["k"] == "assign" and rv.get("k") == "agg" and rv.get("adt") == "std::result::Result":
            if rv.get("variant") == "Ok" and rv["ops"]:
                d_ = derive(ix, rv["ops"][0])
                ok_from_elem = any(c_.split("::")[-1] == "next" for c_ in d_.calls) and not d_.ops and not d_.consts
            if rv.get("variant") == "Err":
                err_after = True
    if not (cmp_ok and ok_from_elem and err_after):
        return None
    name_of = {d: n for n, d in by_name.items()}
    return {d: name_of[d] for d in present if d in name_of}


def run(ctx):
    prog = ctx.prog
    wm = model(ctx)
    ctx.decided("byte layout of the six record types vs reference (W1)")
    ctx.decided("read/write stream symmetry (W2)")
    ctx.decided("dat header sizes vs wire size of the table (W4)")
    ctx.decided("constants: key 0x73, 100 sets, 14 slots, 164-byte comment, magics")
    ctx.decided("checksum provenance and update expression")
    ctx.decided("XOR key on both paths")
    ctx.decided("field converters are the reference inverse pairs; slot positions equal the documented order (CODEC, SLOTPOS)")
    ctx.not_decided("checksum values; inverse-ness of the id marker (| 1_000_000 / & !1_000_000 is not invertible for ids sharing those bits); canonical round trip on all inputs")
    n = w1(ctx, TYPES)
    ctx.floor("W1", "types with reference layouts", n, 6)
    # floors = comparisons decided per type on the pinned tree (an undecidable field lowers the count and fails closed)
    for t, fl in (("chardat::CharacterData", 8), ("chardat::CustomizeData", 27), ("dat::DatHeader", 5), ("gearsets::GearSlot", 7), ("gearsets::GearSet", 5), ("gearsets::GearSets", 4)):
        d = w2(ctx, [t])
        ctx.floor("W2", f"field comparisons decided for {t}", d, fl)

    # ---- CODEC: field converters come in the inverse pairs of the reference
    from ..wrules import w_codec

    n_c = w_codec(ctx, ["chardat::CharacterData", "chardat::CustomizeData", "gearsets::GearSlot", "gearsets::GearSet", "gearsets::GearSets"], CODEC_PAIRS)
    ctx.floor("CODEC", "converted fields of the preset and gear-set records", n_c, 8)
    cb_ = prog.body("chardat::CharacterData::calc_checksum")
    if cb_:
        enc = sorted({(t_.get("res") or "").split("::")[-1] for _bi, t_ in cb_.calls() if (t_.get("res") or "").startswith("common_file_operations::") or (t_.get("res") or "").startswith("chardat::")} - {"calc_checksum"})
        ctx.ob("CODEC", "checksum-comment-encoder", "write_string" in enc and all(e_ in ("write_string", "write_bool_as") for e_ in enc), f"calc_checksum encodes its input with local helpers {enc}; the comment must go through write_string, the converter of the comment field", cb_.file, cb_.line)

    # ---- CODEC gear-id marker: the item-id marker is *added* on write and *subtracted* on read with the same constant.
    # (`id | M` / `id & !M` is an inverse pair only for ids that share no bit with M — the defect repaired by the
    # fix: commit recorded in known_findings.jsonl; a mask form is reported, an unrecognised form fails closed.)
    from ..sym import Explorer as _Ex, walk as _walk, show as _show

    def _ret_trees(fn):
        b = prog.body(fn)
        if not b:
            return None, None
        return b, [(p.conds, p.env.local(0)) for p in _Ex(b).explore() if p.end == "return"]

    def _consts(e):
        return {x[1] for x in _walk(e) if isinstance(x, tuple) and x and x[0] == "k" and isinstance(x[1], int)}

    def _ops(e):
        out = set()
        for x in _walk(e):
            if isinstance(x, tuple) and x:
                if x[0] == "bin":
                    out.add(x[1])
                elif x[0] == "un":
                    out.add("un:" + str(x[1]))
                elif x[0] == "call":
                    out.add(str(x[1]).split("::")[-1])
        return out

    wb_, wt = _ret_trees("gearsets::convert_to_gear_id")
    rb_, rt = _ret_trees("gearsets::convert_from_gear_id")
    if not wt or not rt:
        ctx.fail_closed("CODEC", "gear-id marker converters convert_to_gear_id / convert_from_gear_id not found")
    else:
        MASKS_ = {"BitOr", "BitAnd", "BitXor", "un:Not"}
        ADD_ = {"Add", "WAdd", "wrapping_add"}
        SUB_ = {"Sub", "WSub", "wrapping_sub", "checked_sub"}
        w_ops = set().union(*[_ops(t) for _c, t in wt])
        r_ops = set().union(*[_ops(t) for _c, t in rt] + [_ops(c) for cs, _t in rt for c in cs])
        w_k = set().union(*[_consts(t) for _c, t in wt])
        r_k = set().union(*[_consts(t) for _c, t in rt])
        desc = f"writer {[_show(t)[:80] for _c, t in wt]}; reader {[_show(t)[:80] for _c, t in rt]}"
        if (w_ops | r_ops) & MASKS_:
            ctx.ob("CODEC", "gear-id-marker|additive", False, f"the item-id marker is applied with bit operations ({sorted((w_ops | r_ops) & MASKS_)}): write/read are inverse only for ids sharing no bit with the marker; {desc}", wb_.file, wb_.line)
        elif (w_ops & ADD_) and (r_ops & SUB_) and not (w_ops & SUB_) and not (r_ops & ADD_):
            ctx.ob("CODEC", "gear-id-marker|additive", True, f"marker added on write and subtracted on read; {desc}", wb_.file, wb_.line, sample=True)
            ctx.ob("CODEC", "gear-id-marker|same-constant", w_k == r_k == {1_000_000}, f"marker constants: writer {sorted(w_k)}, reader {sorted(r_k)}; documented marker 1000000 on both sides", wb_.file, wb_.line)
        else:
            ctx.fail_closed("CODEC", f"gear-id marker converters have an unrecognised form: {desc}")

    # ---- CODEC empty markers: "no item" is the id 0 on both sides (Option <-> 0), and a slot whose id is 0 is absent
    def _consts_of(fn):
        b = prog.body(fn)
        if not b:
            return None, None
        ks = set()
        for p_ in _Ex(b).explore():
            for c_ in p_.conds:
                ks |= _consts(c_)
            ks |= _consts(p_.env.local(0))
        # `match id { 0 => None, .. }` tests the value in a switch rather than in a comparison
        from ..prov import derive as _dvk, index_of as _ixk

        ixk = _ixk(b)
        for blk_ in b.blocks:
            tk = blk_["t"]
            if tk["k"] == "switch" and not blk_["cleanup"]:
                rk = ixk.resolve(tk["a"])
                is_discr = rk[0] == "rv" and rk[1].get("k") == "discr"
                if not is_discr and _dvk(ixk, tk["a"]).params and str((tk["a"].get("c") or tk["a"].get("m") or {}).get("ty", "")) != "bool":
                    ks |= {int(v_) for v_, _tg in tk["arms"]}
        return b, ks

    for fn_, what_ in (("gearsets::convert_id_opt", "reader: id 0 -> None"), ("gearsets::convert_opt_id", "writer: None -> 0")):
        b_, ks_ = _consts_of(fn_)
        if b_ is None:
            ctx.fail_closed("CODEC", f"{fn_} not found")
        else:
            ctx.ob("CODEC", f"empty-id|{fn_.split('::')[-1]}", ks_ <= {0, 1} and 0 in ks_ and (1 not in ks_ or fn_.endswith("convert_id_opt")), f"{fn_} ({what_}) uses the constants {sorted(ks_)}; the empty marker is 0 on both sides", b_.file, b_.line)
    sb2 = prog.body("gearsets::convert_from_slots")
    if sb2:
        from ..prov import derive as _dv9, index_of as _ix9

        k_sw = set()
        for b3 in prog.deep_bodies("gearsets::convert_from_slots"):
            ix3 = _ix9(b3)
            for blk3 in b3.blocks:
                t3 = blk3["t"]
                if t3["k"] == "switch" and not blk3["cleanup"] and "id" in _dv9(ix3, t3["a"]).names:
                    k_sw |= {int(v_) for v_, _tg in t3["arms"]}
        ctx.ob("CODEC", "empty-id|convert_from_slots", k_sw == {0}, f"convert_from_slots drops the slots whose item id is one of {sorted(k_sw)}; an empty slot is id 0", sb2.file, sb2.line)
    else:
        ctx.fail_closed("CODEC", "gearsets::convert_from_slots not found")
    # the obfuscated body is read from the file before it is decoded
    from ..posrule import buffers_filled

    gb9 = prog.body("gearsets::GearSets::from_existing")
    if gb9:
        ctx.floor("CODEC", "buffers of GearSets::from_existing", buffers_filled(ctx, "CODEC", gb9, "GearSets::from_existing"), 1)
    else:
        ctx.fail_closed("CODEC", "gearsets::GearSets::from_existing not found")

    # ---- RACECODES: the appearance block stores race, tribe and gender as the client's byte codes; the enums'
    # discriminants (their binrw repr) and the TryFrom<u8> tables both equal the game's list, value by value
    from ..table import Table as _Tb, Undecided as _Und
    from ..wrules import w5_repr as _w5

    CODES = {
        "race::Gender": {"Male": 0, "Female": 1},
        "race::Race": {"Hyur": 1, "Elezen": 2, "Lalafell": 3, "Miqote": 4, "Roegadyn": 5, "AuRa": 6, "Hrothgar": 7, "Viera": 8},
        "race::Tribe": {"Midlander": 1, "Highlander": 2, "Wildwood": 3, "Duskwight": 4, "Plainsfolk": 5, "Dunesfolk": 6, "Seeker": 7, "Keeper": 8, "SeaWolf": 9, "Hellsguard": 10, "Raen": 11, "Xaela": 12, "Hellion": 13, "Lost": 14, "Rava": 15, "Veena": 16},
    }
    n_rc = 0
    for ep, ref_ in CODES.items():
        _w5(ctx, ep, ref_, rule="RACECODES", repr_ty="u8")
        tb_ = prog.body(f"<{ep} as std::convert::TryFrom<u8>>::try_from")
        if not tb_:
            continue  # the enum is then read through its repr only (judged above)
        tt_ = _Tb(tb_)
        if not tt_.is_table:
            ctx.fail_closed("RACECODES", f"TryFrom<u8> for {ep} is not a loop-free decision table")
            continue
        by_val = {v_: k_ for k_, v_ in ref_.items()}
        for code in range(0, max(by_val) + 2):
            try:
                leaf = tt_.lookup({("val", 1): code}).env.local(0)
            except _Und as e_:
                ctx.fail_closed("RACECODES", f"{ep}::try_from({code}): {e_}")
                continue
            n_rc += 1
            txt = _show(leaf)
            want_ = by_val.get(code)
            got_ok = (want_ is not None and f"{ep}::{want_}" in txt.replace(" ", "") and "Ok" in txt) or (want_ is None and "Err" in txt)
            ctx.ob("RACECODES", f"{ep.split('::')[-1]}|try_from|{code}", got_ok, f"{ep}::try_from({code}) = {txt[:70]}; the client's code {code} is {want_ or 'not assigned'}", tb_.file, tb_.line, trivial=(code > 2))
    ctx.floor("RACECODES", "byte codes decided through the TryFrom<u8> tables", n_rc, 20)

    # ---- CONST
    for path, want, what in (
        ("gearsets::GEARSET_KEY", 0x73, "obfuscation key"),
        ("gearsets::NUMBER_OF_GEARSETS", 100, "gear-set slots"),
        ("gearsets::NUMBER_OF_GEARSLOTS", 14, "equipment slots per set"),
        ("chardat::MAX_COMMENT_LENGTH", 164, "comment field length"),
    ):
        v = prog.const_scalar(path)
        if v is None:
            ctx.fail_closed("CONST", f"{path} not found")
        else:
            ctx.ob("CONST", path, v == want, f"{path} = {v}; documented {what} is {want}", None)
    cd = wm.items.by_path.get("chardat::CharacterData")
    if cd:
        mg = [d_.text.replace(" ", "") for d_ in W.directives(cd["attrs"]) if d_.name == "magic"]
        ctx.ob("CONST", "chardat-magic", mg == ["0x2013FF14u32"], f"CharacterData magic {mg}; documented 0x2013FF14 (u32)", cd["file"], cd["line"])
    dt = wm.items.by_path.get("dat::DatFileType")
    if dt:
        mg = {v["name"]: [d_.text.replace(" ", "") for d_ in W.directives(v["attrs"]) if d_.name == "magic"] for v in dt["variants"]}
        ctx.ob("CONST", "gearset-dat-magic", mg.get("Gearset") == ["0x006d0005u32"], f"DatFileType magics {mg}; GEARSET.DAT is 0x006d0005", dt["file"], dt["line"])
    else:
        ctx.fail_closed("CONST", "dat::DatFileType not found")
    dh = wm.items.by_path.get("dat::DatHeader")
    if dh:
        eoh = [f for f in dh["fields"] if f["name"] == "end_of_header"]
        calc = [d_.text.replace(" ", "") for f in eoh for d_ in W.directives(f["attrs"]) if d_.name == "calc"]
        ctx.ob("CONST", "dat-terminator", calc == ["0xFF"], f"DatHeader terminator written as {calc}; documented 0xFF", dh["file"], dh["line"])

    # ---- W4: header sizes in write_to_buffer
    wb = prog.body("gearsets::GearSets::write_to_buffer")
    gs = wm.items.by_path.get("gearsets::GearSets")
    if not wb or not gs:
        ctx.fail_closed("W4", "GearSets::write_to_buffer / GearSets not found")
    else:
        size = wm.item_size(gs)
        found = False
        for _bi, _si, s in wb.stmts():
            rv = s.get("rv", {})
            if rv.get("k") == "agg" and rv.get("adt") == "dat::DatHeader":
                found = True
                vals = dict(zip(rv["fields"], [const_int(o) for o in rv["ops"]]))
                for fld in ("max_size", "content_size"):
                    ctx.ob("W4", f"DatHeader.{fld}", size is not None and vals.get(fld) == size + 1, f"write_to_buffer sets {fld} = {vals.get(fld)}; 1 + wire size of GearSets ({size}) = {None if size is None else size + 1}", wb.file, wb.line, sample=True)
        if not found:
            ctx.fail_closed("W4", "no DatHeader literal in GearSets::write_to_buffer")

    # ---- CHK
    if cd:
        chk = [f for f in cd["fields"] if f["name"] == "checksum"]
        calc = [d_.text.replace(" ", "") for f in chk for d_ in W.directives(f["attrs"]) if d_.name == "calc" and "w" in d_.side]
        ctx.ob("CHK", "calc-on-write", calc == ["self.calc_checksum()"], f"checksum field is written as calc = {calc}; must be recomputed by calc_checksum", cd["file"], cd["line"])
    cb = prog.body("chardat::CharacterData::calc_checksum")
    if not cb:
        ctx.fail_closed("CHK", "chardat::CharacterData::calc_checksum not found")
    else:
        ex = Explorer(cb)
        paths = ex.explore()
        # input assembly: ordered events on the buffer
        order = []
        for p in paths:
            seq = []
            for (_bb, callee, args, _res) in p.events:
                last = callee.split("::")[-1]
                if callee.endswith("BinWrite::write_le") or last == "write_le":
                    flds = {t[2] for t in walk(args[0]) if isinstance(t, tuple) and t[0] == "fld"}
                    seq.append(("write_le", tuple(sorted(flds))))
                elif last == "push" and "vec::Vec" in callee:
                    seq.append(("push", N(args[1])[1] if is_const(N(args[1])) else None))
                elif last == "extend_from_slice":
                    srcs = set()
                    for t in walk(args[1]):
                        if isinstance(t, tuple) and t[0] == "fld":
                            srcs.add(t[2])
                        if isinstance(t, tuple) and t[0] == "call":
                            srcs.add(t[1].split("::")[-1])
                    seq.append(("extend", tuple(sorted(srcs))))
                elif last == "resize" and "vec::Vec" in callee:
                    seq.append(("resize", N(args[1])[1] if is_const(N(args[1])) else None, N(args[2])[1] if is_const(N(args[2])) else None))
                elif callee.endswith("to_le_bytes") or callee.endswith("to_be_bytes"):
                    seq.append((last,))
            if len(seq) > len(order):
                order = seq
        want_prefix = [("write_le", ("customize",)), ("push", 0)]
        ok = order[:2] == want_prefix and ("to_le_bytes",) in order and not any(x == ("to_be_bytes",) for x in order)
        ext = [x for x in order if x[0] == "extend"]
        rs = [x for x in order if x[0] == "resize"]
        ok = ok and len(ext) == 2 and "timestamp" in ext[0][1] and rs == [("resize", 164, 0)] and order.index(("to_le_bytes",)) < order.index(ext[0]) < order.index(rs[0]) < order.index(ext[1])
        ctx.ob("CHK", "input-assembly", ok, f"checksum input is assembled as {order}; must be customize, 0x00, timestamp LE, comment resized to 164 with zeros", cb.file, cb.line, sample=True)
        loops = [p for p in paths if p.end == "loop"]
        upd_ok = False
        det = ""
        for p in loops:
            for l, e in p.env.loc.items():
                e = N(e)
                if isinstance(e, tuple) and e[0] == "bin" and e[1] == "BitXor":
                    parts = (e[2], e[3])
                    shl = [x for x in parts if isinstance(x, tuple) and x[0] == "bin" and x[1] == "Shl"]
                    acc = [x for x in parts if isinstance(x, tuple) and x[0] == "v" and x[1] == l]
                    if shl and acc:
                        amt = shl[0][3]
                        det = show(e)
                        if isinstance(amt, tuple) and amt[0] == "bin" and amt[1] == "Rem" and is_const(amt[3]) and amt[3][1] == 24 and not is_const(shl[0][2]):
                            upd_ok = True
        fold_init0 = False
        if not upd_ok:
            # the same recurrence spelled bytes.iter().enumerate().fold(0, |c, (i, byte)| c ^ (byte << (i % 24))): the
            # closure body is the loop body, the fold's initial value the accumulator's
            from ..prov import derive as _derive, index_of as _index_of

            cix0 = _index_of(cb)
            for _bi, t_ in cb.calls():
                if (t_.get("res") or "").split("::")[-1] != "fold" or len(t_["args"]) != 3:
                    continue
                k_ = cix0.resolve(t_["args"][2])
                if not (k_[0] == "rv" and k_[1]["k"] == "agg" and k_[1].get("ak") == "closure"):
                    continue
                fb_ = prog.body(k_[1]["closure"])
                if fb_ is None:
                    continue
                over_enum = "enumerate" in {c_.split("::")[-1] for c_ in _derive(cix0, t_["args"][0]).calls}
                for q in Explorer(fb_).explore():
                    if q.end != "return":
                        continue
                    e = N(q.env.local(0))
                    if isinstance(e, tuple) and e[0] == "bin" and e[1] == "BitXor":
                        parts = (e[2], e[3])
                        shl = [x for x in parts if isinstance(x, tuple) and x[0] == "bin" and x[1] == "Shl"]
                        acc = [x for x in parts if x == ("v", 2)]
                        if shl and acc and over_enum:
                            amt = shl[0][3]
                            det = show(e)
                            # closure parameters: 2 = accumulator, 3 = (position, &byte)
                            pos_ok = isinstance(amt, tuple) and amt[0] == "bin" and amt[1] == "Rem" and is_const(amt[3]) and amt[3][1] == 24 and any(isinstance(t, tuple) and t[0] == "fld" and t[1] == ("v", 3) and t[2] in (0, "0") for t in walk(amt[2]))
                            byte_ok = any(isinstance(t, tuple) and t[0] == "fld" and t[1] == ("v", 3) and t[2] in (1, "1") for t in walk(shl[0][2])) and not any(isinstance(t, tuple) and t[0] == "fld" and t[1] == ("v", 3) and t[2] in (0, "0") for t in walk(shl[0][2]))
                            if pos_ok and byte_ok:
                                upd_ok = True
                                fold_init0 = const_int(t_["args"][1]) == 0 or cix0.resolve(t_["args"][1]) == ("const", 0)
        ctx.ob("CHK", "update", upd_ok, f"checksum update is {det or '?'}; must be c ^= (byte as u32) << (i % 24)", cb.file, cb.line, sample=True)
        # initial value 0 and result is the accumulator
        init0 = fold_init0
        for _bi, _si, s in cb.stmts():
            if s["k"] == "assign" and s["rv"]["k"] == "use" and const_int(s["rv"]["a"]) == 0 and cb.locals[s["lhs"]["l"]]["ty"] == "u32" and cb.local_names().get(s["lhs"]["l"]):
                init0 = True
        ctx.ob("CHK", "init", init0, "checksum accumulator starts at 0", cb.file, cb.line)

    # ---- SLOTPOS: the reader's position -> slot-type table is the inverse of the discriminant cast the writer indexes by
    from ..table import Table, Undecided, enum_variants, leaf_variant

    tb = prog.body("<gearsets::GearSlotType as std::convert::TryFrom<usize>>::try_from")
    slots = enum_variants(prog, "gearsets::GearSlotType")
    if not tb or not slots:
        ctx.fail_closed("SLOTPOS", "TryFrom<usize> for GearSlotType / GearSlotType not found")
    else:
        # the record order of the 14 slots in GEARSET.DAT (the game's equipment-slot order, Waist kept for legacy files)
        got_order = dict(slots)
        for pos, name in enumerate(SLOT_ORDER):
            ctx.ob("SLOTPOS", f"reference|{name}", got_order.get(name) == pos, f"GearSlotType::{name} = {got_order.get(name)}; its record is number {pos} of the 14 in the file", "src/gearsets.rs", None, sample=(name == "Earrings"))
        from ..table import Composer

        comp_ = Composer(prog)
        t = Table(tb, composer=comp_)
        searched = None
        if not t.is_table:
            searched = loop_search_table(prog, tb, dict(slots))
        if searched is not None:
            # `for candidate in ALL { if candidate as usize == v { return Ok(candidate) } } Err(())`: position p maps to
            # the variant whose discriminant is p when the constant array lists it
            n_pos = 0
            for name, dv in slots + [("<out of range>", max(d_ for _n, d_ in slots) + 1)]:
                n_pos += 1
                got = searched.get(dv)
                if name.startswith("<"):
                    ctx.ob("SLOTPOS", "out-of-range", got is None, f"position {dv} (past the last slot) maps to {got}; must be Err", tb.file, tb.line, trivial=True)
                else:
                    ctx.ob("SLOTPOS", f"position|{dv}", got == name, f"reader maps table position {dv} to {got}; the writer stores {name} at position {dv} (its discriminant)", tb.file, tb.line, sample=(dv == 8))
            ctx.floor("SLOTPOS", "slot positions", n_pos, 15)
        elif not t.is_table:
            ctx.fail_closed("SLOTPOS", "TryFrom<usize> for GearSlotType is not a loop-free decision table over its argument")
        else:
            n_pos = 0
            for name, dv in slots + [("<out of range>", max(d_ for _n, d_ in slots) + 1)]:
                try:
                    leaf = t.lookup({("val", 1): dv}).env.local(0)
                except Undecided as e:
                    ctx.fail_closed("SLOTPOS", f"try_from({dv}): {e}")
                    continue
                n_pos += 1
                if isinstance(leaf, tuple) and leaf[0] == "call":
                    # the table spelled as a search over a constant array of the variants: compose it
                    try:
                        av = comp_.absval(leaf, {("val", 1): dv, ("abs", 1): dv})
                    except Undecided as e:
                        ctx.fail_closed("SLOTPOS", f"try_from({dv}): {e}")
                        continue
                    if isinstance(av, tuple) and av and av[0] == "Ok" and isinstance(av[1], tuple) and av[1][0] == "enum":
                        vn_ = next((n_ for n_, d_ in slots if d_ == av[1][1]), None)
                        leaf = ("agg", "adt", "std::result::Result::Ok", (("agg", "adt", f"gearsets::GearSlotType::{vn_}", ()),))
                    elif isinstance(av, tuple) and av and av[0] == "Err":
                        leaf = ("agg", "adt", "std::result::Result::Err", ())
                if name.startswith("<"):
                    ok = isinstance(leaf, tuple) and leaf[0] == "agg" and leaf[2].endswith("Result::Err")
                    ctx.ob("SLOTPOS", "out-of-range", ok, f"position {dv} (past the last slot) maps to {show(leaf)}; must be Err", tb.file, tb.line, trivial=True)
                else:
                    got = leaf_variant(leaf[3][0]) if isinstance(leaf, tuple) and leaf[0] == "agg" and leaf[2].endswith("Result::Ok") else None
                    ctx.ob("SLOTPOS", f"position|{dv}", got == name, f"reader maps table position {dv} to {got}; the writer stores {name} at position {dv} (its discriminant)", tb.file, tb.line, sample=(dv == 8))
            ctx.floor("SLOTPOS", "slot positions", n_pos, 15)
    wsb = prog.body("gearsets::convert_to_slots")
    if not wsb:
        ctx.fail_closed("SLOTPOS", "gearsets::convert_to_slots not found")
    else:
        from ..prov import derive, index_of

        ok = False
        # the store may sit in the loop of the function or in a closure handed to for_each
        for wb_ in prog.deep_bodies("gearsets::convert_to_slots"):
            ix = index_of(wb_)
            for _bi, t_ in wb_.calls():
                if not ((t_.get("res") or "").endswith("IndexMut<I>>::index_mut") and len(t_["args"]) == 2):
                    continue
                d_ = derive(ix, t_["args"][1])
                # index = discriminant(key) as usize : no arithmetic, no table lookup
                r = ix.resolve(t_["args"][1])
                if r[0] == "cast":
                    inner = ix.resolve(r[1]["a"])
                    if inner[0] == "rv" and inner[1]["k"] == "discr" and inner[1]["p"]["ty"] == "gearsets::GearSlotType":
                        ok = not d_.ops
        ctx.ob("SLOTPOS", "writer-indexes-by-discriminant", ok, "convert_to_slots stores each slot at position `slot_type as usize`", wsb.file, wsb.line)
    # ---- SETPOS: gear set number i of the list is record number i of the 100 in the file, on both sides: the writer
    # stores entry i of the list at position i (the index comes from enumerating the *unfiltered* list, or the list is
    # walked by a counter that also indexes the table); the reader maps record by record without dropping or reordering
    DROPS = ("flatten", "filter", "filter_map", "flat_map", "skip", "skip_while", "take_while", "step_by", "rev", "retain", "dedup", "sort", "sort_by", "sort_by_key", "reverse", "swap", "rotate_left", "rotate_right", "chain")
    from ..prov import derive, index_of

    def last_of(t_):
        return re.sub(r"::<[^<>]*>$", "", t_.get("res") or "").split("::")[-1]

    wgb = prog.body("gearsets::convert_to_gearsets")
    if not wgb:
        ctx.fail_closed("SETPOS", "gearsets::convert_to_gearsets not found")
    else:
        ok, detail = False, "no indexed store into the table found"
        for wb_ in prog.deep_bodies("gearsets::convert_to_gearsets"):
            ix = index_of(wb_)
            for _bi, t_ in wb_.calls():
                if not ((t_.get("res") or "").endswith("IndexMut<I>>::index_mut") and len(t_["args"]) == 2):
                    continue
                d_ = derive(ix, t_["args"][1])
                lasts = {c_.split("::")[-1] for c_ in d_.calls}
                dropped = sorted(lasts & set(DROPS))
                from_enum = "enumerate" in lasts
                detail = f"the table index derives from {sorted(lasts)[:6]} with operators {sorted(d_.ops)[:4]}"
                ok = from_enum and not dropped and not (d_.ops - {"Lt", "Ge", "Le", "Gt", "Eq", "Ne"})
        if not ok and detail.startswith("no indexed store"):
            # table and list walked in lock step: zip of the two unfiltered iterators
            all_l = {last_of(t_) for b_ in prog.deep_bodies("gearsets::convert_to_gearsets") for _bi, t_ in b_.calls()}
            if "zip" in all_l and not (all_l & set(DROPS)):
                ok, detail = True, "table and list are zipped without any filtering adaptor"
            elif "zip" in all_l:
                detail = f"table and list are zipped, but through {sorted(all_l & set(DROPS))}"
        ctx.ob("SETPOS", "writer-same-position", ok, f"convert_to_gearsets: {detail}; entry i of the list must be stored at position i (index of the unfiltered enumeration)", wgb.file, wgb.line, sample=True)
    rgb = prog.body("gearsets::convert_from_gearsets")
    if not rgb:
        ctx.fail_closed("SETPOS", "gearsets::convert_from_gearsets not found")
    else:
        used = sorted({last_of(t_) for b_ in prog.deep_bodies("gearsets::convert_from_gearsets") for _bi, t_ in b_.calls()} & set(DROPS))
        ctx.ob("SETPOS", "reader-record-by-record", not used, f"convert_from_gearsets uses position-changing adaptors {used}; record i must become entry i (empty records stay as None)", rgb.file, rgb.line)

    # ---- XOR on both paths
    for fn in ("gearsets::GearSets::from_existing", "gearsets::GearSets::write_to_buffer"):
        b = prog.body(fn)
        if not b:
            ctx.fail_closed("XOR", f"{fn} not found")
            continue
        ok = False
        for c in [b_ for b_ in prog.deep_bodies(fn) if b_.name != fn]:  # a closure, or a local fn handed to map()
            for _bi, _si, s in c.stmts():
                rv = s.get("rv", {})
                if rv.get("k") == "bin" and rv["op"] == "BitXor":
                    for o in (rv["a"], rv["b"]):
                        k = o.get("k") or {}
                        if k.get("uneval") == "gearsets::GEARSET_KEY" or const_int(o) == 0x73:
                            ok = True
        # the closure must be applied over the whole body buffer (map over iter of the buffer)
        calls = [(t.get("res") or "") for _bi, t in b.calls()]
        mapped = any(c.endswith("Iterator::map") or c.endswith("::map") for c in calls) and any(c.endswith("::collect") or c.endswith("::extend") for c in calls)
        # the same transformation in place: `for byte in buf.iter_mut() { *byte ^= KEY }` - a store through the
        # element reference of an iter_mut() over the buffer, of that element XOR the key, inside a loop
        inplace = False
        if not (ok and mapped):
            from ..prov import derive as _dv, index_of as _ixof

            bix = _ixof(b)
            for _bi, _si, s in b.stmts():
                rv = s.get("rv", {})
                if s["k"] == "assign" and s["lhs"]["p"] == ["*"] and rv.get("k") == "bin" and rv["op"] == "BitXor":
                    key_side = [o for o in (rv["a"], rv["b"]) if (o.get("k") or {}).get("uneval") == "gearsets::GEARSET_KEY" or const_int(o) == 0x73]
                    if key_side:
                        dl = _dv(bix, {"c": {"l": s["lhs"]["l"], "p": [], "ty": ""}})
                        cl = {c_.split("::")[-1] for c_ in dl.calls}
                        if "next" in cl and ("iter_mut" in cl or "into_iter" in cl):
                            inplace = True
        ctx.ob("XOR", fn.split("::")[-1], (ok and mapped) or inplace, f"{fn}: every body byte is XORed with GEARSET_KEY: key-xor closure {ok}, map+collect {mapped}, in-place loop {inplace}", b.file, b.line)
    # reader decodes before parsing, writer encodes after serialising: order of calls
    rb = prog.body("gearsets::GearSets::from_existing")
    if rb:
        seq = [(t.get("res") or "").split("::")[-1] for _bi, t in sorted(rb.calls())]
        names = [(t.get("res") or "") for _bi, t in sorted(rb.calls())]
        ok = any(n.endswith("BinRead::read") for n in names)
        ctx.ob("XOR", "reader-parses-decoded", ok, "GearSets::read consumes the decoded cursor", rb.file, rb.line, trivial=True)
