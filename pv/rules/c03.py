"""C03 — applying a ZiPatch has exactly the reference effect on the install.

Decided:
  W1/W5    chunk grammar: offsets, widths, big/little endian per field of every chunk/command record; chunk, command,
           file-operation and header-kind magics; 12-byte file magic
  SHIFT    block-unit fields are scaled by << 7 (offset, number, delete number of AddData; offset of Delete/Expand),
           the empty-block wipe uses the same unit, the empty block header states block size 1 << 7
  EFFECTS  every opcode has a handler whose reachable effect calls contain the required kinds, and the no-op opcodes
           reach no mutating effect at all ("nothing else under the directory changes")
  MUSTDO   the effects of an arm / of the empty-block writer lie on every successful path (must-pass-through after
           pruning the error-propagation blocks); every wipe iteration writes; AddFile reads a block only under the
           `collected < file_size` guard
  PLATFORM both path builders name the platform of the last TargetInfo (the only assignment to the variable lies in the
           TargetInfo arm); file-name arguments are (main id, sub id, file id) of the command being applied
  PROV     seek/write/wipe operands of every arm derive from that command's own fields (offset, data, counts);
           the 1024-byte seek lies on the header_kind != Version edge; set_len(0) under offset == 0
Not decided: equality of the resulting tree with the reference semantics (execution), chains of patches, ADIR/DELD
(no-ops here; the property text does not fix their effect).
"""
import os
import re

from .. import dispatch as D
from .. import wire as W
from ..mir import const_int, op_place
from ..prov import derive, index_of
from ..wrules import model, variant_frames, variant_magics, w1

TECHNIQUE = "static analysis: binrw layout/magic rules vs reference (W1/W5); per-arm effect sets over the switch nest of ZiPatch::apply closed under local helper calls (call graph); derives-from obligations on effect operands; dominator checks for conditional effects; must-pass-through of each arm's effects on its success paths (error-propagation blocks pruned; trip counts for effects written in loops over fixed arrays)"
TRUSTED = ["pv/wire.py binrw model", "spec/layouts.txt (XIVLauncher ZiPatch structs)", "required-effect table embedded in this rule (reference ZiPatch semantics)", "rustc nightly MIR and call graph"]

TYPES = ["patch::PatchHeader", "patch::PatchChunk", "patch::ApplyOptionChunk", "patch::DirectoryChunk", "patch::SqpkChunk", "patch::SqpkAddData", "patch::SqpkDeleteData",
         "patch::SqpkHeaderUpdateData", "patch::SqpkFileOperationData", "patch::SqpkTargetInfo", "patch::SqpkIndex", "patch::SqpkPatchInfo"]
MAGICS = {
    "patch::ChunkType": {"FileHeader": 'b"FHDR"', "ApplyOption": 'b"APLY"', "AddDirectory": 'b"ADIR"', "DeleteDirectory": 'b"DELD"', "Sqpk": 'b"SQPK"', "EndOfFile": 'b"EOF_"'},
    "patch::SqpkOperation": {"AddData": "b'A'", "DeleteData": "b'D'", "ExpandData": "b'E'", "FileOperation": "b'F'", "HeaderUpdate": "b'H'", "PatchInfo": "b'X'", "TargetInfo": "b'T'", "Index": "b'I'"},
    "patch::SqpkFileOperation": {"AddFile": "b'A'", "RemoveAll": "b'R'", "DeleteFile": "b'D'", "MakeDirTree": "b'M'"},
    "patch::TargetFileKind": {"Dat": "b'D'", "Index": "b'I'"},
    "patch::TargetHeaderKind": {"Version": "b'V'", "Index": "b'I'", "Data": "b'D'"},
    "patch::FileHeaderChunk": {"Version2": "2u8", "Version3": "3u8"},
    "patch::SqpkIndexCommand": {"Add": "b'A'", "Delete": "b'D'"},
}
# effect vocabulary: short name -> substring patterns of resolved callee paths
EFFECTS = {
    "create_dir_all": ("fs::create_dir_all",), "open": ("OpenOptions::open",), "set_len": ("File::set_len",), "seek": ("Seek>::seek", "Seek::seek"), "write_all": ("Write::write_all", "Write>::write_all"),
    "remove_file": ("fs::remove_file",), "remove_dir_all": ("fs::remove_dir_all",), "remove_dir": ("fs::remove_dir",), "rename": ("fs::rename",), "copy": ("fs::copy",), "fs_write": ("fs::write",), "file_create": ("File::create",),
    "read_block": ("sqpack::read_data_block_patch",), "set_permissions": ("fs::set_permissions",), "hard_link": ("fs::hard_link",),
}
MUTATING = {"create_dir_all", "open", "set_len", "write_all", "remove_file", "remove_dir_all", "remove_dir", "rename", "copy", "fs_write", "file_create", "set_permissions", "hard_link"}
REQUIRED = {
    ("Sqpk", "AddData", None): {"create_dir_all", "open", "seek", "write_all"},
    ("Sqpk", "DeleteData", None): {"open", "seek", "write_all"},
    ("Sqpk", "ExpandData", None): {"create_dir_all", "open", "seek", "write_all"},
    ("Sqpk", "HeaderUpdate", None): {"create_dir_all", "open", "seek", "write_all"},
    ("Sqpk", "FileOperation", "AddFile"): {"create_dir_all", "read_block", "open", "set_len", "seek", "write_all"},
    ("Sqpk", "FileOperation", "DeleteFile"): {"remove_file"},
    ("Sqpk", "FileOperation", "RemoveAll"): {"remove_dir_all"},
    ("Sqpk", "FileOperation", "MakeDirTree"): {"create_dir_all"},
}
NOOPS = [("Sqpk", "PatchInfo", None), ("Sqpk", "Index", None), ("Sqpk", "TargetInfo", None), ("FileHeader", None, None), ("ApplyOption", None, None), ("EndOfFile", None, None)]


# (bytes of padding between the tag and the payload, payload record(s), bytes of padding after) per tagged variant:
# XIVLauncher ZiPatch: FHDR = 2 alignment bytes, the header chunk, 1 byte; every other chunk/command follows its tag directly
FRAMES = {
    "patch::ChunkType": {"FileHeader": (2, ["FileHeaderChunk"], 1), "ApplyOption": (0, ["ApplyOptionChunk"], 0), "AddDirectory": (0, ["DirectoryChunk"], 0), "DeleteDirectory": (0, ["DirectoryChunk"], 0), "Sqpk": (0, ["SqpkChunk"], 0), "EndOfFile": (0, [], 0)},
    "patch::SqpkOperation": {"AddData": (0, ["SqpkAddData"], 0), "DeleteData": (0, ["SqpkDeleteData"], 0), "ExpandData": (0, ["SqpkDeleteData"], 0), "FileOperation": (0, ["SqpkFileOperationData"], 0), "HeaderUpdate": (0, ["SqpkHeaderUpdateData"], 0), "PatchInfo": (0, ["SqpkPatchInfo"], 0), "TargetInfo": (0, ["SqpkTargetInfo"], 0), "Index": (0, ["SqpkIndex"], 0)},
}


def effect_kind(name):
    for k, pats in EFFECTS.items():
        if any(p in name for p in pats):
            return k
    return None


def effects_in_region(prog, body, blocks, cache):
    """Effect kinds reachable from the calls in a block region, closed under local callees (mono call graph)."""
    out = set()
    for bi in blocks:
        t = body.blocks[bi]["t"]
        if t["k"] != "call":
            continue
        res = t.get("res") or ""
        k = effect_kind(res)
        if k:
            out.add(k)
        if t.get("resl") and res not in cache:
            ids, _par = prog.reach([res])
            ks = set()
            for i in ids:
                kk = effect_kind(prog.instances[i]["def"])
                if kk:
                    ks.add(kk)
            cache[res] = ks
        if t.get("resl"):
            out |= cache[res]
    return out


# effects every *successful* run of an arm / helper performs (must-pass-through on the success paths); name -> count
UNAVOIDABLE = {
    ("Sqpk", "AddData", None): {"create_dir_all": 1, "open": 1, "seek": 1, "write_all": 1, "wipe": 1},
    ("Sqpk", "DeleteData", None): {"open": 1, "empty_block": 1},
    ("Sqpk", "ExpandData", None): {"create_dir_all": 1, "open": 1, "empty_block": 1},
    ("Sqpk", "HeaderUpdate", None): {"create_dir_all": 1, "open": 1, "write_all": 1},
    ("Sqpk", "FileOperation", "AddFile"): {"create_dir_all": 1, "seek": 2, "open": 1},
    ("Sqpk", "FileOperation", "MakeDirTree"): {"create_dir_all": 1},
}
UNAVOIDABLE_FN = {"patch::write_empty_file_block_at": {"wipe": 1, "seek": 2, "write_all": 5}}
MUST_KINDS = dict(EFFECTS, wipe=("patch::wipe",), empty_block=("patch::write_empty_file_block_at",))


def must_kind(name):
    for k in ("wipe", "empty_block"):
        if name in MUST_KINDS[k]:
            return k
    return effect_kind(name)


def error_blocks(body):
    """Blocks on error-propagation paths: a `?` residual conversion or the construction of a Result::Err."""
    out = set()
    for bi, blk in enumerate(body.blocks):
        if blk["cleanup"]:
            out.add(bi)
            continue
        t = blk["t"]
        if t["k"] == "unreachable":
            out.add(bi)
        if t["k"] == "call" and "from_residual" in (t.get("res") or ""):
            out.add(bi)
        for st in blk["s"]:
            rv = st.get("rv") or {}
            if rv.get("k") == "agg" and (rv.get("adt") or "").endswith("result::Result") and str(rv.get("variant")) in ("1", "Err"):
                out.add(bi)
    return out


def unavoidable_calls(body, entry, region=None, extra_bad=()):
    """Calls that lie on every success path from `entry` to an exit (a `return`, or an edge leaving `region`):
    the error-propagation blocks are pruned, then a call block is unavoidable iff no exit is reachable without it."""
    from collections import Counter

    bad = error_blocks(body) | set(extra_bad)
    nodes = {b for b in (region if region is not None else body.reachable()) if b not in bad}

    def exits_reachable(skip):
        if entry == skip or entry not in nodes:
            return False
        seen, todo = {entry}, [entry]
        while todo:
            b = todo.pop()
            t = body.blocks[b]["t"]
            if t["k"] == "return":
                return True
            for s_ in body.succ(b):
                if s_ in bad or s_ == skip:
                    continue
                if region is not None and s_ not in region:
                    return True
                if s_ in nodes and s_ not in seen:
                    seen.add(s_)
                    todo.append(s_)
        return False

    if not exits_reachable(None):
        return None
    out = Counter()
    for b in sorted(nodes):
        t = body.blocks[b]["t"]
        if t["k"] == "call":
            k = must_kind(t.get("res") or "")
            if k and not exits_reachable(b):
                out[k] += 1
    # an effect written once in a loop over a fixed-size array (`for w in [a, b, c] { write(w)? }`) happens once per
    # element: when the loop itself cannot be bypassed and the call runs on every iteration it counts N times
    from ..loops import trip_counts

    for h, (n, blocks, next_bb, _elems) in trip_counts(body).items():
        if n < 1 or next_bb not in nodes or exits_reachable(next_bb):
            continue
        latches = [p for p in body.pred(h) if p in blocks]
        for b in sorted(blocks & nodes):
            t = body.blocks[b]["t"]
            if t["k"] == "call" and b != next_bb and all(body.dominates(b, l_) for l_ in latches):
                k = must_kind(t.get("res") or "")
                if k and exits_reachable(b):  # not already counted as unavoidable on its own
                    out[k] += n
    return out


def addfile_region(prog, ab):
    fo = main_switch(ab, "patch::SqpkFileOperation")
    if not fo:
        return None
    fn_ = {int(v["discr"]): v["name"] for v in prog.adts["patch::SqpkFileOperation"]["variants"]}
    for v, tgt in fo[2].items():
        if fn_.get(v) == "AddFile":
            return D.region(ab, tgt)
    return None


def addfile_writes_when_opened(prog, ab, reg):
    """Once the target file of an AddFile command is open, the collected data is written: the only way around write_all
    is the arm taken when the open failed (no skipping of files that "look unchanged").  (shared with C04)"""
    ixa = index_of(ab)
    err_arms = []
    for sb_ in reg:
        t_ = ab.blocks[sb_]["t"]
        if t_["k"] != "switch":
            continue
        r_ = ixa.resolve(t_["a"])
        if r_[0] == "rv" and r_[1]["k"] == "discr":
            dd_ = ixa.single_def(r_[1]["p"]["l"]) if not r_[1]["p"]["p"] else None
            # through plain moves (the result of an inlined open helper is moved into the caller's local)
            for _hop in range(6):
                if dd_ and dd_[0] == "assign" and not dd_[3]["lhs"].get("p") and dd_[3].get("rv", {}).get("k") == "use":
                    src_ = op_place(dd_[3]["rv"]["a"])
                    dd_ = ixa.single_def(src_["l"]) if src_ and not src_["p"] else None
                else:
                    break
            if dd_ and dd_[0] == "call" and ixa.callee(dd_[3]).endswith("OpenOptions::open"):
                arms_ = {int(v_): tg_ for v_, tg_ in t_["arms"]}
                err_t = arms_.get(1, t_.get("else") if 1 not in arms_ else None)
                if isinstance(err_t, int):
                    err_arms.append(err_t)
    tgt_a = min(reg, key=lambda b_: (not all(ab.dominates(b_, x) for x in reg), b_))
    got_w = unavoidable_calls(ab, tgt_a, reg, extra_bad=err_arms) if err_arms else None
    ok = bool(err_arms) and got_w is not None and got_w.get("write_all", 0) >= 1 and got_w.get("seek", 0) >= 3
    return ok, f"AddFile: on the paths where the target file opened, the effects {dict(got_w) if got_w else None} are unavoidable; must include the seek to the command's offset and the write of the collected data"


def main_switch(body, ty):
    sw = D.discr_switches(body, ty)
    if not sw:
        return None
    return max(sw, key=lambda s: len(s[2]))


def run(ctx):
    prog = ctx.prog
    wm = model(ctx)
    ctx.decided("chunk/command record layouts and endianness; all magics (W1/W5)")
    ctx.decided("<< 7 block units on the four block fields, the wipe length and the empty-block header (SHIFT)")
    ctx.decided("the patch block reader consumes deflated and raw blocks up to their 128-byte aligned end (BLOCK)")
    ctx.decided("required effect kinds per opcode; no mutating effect in the no-op opcodes (EFFECTS)")
    ctx.decided("the effects of each arm are unavoidable on its successful paths; block reads of AddFile are guarded by the size test (MUSTDO)")
    ctx.decided("target platform comes from the last TargetInfo; file-name arguments are the command's own ids (PLATFORM)")
    ctx.decided("seek/write/wipe operands derive from the command's own fields; conditional seek/truncate placement (PROV)")
    ctx.not_decided("tree equality with the reference semantics; offsets and lengths actually written; chains of patches; ADIR/DELD effects")

    n = w1(ctx, TYPES)
    ctx.floor("W1", "patch record types", n, 12)
    for enum, ref in MAGICS.items():
        got = variant_magics(ctx, enum)
        if got is None:
            ctx.fail_closed("W5", f"{enum} not found")
            continue
        for v, m in ref.items():
            ctx.ob("W5", f"{enum}::{v}", got.get(v) == m, f"{enum}::{v} magic {got.get(v)}; reference {m}", "src/patch.rs", None, sample=(v == "AddData"))
        ctx.ob("W5", f"{enum}|no-extra", set(got) == set(ref), f"{enum}: tagged variants {sorted(got)}; reference {sorted(ref)}", "src/patch.rs", None, trivial=True)
        # framing of each variant's payload: padding around it and which record follows the tag, on both sides
        fr_ref = FRAMES.get(enum)
        if fr_ref:
            for side in ("r", "w"):
                fr = variant_frames(ctx, enum, side) or {}
                for v, want in fr_ref.items():
                    ctx.ob("W5", f"{enum}::{v}|frame|{side}", fr.get(v) == want, f"{enum}::{v} ({'read' if side == 'r' else 'write'} side): (padding before, payload records, padding after) = {fr.get(v)}; reference {want}", "src/patch.rs", None, trivial=(side == "w"))
    ph = wm.items.by_path.get("patch::PatchHeader")
    if ph:
        asserts = [d.text.replace(" ", "") for f in ph["fields"] for d in W.directives(f["attrs"]) if d.name == "assert"]
        calcs = [d.text.replace(" ", "") for f in ph["fields"] for d in W.directives(f["attrs"]) if d.name == "calc"]
        ctx.ob("W5", "file-magic", asserts == ['magic==*b"ZIPATCH"'] and calcs == ['*b"ZIPATCH"'], f"file magic asserted as {asserts}, written as {calcs}", ph["file"], ph["line"])

    # ---- SHIFT
    n_shift = 0
    for ty, flds in (("patch::SqpkAddData", ("block_offset", "block_number", "block_delete_number")), ("patch::SqpkDeleteData", ("block_offset",))):
        it = wm.items.by_path.get(ty)
        if not it:
            ctx.fail_closed("SHIFT", f"{ty} not found")
            continue
        for f in it["fields"]:
            if f["name"] in flds:
                maps = [d.text.replace(" ", "") for d in W.directives(f["attrs"]) if d.name == "map" and "r" in d.side]
                n_shift += 1
                ctx.ob("SHIFT", f"{ty}.{f['name']}", maps == ["|x:u32|(xasu64)<<7"], f"{ty}.{f['name']} is mapped with {maps}; block units are 128 bytes: (x as u64) << 7 of a u32", it["file"], f["line"], sample=(f["name"] == "block_offset"))
        # the raw count of Delete/Expand stays unscaled (it is scaled where it is used)
    ctx.floor("SHIFT", "block-unit fields", n_shift, 4)
    eb = prog.body("patch::write_empty_file_block_at")
    if not eb:
        ctx.fail_closed("SHIFT", "patch::write_empty_file_block_at not found")
    else:
        ix = index_of(eb)
        shifts = []
        for _bi, _si, s in eb.stmts():
            rv = s.get("rv", {})
            if rv.get("k") == "bin" and rv["op"] in ("Shl", "ShlUnchecked"):
                a = op_place(rv["a"])
                shifts.append(("param3" if (a and derive(ix, rv["a"]).params == {3}) else const_int(rv["a"]), const_int(rv["b"])))
        ctx.ob("SHIFT", "empty-block|wipe-length", ("param3", 7) in shifts, f"write_empty_file_block_at shifts {shifts}; the wipe length must be block_number << 7", eb.file, eb.line)
        # header words: size(128), 0, 0, block_number - 1, 0 written in this order after seeking back to the offset
        from ..loops import trip_counts

        tc = trip_counts(eb)

        def written_value(t_):
            """operand whose to_le_bytes() a write_all call writes"""
            d_ = derive(ix, t_["args"][1])
            for bj, tj in eb.calls():
                if (tj.get("res") or "").endswith("::to_le_bytes") and tj.get("dest") and tj["dest"]["l"] in d_.locals and tj["args"]:
                    return tj["args"][0]
            return None

        def classify_word(o):
            r_ = ix.resolve(o)
            d_ = derive(ix, o)
            if 3 in d_.params and 1 in d_.consts and ("Sub" in d_.ops or any(x.endswith("checked_sub") for x in d_.calls)):
                return "count-1"
            if r_[0] == "const":
                return "size" if r_[1] == 128 else "zero" if r_[1] == 0 else f"const {r_[1]}"
            if d_.consts == {1, 7} and "Shl" in d_.ops:
                return "size"
            return "?"

        seq = []
        size_word = False
        for bi, t in sorted(eb.calls(), key=lambda x: (len([1 for y, _t in eb.calls() if y != x[0] and eb.dominates(y, x[0])]), x[0])):
            c = t.get("res") or ""
            if effect_kind(c) != "write_all":
                continue
            loop = next(((n_, el_) for h_, (n_, bl_, _nb, el_) in tc.items() if bi in bl_), None)
            v = written_value(t)
            if loop and loop[1] is not None and v is not None and any(c_.split("::")[-1] == "next" for c_ in derive(ix, v).calls):
                seq += [classify_word(o_) for o_ in loop[1]]
            elif v is not None:
                seq.append(classify_word(v))
            else:
                d = derive(ix, t["args"][1])
                seq.append("count-1" if (3 in d.params and 1 in d.consts and ("Sub" in d.ops or any(x.endswith("checked_sub") for x in d.calls))) else ("size" if 7 in d.consts and 1 in d.consts else "zero" if d.consts <= {0} else "?"))
        ctx.ob("SHIFT", "empty-block|block-size", (1, 7) in shifts or "size" in seq, "the empty block header states block size 1 << 7 (= 128)", eb.file, eb.line)
        ctx.ob("SHIFT", "empty-block|header-words", seq == ["size", "zero", "zero", "count-1", "zero"], f"empty block header words written: {seq}; reference [block size, 0, 0, block count - 1, 0]", eb.file, eb.line)

    # ---- BLOCK: the patch block reader consumes each block up to its 128-byte aligned end
    rbp = next((b_ for n_, b_ in prog.bodies.items() if n_.endswith("sqpack::read_data_block_patch")), None)
    if not rbp:
        ctx.fail_closed("BLOCK", "sqpack::read_data_block_patch not found")
    else:
        from ..sym import Explorer, N, is_const, show, walk

        def fields_of(e):
            return {t[2] for t in walk(e) if isinstance(t, tuple) and t[0] == "fld" and isinstance(t[2], str)}

        def plain_sub(e):
            """`a.checked_sub(b)?` computes a - b or leaves the function: read it as the subtraction it guards."""
            if not isinstance(e, tuple):
                return e
            if e[0] == "fld" and len(e) == 3 and e[2] in ("0", 0) and isinstance(e[1], tuple) and e[1][0] == "down" and e[1][2] == "Continue":
                c = e[1][1]
                if isinstance(c, tuple) and c[0] == "call" and c[1].endswith("Try>::branch") and len(c[2]) == 1:
                    a = c[2][0]
                    if isinstance(a, tuple) and a[0] == "call" and a[1].split("::")[-1] == "checked_sub" and len(a[2]) == 2:
                        return ("bin", "Sub", plain_sub(a[2][0]), plain_sub(a[2][1]))
            return tuple(plain_sub(x) if isinstance(x, tuple) else x for x in e)

        def aligned(e, length_field):
            """e == ((length + 143) & 0xFFFFFF80) with `length` the named header field."""
            e = N(e)
            if not (isinstance(e, tuple) and e[0] == "bin" and e[1] == "BitAnd"):
                return False
            sides = (e[2], e[3])
            mask = [x for x in sides if is_const(x) and (x[1] & 0xFFFFFFFF) == 0xFFFFFF80]
            add = [x for x in sides if isinstance(x, tuple) and x[0] == "bin" and x[1] == "Add"]
            if not mask or not add:
                return False
            a = add[0]
            k = [x for x in (a[2], a[3]) if is_const(x)]
            other = [x for x in (a[2], a[3]) if not is_const(x)]
            return bool(k) and k[0][1] == 143 and bool(other) and length_field in fields_of(other[0]) and not any(isinstance(t, tuple) and t[0] == "bin" for t in walk(other[0]))

        comp_ok = raw_ok = None
        for p in Explorer(rbp).explore():
            sel = [d for d, c in p.conds if isinstance(d, tuple) and d[0] == "discr" and "compression" in fields_of(d)]
            if not sel:
                continue
            for (_bb, callee, args, _res) in p.events:
                last = callee.split("::")[-1]
                if last == "from_elem" and len(args) == 2 and "compressed_length" in fields_of(args[1]) and "decompressed_length" not in fields_of(args[1]):
                    e = N(plain_sub(args[1]))
                    ok = isinstance(e, tuple) and e[0] == "bin" and e[1] == "Sub" and aligned(e[2], "compressed_length") and fields_of(e[3]) >= {"size"} and not any(isinstance(t, tuple) and t[0] == "bin" for t in walk(e[3]))
                    comp_ok = ok if comp_ok is None else (comp_ok and ok)
                if last == "seek" and len(args) == 2 and "file_size" in fields_of(args[1]):
                    cur = [t for t in walk(args[1]) if isinstance(t, tuple) and t[0] == "agg" and t[2].endswith("SeekFrom::Current")]
                    if cur:
                        e = N(plain_sub(cur[0][3][0]))
                        # (aligned(file_size) - size) - file_size
                        ok = isinstance(e, tuple) and e[0] == "bin" and e[1] == "Sub" and "file_size" in fields_of(e[3]) and isinstance(e[2], tuple) and e[2][0] == "bin" and e[2][1] == "Sub" and aligned(e[2][2], "file_size") and "size" in fields_of(e[2][3])
                        raw_ok = ok if raw_ok is None else (raw_ok and ok)
        ctx.ob("BLOCK", "deflated-length", comp_ok is True, "a deflated block occupies ((compressed_length + 143) & 0xFFFFFF80) - header size bytes after its header (what the reader consumes)", rbp.file, rbp.line, sample=True)
        ctx.ob("BLOCK", "raw-padding", raw_ok is True, "after a raw block the reader skips ((file_size + 143) & 0xFFFFFF80) - header size - file_size padding bytes", rbp.file, rbp.line)

    # ---- EFFECTS
    ab = prog.body("patch::ZiPatch::apply")
    if not ab:
        ctx.fail_closed("EFFECTS", "patch::ZiPatch::apply not found")
        return
    ct = main_switch(ab, "patch::ChunkType")
    so = main_switch(ab, "patch::SqpkOperation")
    fo = main_switch(ab, "patch::SqpkFileOperation")
    if not (ct and so and fo):
        ctx.fail_closed("EFFECTS", "chunk / command / file-operation switches not found in ZiPatch::apply")
        return
    cn = {int(v["discr"]): v["name"] for v in prog.adts["patch::ChunkType"]["variants"]}
    sn = {int(v["discr"]): v["name"] for v in prog.adts["patch::SqpkOperation"]["variants"]}
    fn_ = {int(v["discr"]): v["name"] for v in prog.adts["patch::SqpkFileOperation"]["variants"]}
    regions = {}
    for v, tgt in ct[2].items():
        regions[(cn[v], None, None)] = D.region(ab, tgt)
    for v, tgt in so[2].items():
        regions[("Sqpk", sn[v], None)] = D.region(ab, tgt)
    for v, tgt in fo[2].items():
        regions[("Sqpk", "FileOperation", fn_[v])] = D.region(ab, tgt)
    cache = {}
    n_arm = 0
    for key, req in REQUIRED.items():
        reg = regions.get(key)
        if reg is None:
            ctx.ob("EFFECTS", "|".join(str(k) for k in key if k), False, f"opcode {key} has no handler arm", ab.file, ab.line)
            continue
        n_arm += 1
        got = effects_in_region(prog, ab, reg, cache)
        missing = req - got
        ctx.ob("EFFECTS", "|".join(str(k) for k in key if k), not missing, f"{[k for k in key if k]}: reachable effect kinds {sorted(got)}; required {sorted(req)}" + (f"; MISSING {sorted(missing)}" if missing else ""), ab.file, ab.line, sample=(key[1] == "AddData"))
    for key in NOOPS:
        reg = regions.get(key)
        if reg is None:
            ctx.ob("EFFECTS", "|".join(str(k) for k in key if k), False, f"opcode {key} has no arm", ab.file, ab.line)
            continue
        n_arm += 1
        got = effects_in_region(prog, ab, reg, cache) & MUTATING
        ctx.ob("EFFECTS", "|".join(str(k) for k in key if k) + "|no-effect", not got, f"{[k for k in key if k]} must not change the install; it reaches mutating effects {sorted(got)}", ab.file, ab.line)
    ctx.floor("EFFECTS", "opcode arms examined", n_arm, 14)
    # the file-operation arms other than AddFile must not write data
    for op, forbidden in (("DeleteFile", {"write_all", "set_len", "open", "remove_dir_all"}), ("MakeDirTree", {"write_all", "set_len", "open", "remove_file", "remove_dir_all"}), ("RemoveAll", {"write_all", "set_len", "open", "remove_file"})):
        reg = regions.get(("Sqpk", "FileOperation", op))
        if reg:
            got = effects_in_region(prog, ab, reg, cache) & forbidden
            ctx.ob("EFFECTS", f"Sqpk|FileOperation|{op}|only", not got, f"{op} reaches effects outside its meaning: {sorted(got)}", ab.file, ab.line, trivial=True)

    # ---- MUSTDO: the effects of an arm are performed on every successful path through it, not merely reachable
    for key, want in UNAVOIDABLE.items():
        reg = regions.get(key)
        name = "|".join(str(k) for k in key if k)
        if reg is None:
            continue
        tgt = min(reg, key=lambda b_: (not all(ab.dominates(b_, x) for x in reg), b_))
        got = unavoidable_calls(ab, tgt, reg)
        if got is None:
            ctx.fail_closed("MUSTDO", f"{name}: no success path found through the arm")
            continue
        short = {k: (got.get(k, 0), n_) for k, n_ in want.items() if got.get(k, 0) < n_}
        ctx.ob("MUSTDO", name, not short, f"{name}: effects on every successful path {dict(got)}; required at least {want}" + (f"; AVOIDABLE {short}" if short else ""), ab.file, ab.line, sample=(key[1] == "AddData"))
    # ---- OPENMODE: every target file an arm writes is opened for writing, created when missing and never truncated by
    # the open itself (a patch may address a data file that does not exist yet; AddFile truncates explicitly, at offset 0
    # only).  The builder chain of each `OpenOptions::open` is read off the calls that dominate it.
    SETTERS = {"write", "create", "truncate", "append", "read", "create_new"}
    opens = []
    for bi, t_ in ab.calls():
        r = t_.get("res") or ""
        if r in ("std::fs::File::create", "std::fs::File::create_new", "std::fs::write"):
            ctx.ob("OPENMODE", f"{r.split('::')[-1]}|truncating-create", False, f"{r} in ZiPatch::apply truncates (or refuses) an existing target file; targets are opened with write+create and no truncation", ab.file, ab.line)
        if r in ("std::fs::OpenOptions::open",):
            opens.append(bi)
    n_open = 0
    for ob_ in opens:
        news = [bi for bi, t_ in ab.calls() if (t_.get("res") or "") in ("std::fs::OpenOptions::new", "std::fs::File::options") and ab.dominates(bi, ob_)]
        if not news:
            ctx.fail_closed("OPENMODE", "an OpenOptions::open in ZiPatch::apply has no dominating OpenOptions::new")
            continue
        start = max(news, key=lambda x: sum(1 for y in news if ab.dominates(y, x)))
        flags = {}
        undec = False
        for bi, t_ in ab.calls():
            r = t_.get("res") or ""
            nm = r.split("::")[-1]
            if r.startswith("std::fs::OpenOptions::") and nm in SETTERS and ab.dominates(start, bi) and ab.dominates(bi, ob_) and bi != ob_:
                a1 = t_["args"][1] if len(t_["args"]) > 1 else {}
                k = a1.get("k") if isinstance(a1, dict) else None
                if isinstance(k, dict) and "bits" in k:
                    flags[nm] = int(str(k["bits"]), 0) if not isinstance(k["bits"], int) else k["bits"]
                else:
                    undec = True
        if undec:
            ctx.fail_closed("OPENMODE", f"an open mode flag in ZiPatch::apply is not a constant ({flags})")
            continue
        n_open += 1
        reg_name = next(("|".join(str(k) for k in key if k) for key, reg in regions.items() if ob_ in reg and key[0] == "Sqpk" and key[1] and (key[1] != "FileOperation" or key[2])), "apply")
        ok_ = (flags.get("write") == 1 or flags.get("append") == 1) and flags.get("create") == 1 and flags.get("truncate", 0) == 0 and flags.get("create_new", 0) == 0
        ctx.ob("OPENMODE", f"{reg_name}|write-create-no-truncate", ok_, f"{reg_name}: target opened with {flags}; required write (or append) = 1, create = 1, truncate = 0, create_new = 0", ab.file, ab.line, sample=(n_open == 1))
    ctx.floor("OPENMODE", "target-file opens in ZiPatch::apply", n_open, 5)

    for fn, want in UNAVOIDABLE_FN.items():
        fb = prog.body(fn)
        if not fb:
            ctx.fail_closed("MUSTDO", f"{fn} not found")
            continue
        got = unavoidable_calls(fb, 0)
        if got is None:
            ctx.fail_closed("MUSTDO", f"{fn}: no success path found")
            continue
        short = {k: (got.get(k, 0), n_) for k, n_ in want.items() if got.get(k, 0) < n_}
        ctx.ob("MUSTDO", fn, not short, f"{fn}: effects on every successful path {dict(got)}; required at least {want}" + (f"; AVOIDABLE {short}" if short else ""), fb.file, fb.line)
    wb = prog.body("patch::wipe")
    if not wb:
        ctx.fail_closed("MUSTDO", "patch::wipe not found")
    else:
        # every cycle of the wipe loop writes: no loop path from the head back to the head avoids write_all
        from ..sym import Explorer as _Ex

        loops = _Ex(wb).loops()
        okw = bool(loops)
        for h, (blocks, _as) in loops.items():
            wr = {b_ for b_ in blocks if wb.blocks[b_]["t"]["k"] == "call" and effect_kind(wb.blocks[b_]["t"].get("res") or "") == "write_all"}
            seen, todo = set(), [s_ for s_ in wb.succ(h) if s_ in blocks and s_ not in wr]
            back = False
            while todo:
                b_ = todo.pop()
                if b_ == h:
                    back = True
                    break
                if b_ in seen:
                    continue
                seen.add(b_)
                todo += [s_ for s_ in wb.succ(b_) if s_ in blocks and s_ not in wr]
            okw = okw and bool(wr) and not back
        ctx.ob("MUSTDO", "patch::wipe|every-iteration-writes", okw, "every iteration of the wipe loop passes through write_all (the remaining length only shrinks by bytes actually written)", wb.file, wb.line)
        # ... and no iteration writes more than what remains: the slice handed to write_all is cut inside the loop, to a
        # length that depends on a value the loop updates (min(buffer, remaining)); a slice cut once before the loop
        # rounds a long wipe up to a multiple of the buffer
        wix = index_of(wb)
        wdefs = wb.defs()
        bounded, detail = bool(loops), "no loop"
        for h, (blocks, _as) in loops.items():
            variant = {l for l, ds in wdefs.items() if any(d_[1] in blocks for d_ in ds) and any(d_[1] not in blocks for d_ in ds)}
            for b_ in sorted(blocks):
                t_ = wb.blocks[b_]["t"]
                if t_["k"] != "call" or effect_kind(t_.get("res") or "") != "write_all":
                    continue
                pl = op_place(t_["args"][1])
                prod = None
                for _hop in range(8):
                    dd_ = wix.single_def(pl["l"]) if pl else None
                    if not dd_:
                        break
                    if dd_[0] == "call":
                        prod = dd_
                        break
                    rv_ = dd_[3].get("rv", {})
                    if rv_.get("k") == "use":
                        pl = op_place(rv_["a"])
                    elif rv_.get("k") in ("ref", "rawptr"):
                        pl = {"l": rv_["p"]["l"], "p": []}
                    elif rv_.get("k") == "cast":
                        pl = op_place(rv_["a"])
                    else:
                        break
                if prod is None:
                    # the whole buffer (or a value this rule cannot trace) is written: not the pattern decided here
                    detail = "a whole buffer is written (count of such writes not decided here)"
                    continue
                inside = prod[1] in blocks
                dl = set()
                for a_ in prod[3]["args"][1:]:
                    dl |= set(derive(wix, a_).locals)
                dep = bool(dl & variant)
                detail = f"slice cut by {wix.callee(prod[3]).split('::')[-1]} {'inside' if inside else 'BEFORE'} the loop, its bound {'depends' if dep else 'does NOT depend'} on a value the loop updates"
                bounded = bounded and inside and dep
        ctx.ob("MUSTDO", "patch::wipe|write-bounded-by-remaining", bounded, f"wipe: {detail}; each write must be limited to the bytes still to wipe", wb.file, wb.line)
    # AddFile: a block is read from the patch only while the collected data is shorter than the stated file size
    # (a zero-length file carries no block)
    reg = regions.get(("Sqpk", "FileOperation", "AddFile"))
    if reg:
        ixa = index_of(ab)
        reads = [bi for bi in reg if ab.blocks[bi]["t"]["k"] == "call" and (ab.blocks[bi]["t"].get("res") or "").endswith("read_data_block_patch")]
        guarded = []
        for rb_ in reads:
            g = False
            for sb_ in reg:
                t_ = ab.blocks[sb_]["t"]
                if t_["k"] != "switch" or not ab.dominates(sb_, rb_):
                    continue
                d_ = derive(ixa, t_["a"])
                if "file_size" in d_.names and any(c_.split("::")[-1] == "len" for c_ in d_.calls) and (d_.ops & {"Lt", "Gt", "Le", "Ge", "Ne"}):
                    # the read lies on one side of the comparison only
                    sides = [tg for _v, tg in t_["arms"]] + ([t_["else"]] if t_.get("else") is not None and t_.get("else", -1) >= 0 else [])
                    if sum(1 for tg in set(sides) if ab.dominates(tg, rb_)) == 1:
                        g = True
            guarded.append(g)
        okw_, detw_ = addfile_writes_when_opened(prog, ab, reg)
        ctx.ob("MUSTDO", "AddFile|writes-when-opened", okw_, detw_, ab.file, ab.line)
        ctx.ob("MUSTDO", "AddFile|block-read-guarded", bool(reads) and all(guarded), f"{len(reads)} read_data_block_patch call(s) in the AddFile arm, guarded by the `collected length < file_size` test: {guarded}", ab.file, ab.line)

    # ---- PLATFORM
    tloc = None
    for l, nm in ab.local_names().items():
        if nm == "target_info":
            tloc = l
    if tloc is None:
        ctx.fail_closed("PLATFORM", "variable target_info not found in ZiPatch::apply")
    else:
        ti_region = regions.get(("Sqpk", "TargetInfo", None), set())
        writes = []
        for bi, si, s in ab.stmts():
            if s["k"] == "assign" and s["lhs"]["l"] == tloc and bi in ab.reachable():
                rv = s["rv"]
                is_none = rv.get("k") == "agg" and rv.get("variant") == "None"
                writes.append((bi, "none-init" if is_none else ("in-TargetInfo-arm" if bi in ti_region else "elsewhere")))
        kinds = sorted({w[1] for w in writes})
        ctx.ob("PLATFORM", "single-writer", kinds == ["in-TargetInfo-arm", "none-init"], f"assignments to target_info: {kinds}; only the initial None and the TargetInfo arm may assign it", ab.file, ab.line, sample=True)
        # every dat / index file name built while applying a command (the path builders may be closures, nested fns or
        # helpers: they are analysed inlined into apply) formats the ids of the command of its own arm and the platform
        # of the recorded target info
        from ..strx import StrX, show as sshow

        ix = index_of(ab)
        sx = StrX(ab)
        n_calls = 0
        for bi, pcs in sx.format_sites():
            lits = "".join(p_[1] for p_ in pcs if p_[0] == "lit")
            if ".dat" not in lits and ".index" not in lits:
                continue
            args = [p_ for p_ in pcs if p_[0] == "arg"]
            kind = "dat" if ".dat" in lits else "index"
            arm = next((k for k, reg in regions.items() if k[1] and k[2] is None and bi in reg), ("?", "?"))
            n_calls += 1
            ids = []
            plat = False
            for a in args:
                d = derive(ix, a[3]) if a[3] is not None else None
                if d is None:
                    ids.append("?")
                    continue
                calls = {c_.split("::")[-1] for c_ in d.calls}
                if "get_platform_string" in calls:
                    plat = tloc in d.locals and "platform" in d.names
                    ids.append("platform")
                else:
                    got = sorted(d.names & {"main_id", "sub_id", "file_id"})
                    ids.append(got[0] if len(got) == 1 else "?" + "+".join(got))
            want = ["main_id", "sub_id", "platform"] + (["file_id"] if kind == "dat" else [])
            ok = ids[: len(want)] == want and plat and all(x == "file_id" for x in ids[len(want):])
            ctx.ob("PLATFORM", f"path-args|{arm[1]}|{kind}", ok, f"{arm}: {kind} file name {sshow(pcs)!r} is formatted from {ids} (platform from target_info: {plat}); must be (main_id, sub_id, platform of the recorded target info{', file_id' if kind == 'dat' else ''})", ab.file, ab.line)
        ctx.floor("PLATFORM", "dat/index file names built per command", n_calls, 5)

    # ---- PROV
    ix = index_of(ab)

    def calls_in(key, kind):
        reg = regions.get(key, set())
        out = []
        for bi in sorted(reg):
            t = ab.blocks[bi]["t"]
            if t["k"] == "call" and (effect_kind(t.get("res") or "") == kind or (t.get("res") or "").endswith(kind)):
                out.append((bi, t))
        return out

    def need(key, kind, argi, fields, label):
        cs = calls_in(key, kind)
        ok = False
        got = None
        for _bi, t in cs:
            if argi < len(t["args"]):
                d = derive(ix, t["args"][argi])
                got = sorted(d.names)
                if set(fields) <= d.names:
                    ok = True
        ctx.ob("PROV", label, ok, f"{[k for k in key if k]}: {kind} operand derives from fields {got}; must include {sorted(fields)}", ab.file, ab.line, sample=(label == "AddData|seek"))

    need(("Sqpk", "AddData", None), "seek", 1, {"block_offset"}, "AddData|seek")
    need(("Sqpk", "AddData", None), "write_all", 1, {"block_data"}, "AddData|write")
    need(("Sqpk", "AddData", None), "patch::wipe", 1, {"block_delete_number"}, "AddData|wipe")
    need(("Sqpk", "DeleteData", None), "patch::write_empty_file_block_at", 1, {"block_offset"}, "DeleteData|offset")
    need(("Sqpk", "DeleteData", None), "patch::write_empty_file_block_at", 2, {"block_number"}, "DeleteData|count")
    need(("Sqpk", "ExpandData", None), "patch::write_empty_file_block_at", 1, {"block_offset"}, "ExpandData|offset")
    need(("Sqpk", "ExpandData", None), "patch::write_empty_file_block_at", 2, {"block_number"}, "ExpandData|count")
    need(("Sqpk", "HeaderUpdate", None), "write_all", 1, {"header_data"}, "HeaderUpdate|write")
    need(("Sqpk", "FileOperation", "AddFile"), "seek", 1, {"offset"}, "AddFile|seek")
    # AddFile payload comes from the block reader
    cs = calls_in(("Sqpk", "FileOperation", "AddFile"), "write_all")
    # the written buffer is the one the block reader's output is appended to (in place, or in a helper whose result is
    # written): either the payload operand itself derives from read_data_block_patch, or an append/extend in the
    # operation's region has the payload's buffer as receiver and the block reader's result as argument
    GROW = ("Vec::<T, A>::append", "Vec::<T, A>::extend_from_slice", "std::iter::Extend<T>>::extend", "std::iter::Extend<&'a T>>::extend")
    adefs = ab.defs()
    VIEW = ("::deref", "::deref_mut", "::as_slice", "::as_mut_slice", "::as_ref", "::as_mut", "::borrow", "::borrow_mut")

    def storage(op, depth=0):
        """the local whose storage an operand views: through copies, borrows and slice/deref views"""
        pl = op_place(op)
        if pl is None or depth > 48:
            return None
        ds = adefs.get(pl["l"], [])
        if len(ds) > 1:
            # a helper's result slot: written with Ok(payload) on the success path and with errors elsewhere
            oks = [d_ for d_ in ds if d_[0] == "assign" and not d_[3]["lhs"].get("p") and d_[3].get("rv", {}).get("k") == "agg" and d_[3]["rv"].get("variant") in ("Ok", "Some")]
            others = [d_ for d_ in ds if d_ not in oks]
            if len(oks) == 1 and all((d_[0] == "assign" and d_[3].get("rv", {}).get("variant") in ("Err", "None")) or (d_[0] == "call" and "from_residual" in (d_[3].get("res") or "")) for d_ in others):
                ds = oks
        if len(ds) != 1:
            return pl["l"]
        kind, _b, _i, x = ds[0]
        if kind == "assign" and not x["lhs"].get("p"):
            rv = x.get("rv", {})
            if rv.get("k") == "use":
                src_ = op_place(rv["a"])
                if src_ and src_.get("p") and re.match(r"(std::ops::ControlFlow|std::result::Result|std::option::Option)<", ab.locals[src_["l"]]["ty"]):
                    # the payload of an Ok / Some / Continue wrapper (a helper's `Result<Vec<u8>, _>` unwrapped with `?`)
                    return storage({"c": {"l": src_["l"], "p": []}}, depth + 1)
                return storage(rv["a"], depth + 1) if op_place(rv["a"]) else pl["l"]
            if rv.get("k") == "agg" and rv.get("variant") in ("Ok", "Some", "Continue") and len(rv.get("ops", [])) == 1 and op_place(rv["ops"][0]):
                return storage(rv["ops"][0], depth + 1)
            if rv.get("k") in ("ref", "rawptr"):
                # a borrow of a local views that local's storage; a moved-in value keeps the storage it was created with
                return storage({"c": {"l": rv["p"]["l"], "p": []}}, depth + 1)
            if rv.get("k") == "cast":
                return storage(rv["a"], depth + 1)
        if kind == "call" and ((x.get("res") or "").endswith(VIEW) or (x.get("res") or "").endswith("Try>::branch")) and x["args"]:
            return storage(x["args"][0], depth + 1)
        return pl["l"]

    ok = appended = False
    written = set()
    for _bi, t in cs:
        d = derive(ix, t["args"][1])
        written.add(storage(t["args"][1]))
        if any("read_data_block_patch" in c for c in d.calls):
            ok = appended = True
    for bi in regions.get(("Sqpk", "FileOperation", "AddFile"), ()):
        t = ab.blocks[bi]["t"]
        if t["k"] == "call" and (t.get("res") or "").endswith(GROW) and len(t["args"]) == 2:
            d1 = derive(ix, t["args"][1])
            if any("read_data_block_patch" in c for c in d1.calls):
                appended = True
                if storage(t["args"][0]) in written - {None}:
                    ok = True
                elif os.environ.get("PV_DEBUG"):
                    print("DEBUG payload", storage(t["args"][0]), written)
    ctx.ob("PROV", "AddFile|payload", ok and appended, f"AddFile writes the buffer ({ok}) that is filled from read_data_block_patch ({appended})", ab.file, ab.line)
    # loop bound: data.len() < fop.file_size
    fs_ok = False
    for bi in regions.get(("Sqpk", "FileOperation", "AddFile"), ()):
        for s in ab.blocks[bi]["s"]:
            rv = s.get("rv", {})
            if rv.get("k") == "bin" and rv["op"] in ("Lt", "Ge", "Le", "Gt"):
                da, db = derive(ix, rv["a"]), derive(ix, rv["b"])
                if "file_size" in (da.names | db.names) and any(c.endswith("::len") for c in da.calls | db.calls):
                    fs_ok = True
    ctx.ob("PROV", "AddFile|length", fs_ok, "AddFile reads blocks until data.len() reaches fop.file_size", ab.file, ab.line)
    # set_len(0) under offset == 0
    ok = False
    for bi, t in calls_in(("Sqpk", "FileOperation", "AddFile"), "set_len"):
        zero = const_int(t["args"][1]) == 0 if len(t["args"]) > 1 else False

        def pred(bb):
            idom = ab.idom()
            cur = bb
            while cur in idom and idom[cur] != cur:
                par = idom[cur]
                tt = ab.term(par)
                if tt["k"] == "switch":
                    r = ix.resolve(tt["a"])
                    if r[0] == "rv" and r[1]["k"] == "bin" and r[1]["op"] == "Eq":
                        d = derive(ix, r[1]["a"]).names | derive(ix, r[1]["b"]).names
                        cs_ = {const_int(r[1]["a"]), const_int(r[1]["b"])}
                        if "offset" in d and 0 in cs_:
                            # bb must be on the true edge
                            true_t = tt["else"] if [a for a in tt["arms"] if a[0] == "0"] else None
                            return true_t is not None and ab.dominates(true_t, bb)
                cur = par
            return False

        ok = zero and pred(bi)
    ctx.ob("PROV", "AddFile|truncate-at-offset-0", ok, "set_len(0) is executed exactly under fop.offset == 0", ab.file, ab.line)
    # HeaderUpdate: seek(1024) on the != Version edge
    hk = main_switch(ab, "patch::TargetHeaderKind")
    ok = False
    det = "no constant seek"
    for bi, t in calls_in(("Sqpk", "HeaderUpdate", None), "seek"):
        r = ix.resolve(t["args"][1])
        if r[0] == "rv" and r[1]["k"] == "agg" and r[1].get("variant") == "Start" and (const_int(r[1]["ops"][0]) == 1024 or ix.resolve(r[1]["ops"][0]) == ("const", 1024)):
            det = "seek(Start(1024)) found"
            # dominated by a branch on `header_kind != Version`: a call to PartialEq::ne / eq with header_kind
            idom = ab.idom()
            cur = bi
            while cur in idom and idom[cur] != cur:
                par = idom[cur]
                tt = ab.term(par)
                if tt["k"] == "switch":
                    rr = ix.resolve(tt["a"])
                    if rr[0] == "call" and ("PartialEq" in (rr[1].get("res") or "")) and "header_kind" in derive(ix, rr[1]["args"][0]).names | derive(ix, rr[1]["args"][1]).names:
                        is_ne = (rr[1]["f"].get("k") or {}).get("fn", "").endswith("::ne")
                        true_t = tt["else"]
                        false_t = dict((a[0], a[1]) for a in tt["arms"]).get("0")
                        taken = true_t if is_ne else false_t
                        ok = taken is not None and ab.dominates(taken, bi)
                cur = par
    if not ok and det != "no constant seek":
        # the same test spelled on the discriminant (`matches!(kind, Version)`, possibly inside a small predicate helper):
        # the seek is reachable from the non-Version arms of a switch on header_kind's discriminant and not from the
        # Version arm
        hkv = {v_["name"]: int(v_["discr"]) for v_ in (prog.adts.get("patch::TargetHeaderKind") or {}).get("variants", [])}
        reg_h = regions.get(("Sqpk", "HeaderUpdate", None), set())
        for bi, t in calls_in(("Sqpk", "HeaderUpdate", None), "seek"):
            r = ix.resolve(t["args"][1])
            if not (r[0] == "rv" and r[1]["k"] == "agg" and r[1].get("variant") == "Start" and ix.resolve(r[1]["ops"][0]) == ("const", 1024)):
                continue
            for sb_ in reg_h:
                tt = ab.term(sb_)
                if tt["k"] != "switch":
                    continue
                rr = ix.resolve(tt["a"])
                if not (rr[0] == "rv" and rr[1]["k"] == "discr" and "header_kind" in derive(ix, {"c": rr[1]["p"]}).names) or "Version" not in hkv:
                    continue

                def reach_wo(start, goal, avoid):
                    seen, todo = set(), [start]
                    while todo:
                        x = todo.pop()
                        if x == goal:
                            return True
                        if x in seen or x == avoid or x not in reg_h:
                            continue
                        seen.add(x)
                        todo += list(ab.succ(x))
                    return False

                arms = {int(v_): tg for v_, tg in tt["arms"]}
                ver_t = arms.get(hkv["Version"], tt.get("else"))
                others = [tg for v_, tg in arms.items() if v_ != hkv["Version"]] + ([tt["else"]] if hkv["Version"] in arms and tt.get("else") is not None else [])
                others = [o_ for o_ in others if isinstance(o_, int) and o_ >= 0 and ab.blocks[o_]["t"]["k"] != "unreachable"]
                if isinstance(ver_t, int) and others and not reach_wo(ver_t, bi, sb_) and all(reach_wo(o_, bi, sb_) for o_ in others):
                    ok = True
    ctx.ob("PROV", "HeaderUpdate|second-kib", ok, f"{det}; it must lie on the header_kind != Version edge (Version overwrites the first KiB, Index/Data the second)", ab.file, ab.line)
    # file paths of FileOperation derive from data_dir and fop.path; RemoveAll from expansion_id
    fp = None
    for l, nm in ab.local_names().items():
        if nm == "file_path":
            fp = l
    ok = False
    if fp is not None:
        d = derive(ix, {"c": {"l": fp, "p": [], "ty": ""}})
        ok = "path" in d.names and 1 in d.params
    ctx.ob("PROV", "FileOperation|path", ok, "file_path = format!(\"{}/{}\", data_dir, fop.path)", ab.file, ab.line)
    cs = calls_in(("Sqpk", "FileOperation", "RemoveAll"), "patch::get_expansion_folder")
    ok = any("expansion_id" in derive(ix, t["args"][0]).names for _bi, t in cs)
    ctx.ob("PROV", "RemoveAll|expansion", ok, "RemoveAll removes sqpack/<expansion folder of fop.expansion_id>", ab.file, ab.line)
    for op, kind in (("DeleteFile", "remove_file"), ("MakeDirTree", "create_dir_all"), ("AddFile", "create_dir_all")):
        cs = calls_in(("Sqpk", "FileOperation", op), kind)
        ok = False
        for _bi, t in cs:
            d = derive(ix, t["args"][0])
            if fp in d.locals:
                ok = True
        ctx.ob("PROV", f"{op}|target", ok, f"{op}: {kind} operates on (the parent of) file_path", ab.file, ab.line, trivial=True)
