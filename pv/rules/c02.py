"""C02 — extraction returns exactly the bytes that were packed.

Decided (the block tables are parsed at the documented positions and the reassembly wires the right members together):
  W1/W5    file-info header, standard/model/texture block tables, block header; FileType codes
  MARKER   raw-block marker: the reader treats x >= 32000 as raw, the writer emits 32000 for raw blocks
  DISPATCH each FileType arm of read_from_offset reaches its own reassembly routine with (offset, file_info)
  STD      standard files: block position = entry offset + header size + block.offset, blocks appended in table order
  TEX      textures: header copied from entry offset + header size with length lods[0].compressed_offset; mip chain
           starts at lods[i].compressed_offset + offset + header size and advances by the i16 size table
  MODEL    member consistency: every (offset.X, num.X) pair handed to the section readers projects the same member X and
           feeds the like-named header field; the synthesized header is written at 0 after the payload starts at 0x44
  BLOCK    read_data_block: deflated blocks inflate compressed_length bytes into decompressed_length bytes, raw blocks
           read file_size bytes; inflate is raw deflate (window bits -15) over the two buffers' own pointers and lengths
  PAIR     after a successful inflateInit2_ every path to a return passes inflateEnd
Not decided: the bytes themselves (inflate correctness, concatenation arithmetic, 128-byte padding, per-LOD bookkeeping).
"""
import json
import re

from .. import dispatch as D
from ..mir import const_int, op_place
from ..prov import derive, index_of
from ..sym import Explorer, N, is_const, show, walk
from ..wrules import model, w1, w5_repr

TECHNIQUE = "static analysis: binrw layout/tag rules vs reference; dispatch facts of the file-type switch; derives-from and member-consistency obligations on the reassembly routines; acquire/release pairing on the CFG of the inflate wrapper; classification of every failure exit of the block reader by its controlling test (dominator walk)"
TRUSTED = ["pv/wire.py binrw model", "spec/layouts.txt (Lumina SqPack structs)", "rustc nightly MIR", "zlib API contract (inflateInit2_/inflate/inflateEnd)"]

TYPES = ["sqpack::data::FileInfo", "sqpack::data::StandardFileBlock", "sqpack::data::Block", "sqpack::data::BlockHeader", "sqpack::data::ModelFileBlock", "sqpack::data::TextureBlock", "sqpack::data::TextureLodBlock"]


def flds(e):
    return {t[2] for t in walk(e) if isinstance(t, tuple) and t[0] == "fld" and isinstance(t[2], str)}


def pair_rule(ctx, body, acquire, release, rule="PAIR"):
    """On the CFG: from the success edge of `acquire`, every path to a return passes a call to `release`."""
    acq = [(bi, t) for bi, t in body.calls() if (t.get("res") or "").endswith(acquire)]
    rel = {bi for bi, t in body.calls() if (t.get("res") or "").endswith(release)}
    if len(acq) != 1:
        ctx.fail_closed(rule, f"{body.name}: expected one call to {acquire}, found {len(acq)}")
        return
    abi, at = acq[0]
    # success edge: the branch on `ret != Z_OK` (switch on a comparison of the result) - take the edge that does not return immediately
    start = at["t"]
    # walk forward avoiding release blocks; if a return is reachable without passing release -> violation,
    # except through the failure edge of the init check (first switch after the acquire)
    first_sw = None
    cur = start
    seen = set()
    while cur not in seen:
        seen.add(cur)
        t = body.term(cur)
        if t["k"] == "switch":
            first_sw = cur
            break
        s = body.succ(cur)
        if len(s) != 1:
            break
        cur = s[0]
    if first_sw is None:
        ctx.fail_closed(rule, f"{body.name}: no check of the {acquire} result found")
        return
    t = body.term(first_sw)
    # failure edge = the successor from which a return is reachable without any further call
    succs = body.succ(first_sw)

    def returns_without_calls(b0):
        seen_, work = set(), [b0]
        while work:
            x = work.pop()
            if x in seen_:
                continue
            seen_.add(x)
            tt = body.term(x)
            if tt["k"] == "call":
                return False
            if tt["k"] == "return":
                continue
            work.extend(body.succ(x))
        return True

    ok_edges = [s for s in succs if not returns_without_calls(s)]
    if len(ok_edges) != 1:
        ctx.fail_closed(rule, f"{body.name}: could not identify the success edge of the {acquire} check")
        return
    # from the success edge, search a path to return avoiding release blocks
    seen_, work = set(), [ok_edges[0]]
    leak_at = None
    while work:
        x = work.pop()
        if x in seen_ or x in rel:
            continue
        seen_.add(x)
        tt = body.term(x)
        if tt["k"] == "return":
            leak_at = x
            break
        work.extend(body.succ(x))
    ctx.ob(rule, f"{body.name.split('::')[-1]}|{release}", leak_at is None, f"{body.name}: after a successful {acquire} " + ("every path to a return passes {}".format(release) if leak_at is None else f"a return (bb{leak_at}) is reachable without {release}: the stream state leaks on that exit"), body.file, body.line, sample=True)


IO_CALLS = ("seek", "read", "read_exact", "read_le", "read_be", "read_options", "stream_position", "read_to_end", "read_args", "read_le_args")


def failure_causes(body):
    """For every block that produces the function's failure value (a `None` / `Err` for the return place, directly or
    through the `?` residual conversion): what decided to take it - ('io', callee) when the controlling test is the
    result of a read / seek / parse, ('inflate', ..) for the decompressor's verdict, ('option', callee) for a
    get/first/checked_* that came back empty, ('value', detail) when it is a comparison on data."""
    from ..prov import derive, index_of

    ix = index_of(body)
    idom = body.idom()
    out = []
    for bi, blk in enumerate(body.blocks):
        if blk["cleanup"] or bi not in body.reachable():
            continue
        fails = False
        t = blk["t"]
        if t["k"] == "call" and "from_residual" in (t.get("res") or "") and t.get("dest") and t["dest"]["l"] == 0:
            fails = True
        for st in blk["s"]:
            rv = st.get("rv") or {}
            if st["k"] == "assign" and st["lhs"]["l"] == 0 and not st["lhs"]["p"] and rv.get("k") == "agg" and rv.get("variant") in ("None", "Err"):
                fails = True
        if not fails:
            continue
        # nearest dominating switch that separates this block from a sibling path
        cur = bi
        cause = ("value", "no controlling test found")
        while cur in idom and idom[cur] != cur:
            par = idom[cur]
            tt = body.blocks[par]["t"]
            if tt["k"] == "switch":
                targets = {tg for _v, tg in tt["arms"]} | ({tt["else"]} if isinstance(tt.get("else"), int) and tt["else"] >= 0 else set())
                targets = {x for x in targets if body.blocks[x]["t"]["k"] != "unreachable"}
                if len(targets) > 1 and any(body.dominates(x, bi) for x in targets) and not all(body.dominates(x, bi) for x in targets):
                    r = ix.resolve(tt["a"])
                    d = derive(ix, tt["a"])
                    lasts = {c_.split("::")[-1] for c_ in d.calls}
                    if r[0] == "rv" and r[1]["k"] == "discr":
                        src = derive(ix, {"c": r[1]["p"]})
                        sl = {c_.split("::")[-1] for c_ in src.calls}
                        if sl & set(IO_CALLS):
                            cause = ("io", sorted(sl & set(IO_CALLS))[0])
                        elif sl & {"get", "first", "last", "checked_sub", "checked_add", "checked_mul", "try_into", "try_from", "get_mut"}:
                            cause = ("option", sorted(sl)[0])
                        elif any(n_ in ("compression",) for n_ in src.names) and not sl:
                            cur = par
                            continue  # the match on the block kind itself: look further up
                        else:
                            cause = ("value", f"test on {sorted(src.names)[:3]} via {sorted(sl)[:3]}")
                    elif r[0] == "call" and ix.callee(r[1]).endswith("no_header_decompress"):
                        cause = ("inflate", "no_header_decompress")
                    elif r[0] == "call" and ix.callee(r[1]).split("::")[-1] in ("is_err", "is_ok", "is_none", "is_some") and r[1]["args"]:
                        # `if x.seek(..).is_err() { return None }` is `x.seek(..).ok()?`
                        src = derive(ix, r[1]["args"][0])
                        sl = {c_.split("::")[-1] for c_ in src.calls}
                        if sl & set(IO_CALLS):
                            cause = ("io", sorted(sl & set(IO_CALLS))[0])
                        elif sl & {"get", "first", "last", "checked_sub", "checked_add", "checked_mul", "try_into", "try_from", "get_mut"}:
                            cause = ("option", sorted(sl)[0])
                        else:
                            cause = ("value", f"{ix.callee(r[1]).split('::')[-1]} of {sorted(sl)[:3]}")
                    elif "no_header_decompress" in lasts and not (d.ops & {"Lt", "Le", "Gt", "Ge", "Eq", "Ne"}):
                        cause = ("inflate", "no_header_decompress")
                    else:
                        cause = ("value", f"{sorted(d.ops)[:3]} on {sorted(d.names)[:3]} via {sorted(lasts)[:3]}")
                    break
            cur = par
        out.append((bi, cause))
    return out


def run(ctx):
    prog = ctx.prog
    wm = model(ctx)
    ctx.decided("dat file-info / block table / block header layouts and FileType codes (W1/W5)")
    ctx.decided("raw-block marker 32000 on both sides (MARKER)")
    ctx.decided("file-type dispatch, standard/texture/model reassembly wiring, member consistency of the model sections (DISPATCH/STD/TEX/MODEL)")
    ctx.decided("the block reader fails only on failed reads / seeks / inflation, never on header values (REJECT)")
    ctx.decided("block reader buffer sizes, raw-deflate parameters, inflateEnd on all exits (BLOCK/PAIR)")
    ctx.not_decided("the reassembled bytes themselves: inflate correctness, concatenation arithmetic, padding, per-LOD offsets")

    n = w1(ctx, TYPES)
    # which tail record follows the file-info header is decided by the entry type: the three optional records are
    # read exactly under `file_type == Standard / Model / Texture` (the wire model records *that* a field is conditional;
    # this reads the condition itself, in the spellings `a == T::V`, `T::V == a`, `matches!(a, T::V)`)
    from .. import wire as _W

    fi_ = wm.items.by_path.get("sqpack::data::FileInfo")
    if not fi_:
        ctx.fail_closed("W1", "sqpack::data::FileInfo not found")
    else:
        want_c = {"standard_info": "Standard", "model_info": "Model", "texture_info": "Texture"}
        for f_ in fi_["fields"]:
            if f_["name"] not in want_c:
                continue
            conds = [d_.text.replace(" ", "") for d_ in _W.directives(f_["attrs"]) if d_.name == "if" and "r" in d_.side]
            v_ = want_c[f_["name"]]
            forms = {f"file_type==FileType::{v_}", f"FileType::{v_}==file_type", f"matches!(file_type,FileType::{v_})", f"(file_type==FileType::{v_})"}
            known = any(re.fullmatch(r"\(?(file_type==FileType::\w+|FileType::\w+==file_type|matches!\(file_type,FileType::\w+\))\)?", c_) for c_ in conds)
            if len(conds) == 1 and not known:
                ctx.fail_closed("W1", f"FileInfo.{f_['name']}: condition `{conds[0]}` is not in a form this rule reads")
            else:
                ctx.ob("W1", f"cond|FileInfo.{f_['name']}", len(conds) == 1 and conds[0] in forms, f"FileInfo.{f_['name']} is read under {conds}; must be exactly when file_type is FileType::{v_}", fi_["file"], fi_["line"])
    ctx.floor("W1", "dat structures", n, 7)
    w5_repr(ctx, "sqpack::data::FileType", {"Empty": 1, "Standard": 2, "Model": 3, "Texture": 4})
    from .. import wire as W

    # ---- MARKER (on the MIR, so that naming the literal or re-spelling the comparison changes nothing)
    from .. import panic as P

    rdr = [b for n_, b in prog.bodies.items() if n_.startswith("<sqpack::data::CompressionMode as binrw::BinRead>::read_options") and any(st["k"] == "assign" and st["rv"]["k"] == "agg" and st["rv"].get("variant") == "Compressed" for _b, _s, st in b.stmts())]
    wb = prog.body("<sqpack::data::BlockHeader as binrw::BinWrite>::write_options")
    if len(rdr) != 1 or not wb:
        ctx.fail_closed("MARKER", "CompressionMode map closure / BlockHeader writer not found")
    else:
        rb_ = rdr[0]
        rix = P.BodyIndex(rb_)
        thr = {}

        def threshold_pred(which):
            def pred(dop, val, par):
                r = rix.resolve(dop)
                if not (r[0] == "rv" and r[1]["k"] == "bin" and r[1]["op"] in ("Lt", "Le", "Gt", "Ge")):
                    return False
                a, b = rix.resolve(r[1]["a"]), rix.resolve(r[1]["b"])
                op_ = r[1]["op"]
                if a[0] == "const" and b[0] != "const":  # c OP x  ->  x OP' c
                    a, b = b, a
                    op_ = {"Lt": "Gt", "Le": "Ge", "Gt": "Lt", "Ge": "Le"}[op_]
                if b[0] != "const":
                    return False
                c = b[1]
                is_true = val == 1 or (isinstance(val, tuple) and val[0] == "not" and val[1] == (0,))
                if not is_true and val != 0:
                    return False
                # the set of x on this edge is  x < t  (below=True)  or  x >= t
                t, below = {"Lt": (c, True), "Le": (c + 1, True), "Ge": (c, False), "Gt": (c + 1, False)}[op_]
                if not is_true:
                    below = not below
                thr[which] = (t, below)
                return True

            return pred

        for bi, si, st in rb_.stmts():
            if st["k"] == "assign" and st["rv"]["k"] == "agg" and st["rv"].get("variant") in ("Compressed", "Uncompressed"):
                P.guard_dominates(rix, bi, threshold_pred(st["rv"]["variant"]))
        ok_r = thr.get("Compressed") == (32000, True) and thr.get("Uncompressed") == (32000, False)
        # wiring of the two words
        wires = {}
        for bi, si, st in rb_.stmts():
            if st["k"] == "assign" and st["rv"]["k"] == "agg" and st["rv"].get("variant") in ("Compressed", "Uncompressed"):
                for nm, o in zip(st["rv"]["fields"], st["rv"]["ops"]):
                    wires[nm] = frozenset(pth[-1] for pth in derive(index_of(rb_), o).paths if pth)
        cmp_src = set()
        t0 = rb_.term(0) if rb_.blocks else None
        for bi, si, st in rb_.stmts():
            if st["k"] == "assign" and st["rv"]["k"] == "bin" and st["rv"]["op"] in ("Lt", "Le", "Gt", "Ge"):
                for o in (st["rv"]["a"], st["rv"]["b"]):
                    cmp_src |= {pth[-1] for pth in derive(index_of(rb_), o).paths if pth}
        ok_w = len(wires) == 3 and wires.get("compressed_length") == frozenset(cmp_src) and wires.get("decompressed_length") == wires.get("file_size") and wires.get("decompressed_length") != wires.get("compressed_length") and all(len(v) == 1 for v in wires.values())
        ctx.ob("MARKER", "raw-marker", ok_r, f"reader: Compressed on the edge x {'<' if thr.get('Compressed', (0, True))[1] else '>='} {thr.get('Compressed', ('?',))[0]}, Uncompressed on x {'<' if thr.get('Uncompressed', (0, False))[1] else '>='} {thr.get('Uncompressed', ('?',))[0]}; raw blocks are those whose first word is >= 32000", rb_.file, rb_.line, sample=True)
        ctx.ob("MARKER", "reader-words", ok_w, f"reader: compressed_length <- the compared word {sorted(cmp_src)}, decompressed_length and file_size <- the other word ({ {k: sorted(v) for k, v in wires.items()} })", rb_.file, rb_.line)
        # writer: the first word is compressed_length or the constant marker; the second is decompressed_length / file_size
        wix = P.BodyIndex(wb)
        first = second = None
        for l in range(len(wb.j["locals"])):
            defs = [d for d in wix.defs.get(l, []) if d[0] == "assign" and not d[3]["lhs"]["p"]]
            if len(defs) != 2 or wb.j["locals"][l]["ty"] != "i32":
                continue
            kinds = set()
            for d in defs:
                rv = d[3]["rv"]
                c = const_int(rv["a"]) if rv["k"] == "use" else None
                if c is not None:
                    kinds.add(("const", c))
                elif rv["k"] == "use":
                    kinds.add(("field", P.source_name(wix, rv["a"])))
            if ("field", "compressed_length") in kinds:
                first = kinds
            if ("field", "decompressed_length") in kinds:
                second = kinds
        ctx.ob("MARKER", "writer-marker", first == {("field", "compressed_length"), ("const", 32000)}, f"writer: the first word is {sorted(map(str, first or []))}; raw blocks must carry 32000 there", wb.file, wb.line)
        ctx.ob("MARKER", "second-word", second == {("field", "decompressed_length"), ("field", "file_size")}, f"writer: the second word is {sorted(map(str, second or []))}", wb.file, wb.line, trivial=True)

    # ---- DISPATCH
    rb = prog.body("sqpack::data::SqPackData::read_from_offset")
    if not rb:
        ctx.fail_closed("DISPATCH", "SqPackData::read_from_offset not found")
    else:
        ft = {int(v["discr"]): v["name"] for v in prog.adts["sqpack::data::FileType"]["variants"]}
        sw = D.discr_switches(rb, "sqpack::data::FileType")
        want = {"Standard": "read_standard_file", "Model": "read_model_file", "Texture": "read_texture_file", "Empty": None}
        if not sw:
            ctx.fail_closed("DISPATCH", "file-type switch not found")
        else:
            _bi, _pl, arms, _o = max(sw, key=lambda s: len(s[2]))
            ix = index_of(rb)
            for v, tgt in arms.items():
                reg = D.region(rb, tgt)
                calls = [(t.get("res") or "") for bi in reg for t in [rb.blocks[bi]["t"]] if t["k"] == "call" and "read_" in (t.get("res") or "") and "SqPackData" in (t.get("res") or "")]
                names = [c.split("::")[-1] for c in calls]
                w_ = want.get(ft.get(v))
                ok = names == ([w_] if w_ else [])
                if w_:
                    for bi in reg:
                        t = rb.blocks[bi]["t"]
                        if t["k"] == "call" and (t.get("res") or "").endswith(w_):
                            d1 = derive(ix, t["args"][1])
                            ok = ok and 2 in d1.params
                ctx.ob("DISPATCH", ft.get(v, str(v)), ok, f"FileType::{ft.get(v)} is handled by {names}; must be {[w_] if w_ else 'nothing (None)'} with the entry offset", rb.file, rb.line, sample=(ft.get(v) == "Model"))
            # seek to the entry offset before reading the header
            seek_ok = any((t.get("res") or "").endswith("Seek>::seek") and 2 in derive(ix, t["args"][1]).params for _bi, t in rb.calls())
            ctx.ob("DISPATCH", "seek-to-entry", seek_ok, "the file-info header is read at the entry offset", rb.file, rb.line)

    # ---- STD
    sb = prog.body("sqpack::data::SqPackData::read_standard_file")
    if not sb:
        ctx.fail_closed("STD", "read_standard_file not found")
    else:
        # position of each block read = entry offset + file_info.size + <element of the block table>.offset, the
        # elements being visited in table order: either blocks[i] with i the loop counter, or forward iteration over
        # the table (both spellings are the same behaviour)
        ix = index_of(sb)
        tbl = [i for i, l in enumerate(sb.j["locals"]) if l["ty"].replace(" ", "") == "std::vec::Vec<sqpack::data::Block>"]
        ok = order = False
        det = ""
        for _bi, t in sb.calls():
            c = t.get("res") or ""
            if "sqpack::read_data_block" in c and len(t["args"]) == 2:
                d = derive(ix, t["args"][1])
                calls = {x.split("::")[-1] for x in d.calls}
                det = f"fields {sorted(d.names & {'size', 'offset', 'file_size'})}, params {sorted(d.params)}, calls {sorted(calls)}"
                from_table = bool(tbl) and any(l in d.locals for l in tbl)
                from ..loops import stepped_up_counters

                by_index = ("index" in calls or "get" in calls or any(x.endswith("::index") for x in d.calls)) and ("next" in calls or bool(stepped_up_counters(sb) & d.locals))
                by_iter = "next" in calls and ({"into_iter", "iter"} & calls)
                ok = 2 in d.params and {"size", "offset"} <= d.names and from_table and bool(by_index or by_iter)
                order = from_table and bool(by_index or by_iter) and not ({"rev", "next_back", "rposition", "last"} & calls)
        closure_form = False
        if not ok:
            # the per-block body written as a closure driven by the table's forward iterator (for_each / try_for_each /
            # map): the position is the captured start (entry offset + header size) plus the element's offset
            for _bi, t in sb.calls():
                last_ = (t.get("res") or "").split("::")[-1]
                if last_ not in ("try_for_each", "for_each", "map", "try_fold") or len(t["args"]) < 2:
                    continue
                k_ = ix.resolve(t["args"][-1])
                if not (k_[0] == "rv" and k_[1]["k"] == "agg" and k_[1].get("ak") == "closure"):
                    continue
                recv = derive(ix, t["args"][0])
                rc = {x.split("::")[-1] for x in recv.calls}
                from_table = bool(tbl) and any(l in recv.locals for l in tbl)
                forward = bool({"iter", "into_iter"} & rc) and not ({"rev", "skip", "step_by", "filter", "take", "rposition", "last", "next_back"} & rc)
                cb_ = prog.body(k_[1]["closure"])
                if cb_ is None:
                    continue
                cix_ = index_of(cb_)
                for _b2, t2 in cb_.calls():
                    if "sqpack::read_data_block" in (t2.get("res") or "") and len(t2["args"]) == 2:
                        d2 = derive(cix_, t2["args"][1])
                        det = f"fields {sorted(d2.names & {'size', 'offset', 'file_size'})}, closure element + captured {sorted(d2.outer_params)}"
                        if 2 in d2.outer_params and {"size", "offset"} <= d2.names and 2 in d2.params and from_table and forward and "Add" in d2.ops:
                            ok = order = closure_form = True
        ctx.ob("STD", "block-position", ok, f"standard blocks are read at a position derived from {det}; must be entry offset + file_info.size + the block table element's offset", sb.file, sb.line, sample=True)
        cnt_ok = False
        for _bi, _si, s in sb.stmts():
            rv = s.get("rv", {})
            if rv.get("k") == "agg" and rv.get("adt", "").endswith("ops::Range"):
                if "num_blocks" in derive(ix, rv["ops"][1]).names:
                    cnt_ok = True
        ctx.ob("STD", "block-count", cnt_ok, "the block table is read for standard_info.num_blocks entries", sb.file, sb.line)
        app = any((t.get("res") or "").endswith("::append") for b_ in prog.deep_bodies(sb.name) for _bi, t in b_.calls())
        ctx.ob("STD", "table-order", app and order, "blocks are appended in table order (loop counter index or forward iteration over the table)", sb.file, sb.line)

    # ---- POS: every absolute position the three section readers hand to `seek(SeekFrom::Start(..))` on the dat file or
    # to read_data_block is a *sum* of the entry offset, the header size and table values (no subtraction, scaling or
    # shift: a position before the entry or a scaled offset reads someone else's blocks); the model reader walks its
    # block-size table with a counter that starts at 0 and advances by exactly one per block read, and every block it
    # reads is written to the output before the next one is read
    n_pos = 0
    for fn_ in ("read_standard_file", "read_model_file", "read_texture_file"):
        pb_ = prog.body("sqpack::data::SqPackData::" + fn_)
        if not pb_:
            ctx.fail_closed("POS", f"{fn_} not found")
            continue
        pix = index_of(pb_)
        for bi_, t_ in pb_.calls():
            c_ = t_.get("res") or ""
            last_ = c_.split("::")[-1]
            if not ((last_ == "seek" and len(t_["args"]) == 2) or ("sqpack::read_data_block" in c_ and len(t_["args"]) == 2)):
                continue
            if "file" not in derive(pix, t_["args"][0]).names:
                continue  # a seek in the output buffer
            d_ = derive(pix, t_["args"][1])
            if last_ == "seek" and not any("SeekFrom" in str(x) for x in d_.names | d_.calls | {str(pix.resolve(t_["args"][1]))}) and not d_.ops and not d_.params:
                continue
            n_pos += 1
            bad_ops = sorted(d_.ops - {"Add", "AddWithOverflow", "AddUnchecked"}) + sorted({c2.split("::")[-1] for c2 in d_.calls if "std::ops::" in c2 and c2.split("::")[-1] in ("sub", "mul", "div", "rem", "shl", "shr", "neg", "not", "bitand", "bitor", "bitxor")})
            ctx.ob("POS", f"{fn_}|sum-only", not bad_ops, f"{fn_}: a dat-file position ({last_} at {t_['sp']['at']}) is computed with {sorted(d_.ops)} from {sorted(d_.names & {'offset', 'size', 'stack_size', 'runtime_size', 'vertex_buffer_size', 'index_buffer_size', 'compressed_offset'})}; positions are sums of the entry offset, the header size and table values" + (f"; NOT A SUM: {bad_ops}" if bad_ops else ""), pb_.file, pb_.line, sample=(n_pos == 1))
    ctx.floor("POS", "dat-file positions examined in the three section readers", n_pos, 14)
    mb_ = prog.body("sqpack::data::SqPackData::read_model_file")
    if mb_:
        mix_ = index_of(mb_)
        n_idx = 0
        for bi_, t_ in mb_.calls():
            if (t_.get("res") or "").split("::")[-1] == "get" and len(t_["args"]) == 2 and any("Vec<u16>" in str(mb_.locals[l_].get("ty", "")).replace("std::vec::", "") for l_ in derive(mix_, t_["args"][0]).locals if l_ < len(mb_.locals)):
                d_ = derive(mix_, t_["args"][1])
                n_idx += 1
                ok_ = d_.ops <= {"Add", "AddWithOverflow"} and d_.consts <= {0, 1} and 0 in d_.consts
                ctx.ob("POS", "model|block-table-counter", ok_, f"the block-size table index is computed with {sorted(d_.ops)} from constants {sorted(d_.consts)}; it must start at 0 and only ever be advanced by additions", mb_.file, mb_.line, sample=(n_idx == 1))
        ctx.floor("POS", "block-size table lookups in read_model_file", n_idx, 4)
        # the counter is captured by reference by the two section closures, so its updates are stores through the
        # captured reference: every constant self-increment of a usize place in the (inlined) reader is `+ 1`
        incs = []
        for _bi, _si, st_ in mb_.stmts():
            rv_ = st_.get("rv") or {}
            if st_["k"] == "assign" and rv_.get("k") == "bin" and rv_["op"] in ("Add", "AddWithOverflow", "Sub", "SubWithOverflow", "Mul", "MulWithOverflow"):
                kb_ = (rv_["b"].get("k") if isinstance(rv_["b"], dict) else None) or {}
                src_ = rv_["a"].get("c") or rv_["a"].get("m") or {}
                if "bits" in kb_ and str(src_.get("ty", "")) == "usize" and not (st_.get("sp") or {}).get("mx"):
                    # a self-update: the result (field 0 of the checked pair, or the value itself) is stored back into
                    # the place it was read from
                    tl_ = st_["lhs"]["l"]

                    def _canon(pl_):
                        # a place reached through a temporary copy of a reference names the referent's slot
                        whole_ = [d4 for d4 in mix_.defs.get(pl_.get("l"), []) if not (d4[0] == "assign" and d4[3]["lhs"].get("p"))]
                        dts_ = [d4 for d4 in whole_ if d4[0] == "assign" and d4[3]["rv"].get("k") == "use"]
                        srcs_ = {json.dumps(d4[3]["rv"]["a"].get("c") or d4[3]["rv"]["a"].get("m"), sort_keys=True) for d4 in dts_}
                        if pl_.get("p") and pl_["p"][0] == "*" and dts_ and len(dts_) == len(whole_) and len(srcs_) == 1:
                            q_ = json.loads(next(iter(srcs_)))
                            if q_:
                                return (q_["l"], json.dumps(q_["p"]) + json.dumps(pl_["p"][1:]))
                        return (pl_.get("l"), json.dumps(pl_.get("p")))

                    back = _canon(st_["lhs"]) == _canon(src_)
                    for _b2, _s2, st2 in mb_.stmts():
                        rv2 = st2.get("rv") or {}
                        o2 = (rv2.get("a") or {}) if rv2.get("k") == "use" else {}
                        pl2 = o2.get("m") or o2.get("c") or {}
                        if st2["k"] == "assign" and pl2.get("l") == tl_ and _canon(st2["lhs"]) == _canon(src_):
                            back = True
                    if back:
                        incs.append((rv_["op"], int(str(kb_["bits"]), 0), st_["sp"]["at"]))
        # ... and starts at 0: follow the captured reference back to the variable the closures share
        def _chase(op_, depth=0):
            """operand/place -> the local variable a (copied, reborrowed, captured) reference finally points to"""
            pl_ = op_.get("c") or op_.get("m") or op_ if isinstance(op_, dict) else None
            if not isinstance(pl_, dict) or "l" not in pl_ or depth > 12:
                return None
            prj = [x for x in pl_.get("p", []) if x != "*"]
            whole_ = [d4 for d4 in mix_.defs.get(pl_["l"], []) if d4[0] == "assign" and not d4[3]["lhs"].get("p")]
            if len(whole_) != 1:
                return pl_["l"] if not prj else None
            rv4 = whole_[0][3]["rv"]
            if prj and isinstance(prj[0], dict) and "f" in prj[0]:
                if rv4.get("k") == "agg" and rv4.get("ak") == "closure" and prj[0]["f"] < len(rv4["ops"]):
                    return _chase(rv4["ops"][prj[0]["f"]], depth + 1)
                if rv4.get("k") in ("use", "ref"):
                    q4 = rv4.get("p") if rv4.get("k") == "ref" else (rv4["a"].get("c") or rv4["a"].get("m"))
                    if q4:
                        return _chase({"c": {"l": q4["l"], "p": list(q4.get("p", [])) + prj}}, depth + 1)
                return None
            if rv4.get("k") == "ref":
                q4 = rv4["p"]
                return _chase({"c": q4}, depth + 1) if [x for x in q4.get("p", []) if x != "*"] or mix_.defs.get(q4["l"]) and str(mb_.locals[q4["l"]].get("ty", "")).startswith("&") else q4["l"]
            if rv4.get("k") == "use" and (rv4["a"].get("c") or rv4["a"].get("m")) and str(mb_.locals[pl_["l"]].get("ty", "")).startswith("&"):
                return _chase(rv4["a"], depth + 1)
            return pl_["l"]

        starts = set()
        for _bi, _si, st_ in mb_.stmts():
            rv_ = st_.get("rv") or {}
            if st_["k"] == "assign" and rv_.get("k") == "bin" and rv_["op"] in ("Add", "AddWithOverflow") and not (st_.get("sp") or {}).get("mx"):
                kb_ = (rv_["b"].get("k") if isinstance(rv_["b"], dict) else None) or {}
                src_ = rv_["a"].get("c") or rv_["a"].get("m") or {}
                if "bits" in kb_ and str(src_.get("ty", "")) == "usize" and src_.get("p") and src_["p"][0] == "*":
                    var_ = _chase({"c": {"l": src_["l"], "p": []}})
                    if var_ is not None:
                        for d4 in mix_.defs.get(var_, []):
                            if d4[0] == "assign" and not d4[3]["lhs"].get("p") and d4[3]["rv"].get("k") == "use":
                                c4 = const_int(d4[3]["rv"]["a"])
                                starts.add(c4 if c4 is not None else "?")
        if not starts:
            # the counter kept as a field of a reader-state struct: its initial value is the operand of that field in
            # the struct literal
            inc_fields = set()
            for _bi, _si, st_ in mb_.stmts():
                rv_ = st_.get("rv") or {}
                if st_["k"] == "assign" and rv_.get("k") == "bin" and rv_["op"] in ("Add", "AddWithOverflow"):
                    src_ = rv_["a"].get("c") or rv_["a"].get("m") or {}
                    kb_ = (rv_["b"].get("k") if isinstance(rv_["b"], dict) else None) or {}
                    if "bits" in kb_ and str(src_.get("ty", "")) == "usize":
                        inc_fields |= {pr_["n"] for pr_ in src_.get("p", []) if isinstance(pr_, dict) and pr_.get("n")}
            for _bi, _si, st_ in mb_.stmts():
                rv_ = st_.get("rv") or {}
                if st_["k"] == "assign" and rv_.get("k") == "agg" and rv_.get("ak") == "adt" and rv_.get("fields"):
                    for fi_, fn2 in enumerate(rv_["fields"]):
                        if fn2 in inc_fields and fi_ < len(rv_["ops"]):
                            c4 = const_int(rv_["ops"][fi_])
                            starts.add(c4 if c4 is not None else "?")
        if not starts:
            ctx.note("POS model|block-table-start: the counter's initialisation could not be traced in this form; not judged")
        ctx.ob("POS", "model|block-table-start", starts == {0} or not starts, f"initial value(s) of the block counter shared by the section closures: {sorted(map(str, starts))}; the first block of the stack section is entry 0 of the block-size table", mb_.file, mb_.line)
        ctx.ob("POS", "model|block-table-step", len(incs) >= 2 and all(op_.startswith("Add") and c_ == 1 for op_, c_, _at in incs), f"constant updates of usize counters in read_model_file: {incs}; the block counter advances by exactly 1 after every block read", mb_.file, mb_.line)
        n_rw = 0
        reads_ = [(bi_, t_) for bi_, t_ in mb_.calls() if "sqpack::read_data_block" in (t_.get("res") or "")]
        writes_ = [(bi_, t_) for bi_, t_ in mb_.calls() if (t_.get("res") or "").split("::")[-1] == "write_all"]
        seeks_ = [(bi_, t_) for bi_, t_ in mb_.calls() if (t_.get("res") or "").split("::")[-1] == "seek" and "get" in {x.split("::")[-1] for x in derive(mix_, t_["args"][1]).calls}]
        for rb_, rt_ in reads_:
            n_rw += 1
            # the write of this block: a write_all dominated by the read whose data derives from the read's result, and
            # which dominates the seek to the next block
            ok_ = False
            for wb_, wt_ in writes_:
                if mb_.dominates(rb_, wb_) and rb_ != wb_ and "read_data_block" in {x.split("::")[-1] for x in derive(mix_, wt_["args"][1]).calls}:
                    if any(mb_.dominates(wb_, sb2) for sb2, _st in seeks_ if mb_.dominates(rb_, sb2)):
                        ok_ = True
            ctx.ob("POS", "model|block-written", ok_, f"a block read in read_model_file (block {rb_}) is written to the output before the reader moves to the next block: {ok_}", mb_.file, mb_.line, sample=(n_rw == 1))
        ctx.floor("POS", "block reads in read_model_file", n_rw, 4)

    # ---- TEX
    tb = prog.body("sqpack::data::SqPackData::read_texture_file")
    if not tb:
        ctx.fail_closed("TEX", "read_texture_file not found")
    else:
        hdr_seek = hdr_len = chain = adv = False
        for p in Explorer(tb).explore():
            for (_bb, callee, args, _r) in p.events:
                last = callee.split("::")[-1]
                if last == "seek" and len(args) == 2:
                    e = N(args[1])
                    if "size" in flds(e) and any(t == ("v", 2) for t in walk(e)) and "compressed_offset" not in flds(e):
                        hdr_seek = True
                if last == "from_elem" and len(args) == 2 and "compressed_offset" in flds(args[1]):
                    ixs = [t for t in walk(args[1]) if isinstance(t, tuple) and t[0] == "idx" and is_const(N(t[2])) and N(t[2])[1] == 0]
                    hdr_len = bool(ixs)
                if "sqpack::read_data_block" in callee and len(args) == 2:
                    pass
            for l, e in p.env.loc.items():
                if tb.local_names().get(l) == "running_block_total":
                    e = N(e)
                    f_ = flds(e)
                    if {"compressed_offset", "size"} <= f_ and any(t == ("v", 2) for t in walk(e)):
                        chain = True
                    if isinstance(e, tuple) and e[0] == "bin" and e[1] == "Add" and any(isinstance(t, tuple) and t[0] == "call" and "read_le::<i16>" in t[1] or (isinstance(t, tuple) and t[0] == "call" and t[1].endswith("read_le")) for t in walk(e)):
                        adv = True
        tix = index_of(tb)
        # header length = compressed_offset of the first lod, spelled lods[0] or lods.first()
        for _bi, t in tb.calls():
            if (t.get("res") or "").endswith("vec::from_elem") and len(t["args"]) == 2:
                d_ = derive(tix, t["args"][1])
                cl_ = {x.split("::")[-1] for x in d_.calls}
                if {"compressed_offset", "lods"} <= d_.names and (("index" in cl_ and 0 in d_.consts) or "first" in cl_) and not ({"last", "next", "next_back"} & cl_):
                    hdr_len = True
        # the position handed to the block reader: whatever the variable is called, it starts from
        # lods[i].compressed_offset + entry offset + file_info.size
        for _bi, t in tb.calls():
            if "sqpack::read_data_block" in (t.get("res") or "") and len(t["args"]) == 2:
                d_ = derive(tix, t["args"][1])
                if {"compressed_offset", "size", "lods"} <= d_.names and 2 in d_.params:
                    chain = True
        rbt = [l for l, nm in tb.local_names().items() if nm == "running_block_total"]
        if rbt:
            for kind, _bi2, _si2, st in tb.defs().get(rbt[0], []):
                if kind == "assign" and not st["lhs"]["p"]:
                    rv = st["rv"]
                    ops_ = [rv.get("a"), rv.get("b")] if rv["k"] == "bin" else [rv.get("a")]
                    nm_, pr_ = set(), set()
                    for o in ops_:
                        if isinstance(o, dict):
                            d_ = derive(tix, o)
                            nm_ |= d_.names
                            pr_ |= d_.params
                    if {"compressed_offset", "size", "lods"} <= nm_ and 2 in pr_:
                        chain = True
        ctx.ob("TEX", "header-position", hdr_seek, "the texture header is read at entry offset + file_info.size", tb.file, tb.line, sample=True)
        ctx.ob("TEX", "header-length", hdr_len, "the texture header length is lods[0].compressed_offset", tb.file, tb.line)
        ctx.ob("TEX", "mip-chain-start", chain, "mip i starts at lods[i].compressed_offset + entry offset + file_info.size", tb.file, tb.line)
        adv2 = any("read_le" in (t.get("res") or (t["f"].get("k") or {}).get("fn") or "") and (t["f"].get("k") or {}).get("ga", [None])[-1] == "i16" for _bi, t in tb.calls())
        widths = [(t["f"].get("k") or {}).get("ga", [None])[-1] for _bi, t in tb.calls() if "read_le" in (t.get("res") or (t["f"].get("k") or {}).get("fn") or "")]
        adv = False
        # the i16 size entry is consumed once per block read: no way around the loop body from the block read back to
        # itself that avoids the size read
        rd_bb = [bi for bi, t in tb.calls() if "sqpack::read_data_block" in (t.get("res") or "")]
        sz_bb = [bi for bi, t in tb.calls() if "read_le" in (t.get("res") or (t["f"].get("k") or {}).get("fn") or "") and (t["f"].get("k") or {}).get("ga", [None])[-1] == "i16"]
        every = False
        if len(rd_bb) == 1 and len(sz_bb) == 1:
            seen_, work_ = set(), [s_ for s_ in tb.succ(rd_bb[0]) if not tb.blocks[s_]["cleanup"]]
            while work_:
                x_ = work_.pop()
                if x_ in seen_ or x_ == sz_bb[0] or tb.blocks[x_]["cleanup"]:
                    continue
                seen_.add(x_)
                work_.extend(tb.succ(x_))
            every = rd_bb[0] not in seen_ and tb.dominates(rd_bb[0], sz_bb[0])
        ctx.ob("TEX", "size-table-every-block", every, "every block read is followed by exactly one read of its i16 size-table entry before the next block (the table is one cursor shared by all mips)", tb.file, tb.line)
        ctx.ob("TEX", "size-table", adv2 and widths == ["i16"], "the running block position advances by the i16 compressed-size table entries", tb.file, tb.line)

    # ---- MODEL member consistency
    # this rule is about the call sites of the two section-reading closures, so it reads the function as written
    # (raw MIR), not the inlined form
    mb = prog.raw_body("sqpack::data::SqPackData::read_model_file")
    if not mb:
        ctx.fail_closed("MODEL", "read_model_file not found")
    else:
        ix = index_of(mb)
        pairs = []
        for bi, t in sorted(mb.calls()):
            c = t.get("resn") or t.get("res") or ""
            if "read_model_file::{closure" in c and len(t["args"]) == 2:
                tup = ix.resolve(t["args"][1])
                if tup[0] == "rv" and tup[1]["k"] == "agg":
                    ops = tup[1]["ops"]
                    ds = [derive(ix, o) for o in ops]
                    pairs.append((len(ops), ds, t))
            elif c in prog.raw_bodies and c.startswith("sqpack::data::") and len(t["args"]) in (3, 6) and any((t2.get("res") or "").endswith("sqpack::read_data_block") for _b2, t2 in prog.raw_bodies[c].calls()):
                # the same readers written as methods of a state struct: receiver first, then the closure's arguments
                ops = t["args"][1:]
                pairs.append((len(ops), [derive(ix, o) for o in ops], t))
        n_pairs = 0
        members = {"stack_size", "runtime_size", "vertex_buffer_size", "index_buffer_size", "edge_geometry_vertex_buffer_size"}
        seen_members = []
        for n_ops, ds, t in pairs:
            if n_ops == 2:
                # read_model_blocks(offset.X, num.X)
                m0 = ds[0].names & members
                m1 = ds[1].names & members
                ok = len(m0) == 1 and m0 == m1 and "offset" in ds[0].names and "num" in ds[1].names
                n_pairs += 1
                # result feeds the like-named local
                dest_name = None
                dl = t["dest"]["l"]
                for l, nm in mb.local_names().items():
                    d_ = derive(ix, {"c": {"l": l, "p": [], "ty": ""}})
                    if dl in d_.locals and nm in members:
                        dest_name = nm
                ctx.ob("MODEL", f"section|{sorted(m0)}", ok and (dest_name in m0 if dest_name else True), f"read_model_blocks(offset.{sorted(m0)}, num.{sorted(m1)}) -> {dest_name}; offset, count and result must name the same section", mb.file, mb.line, sample=True)
                seen_members.append(tuple(sorted(m0)))
            elif n_ops == 5:
                m1 = ds[1].names & members
                m2 = ds[2].names & members
                ok = len(m1) == 1 and m1 == m2 and "num" in ds[1].names and "offset" in ds[2].names
                kind = "vertex" if "vertex_buffer_size" in m1 else "index"
                out_names = set()
                for d_ in ds[3:]:
                    for l in d_.locals:
                        nm = mb.local_names().get(l)
                        if nm:
                            out_names.add(nm)
                ok = ok and out_names == {f"{kind}_data_offsets", f"{kind}_data_sizes"}
                n_pairs += 1
                ctx.ob("MODEL", f"lod-section|{kind}", ok, f"process_model_data(i, num.{sorted(m1)}[i], offset.{sorted(m2)}[i], {sorted(out_names)}); count, offset and outputs must belong to the {kind} section", mb.file, mb.line)
                seen_members.append(tuple(sorted(m1)))
        ctx.floor("MODEL", "section reader calls", n_pairs, 4)
        ctx.ob("MODEL", "section-order", seen_members[:2] == [("stack_size",), ("runtime_size",)] and seen_members[2:4] == [("vertex_buffer_size",), ("index_buffer_size",)], f"sections are reassembled in the order {seen_members}; must be stack, runtime, then per LOD vertex, index", mb.file, mb.line)
        # header literal: field <- like-named source
        hdr = None
        for _bi, _si, s in mb.stmts():
            rv = s.get("rv", {})
            if rv.get("k") == "agg" and rv.get("adt") == "model::ModelFileHeader":
                hdr = dict(zip(rv["fields"], rv["ops"]))
        if not hdr:
            ctx.fail_closed("MODEL", "no ModelFileHeader literal in read_model_file")
        else:
            want = {"version": "version", "vertex_declaration_count": "vertex_declaration_num", "material_count": "material_num", "lod_count": "num_lods", "index_buffer_streaming_enabled": "index_buffer_streaming_enabled", "has_edge_geometry": "edge_geometry_enabled"}
            for fld, src in want.items():
                d_ = derive(ix, hdr[fld])
                ctx.ob("MODEL", f"header|{fld}", src in d_.names, f"ModelFileHeader.{fld} derives from {sorted(d_.names)}; must be model_info.{src}", mb.file, mb.line, trivial=True)
            wantl = {"stack_size": "stack_size", "runtime_size": "runtime_size", "vertex_offsets": "vertex_data_offsets", "index_offsets": "index_data_offsets", "vertex_buffer_size": "vertex_data_sizes", "index_buffer_size": "index_data_sizes"}
            names = mb.local_names()
            for fld, loc in wantl.items():
                d_ = derive(ix, hdr[fld])
                got = {names.get(l) for l in d_.locals if names.get(l)}
                ctx.ob("MODEL", f"header|{fld}", loc in got and not (got & (set(wantl.values()) - {loc})), f"ModelFileHeader.{fld} is filled from {sorted(got)}; must be `{loc}`", mb.file, mb.line, sample=(fld == "vertex_offsets"))
        seeks = []
        for bi, t in sorted(mb.calls()):
            if (t.get("res") or "").endswith("Seek>::seek") and "Cursor" in (t.get("res") or ""):
                r = ix.resolve(t["args"][1])
                if r[0] == "rv" and r[1]["k"] == "agg" and r[1].get("variant") == "Start":
                    seeks.append(const_int(r[1]["ops"][0]))
        ctx.ob("MODEL", "header-slot", seeks[:1] == [0x44] and 0 in seeks[1:], f"buffer seeks {seeks}; payload must start at 0x44 and the header be written at 0 afterwards", mb.file, mb.line)

    # ---- REJECT: the block reader gives up only when a read, a seek or the decompressor fails - never because of the
    # values in a block header (every size the format allows, incl. a full 16000-byte block, is read)
    rdb = prog.raw_body("sqpack::read_data_block")
    if not rdb:
        ctx.fail_closed("REJECT", "sqpack::read_data_block not found")
    else:
        # together with the crate's own helpers it hands the work to (a payload reader, an inflate wrapper): a helper's
        # failure exits are exits of the block reader
        group, todo = {}, ["sqpack::read_data_block"]
        while todo:
            nm_ = todo.pop()
            hb_ = prog.raw_body(nm_)
            if nm_ in group or hb_ is None or len(group) >= 8:
                continue
            group[nm_] = hb_
            for _bi, t_ in hb_.calls():
                res_ = (t_.get("res") or "").split("::<")[0]
                if res_.startswith("sqpack::") and res_ in prog.raw_bodies and not res_.endswith(("read_data_block_patch",)) and not prog.raw_bodies[res_].user_derived():
                    todo.append(res_)
        causes = [c_ for hb_ in group.values() for c_ in failure_causes(hb_)]
        ctx.floor("REJECT", "failure exits of read_data_block", len(causes), 4)
        bad = [(bi_, c_) for bi_, c_ in causes if c_[0] == "value"]
        ctx.ob("REJECT", "read_data_block|io-only", not bad, f"read_data_block fails on {sorted({c_[0] + ':' + c_[1] for _b, c_ in causes})}" + (f"; value-based rejection: {[c_[1] for _b, c_ in bad]}" if bad else "; no exit rejects a block for its header values"), rdb.file, rdb.line, sample=True)

    # ---- BLOCK
    db = next((b for n_, b in prog.bodies.items() if n_.endswith("sqpack::read_data_block")), None)
    if not db:
        ctx.fail_closed("BLOCK", "sqpack::read_data_block not found")
    else:
        ok_c = ok_r = False
        for p in Explorer(db).explore():
            allocs = []
            for (_bb, callee, args, _r) in p.events:
                last = callee.split("::")[-1]
                if last == "from_elem" and len(args) == 2:
                    allocs.append(flds(args[1]) & {"compressed_length", "decompressed_length", "file_size"})
                if last == "no_header_decompress" and len(args) == 2:
                    a0 = [t for t in walk(args[0]) if isinstance(t, tuple) and t[0] == "call" and t[1].endswith("from_elem")]
                    a1 = [t for t in walk(args[1]) if isinstance(t, tuple) and t[0] == "call" and t[1].endswith("from_elem")]
                    if a0 and a1 and "compressed_length" in flds(a0[0]) and "decompressed_length" in flds(a1[0]) and "decompressed_length" not in flds(a0[0]):
                        ok_c = True
            if allocs == [{"file_size"}]:
                ok_r = True
        ctx.ob("BLOCK", "deflated", ok_c, "deflated blocks: compressed_length bytes are inflated into a decompressed_length buffer", db.file, db.line, sample=True)
        ctx.ob("BLOCK", "raw", ok_r, "raw blocks: file_size bytes are read as they are", db.file, db.line)
    # every buffer a block reader allocates for stored bytes is filled from the stream (read_exact) before it is
    # inflated or returned, and the buffer it returns was written by the read or by the decompressor; the position
    # of the block is an absolute one.  (Both readers: the dat reader and the patch reader of C03/C04.)
    from ..posrule import seeks_from_start_sum_only as _sfs

    n_fill = 0
    for fn_ in ("sqpack::read_data_block", "sqpack::read_data_block_patch"):
        fb_ = next((b for n_, b in prog.bodies.items() if n_.endswith(fn_)), None)
        if not fb_:
            ctx.fail_closed("BLOCK", f"{fn_} not found")
            continue
        fix_ = index_of(fb_)
        allocs_ = [(bi_, t_) for bi_, t_ in fb_.calls() if fix_.callee(t_).split("::")[-1] == "from_elem" and not (t_.get("sp") or {}).get("mx", [])[1:]]
        fills_ = [(bi_, t_) for bi_, t_ in fb_.calls() if fix_.callee(t_).split("::")[-1] in ("read_exact", "no_header_decompress", "read", "read_to_end")]
        for ab_, at_ in allocs_:
            n_fill += 1
            dl_ = at_["dest"]["l"]
            filled = False
            for fb2, ft_ in fills_:
                if not fb_.dominates(ab_, fb2):
                    continue
                outs = ft_["args"][1:]
                if any(dl_ in derive(fix_, o_).locals for o_ in outs):
                    filled = True
            ctx.ob("BLOCK", f"{fn_.split('::')[-1]}|buffer-filled", filled, f"{fn_}: the buffer allocated at {at_['sp']['at']} is written by read_exact / the decompressor before it is used: {filled}", fb_.file, fb_.line, sample=(n_fill == 1))
        if fn_.endswith("read_data_block"):
            _sfs(ctx, "BLOCK", fb_, "read_data_block")
    ctx.floor("BLOCK", "block buffers of the two block readers", n_fill, 6)

    cb = prog.body("compression::no_header_decompress")
    if not cb:
        ctx.fail_closed("BLOCK", "compression::no_header_decompress not found")
    else:
        ix = index_of(cb)
        wb = fl = None
        for _bi, t in cb.calls():
            c = t.get("res") or ""
            if c.endswith("inflateInit2_"):
                wb = const_int(t["args"][1])
            if c.endswith("::inflate"):
                r = ix.resolve(t["args"][1])
                fl = (t["args"][1].get("k") or {}).get("uneval") or (r[1] if r[0] == "const" else None)
        ctx.ob("BLOCK", "raw-deflate", wb == -15, f"inflateInit2_ window bits = {wb}; blocks are raw deflate streams (-15)", cb.file, cb.line)
        ctx.ob("BLOCK", "flush-mode", fl in (0, "libz_rs_sys::Z_NO_FLUSH") or (isinstance(fl, str) and fl.endswith("Z_NO_FLUSH")), f"inflate flush argument = {fl}", cb.file, cb.line, trivial=True)
        # z_stream fields <- the two buffers
        assigns = {}
        for _bi, _si, s in cb.stmts():
            if s["k"] == "assign":
                names = [pr.get("n") for pr in s["lhs"]["p"] if isinstance(pr, dict) and "n" in pr]
                if names and names[-1] in ("next_in", "avail_out", "next_out", "avail_in") and s["rv"]["k"] in ("use", "cast"):
                    assigns[names[-1]] = derive(ix, s["rv"]["a"])
            rv = s.get("rv", {})
            if rv.get("k") == "agg" and rv.get("adt", "").endswith("z_stream"):
                for nm, o in zip(rv["fields"], rv["ops"]):
                    if nm in ("avail_in",):
                        assigns.setdefault(nm, derive(ix, o))
        ok = all(k in assigns for k in ("next_in", "avail_in", "next_out", "avail_out")) and assigns["next_in"].params == {1} and assigns["avail_in"].params == {1} and assigns["next_out"].params == {2} and assigns["avail_out"].params == {2}
        ctx.ob("BLOCK", "stream-buffers", ok, f"z_stream fields derive from parameters {dict((k, sorted(v.params)) for k, v in assigns.items())}; input from in_data, output into out_data", cb.file, cb.line)
        # success iff Z_STREAM_END
        pair_rule(ctx, cb, "inflateInit2_", "inflateEnd")
