"""C11 — the SqexArg cipher is standard Blowfish.

Decided (structural, necessary conditions):
  CONST   BLOWFISH_P / BLOWFISH_S as evaluated by the compiler equal the hex digits of pi computed here
  CONST   ROUNDS = 16, key bytes cycled = 8
  INIT    Blowfish::new builds its state from exactly those two constants
  F       the F function's operator tree is ((S0[x>>24] + S1[x>>16 & 255]) ^ S2[x>>8 & 255]) + S3[x & 255]
  ROUND   encrypt_pair / decrypt_pair loop bodies are two Feistel half-rounds over P[i], P[i+1] (resp. P[i+1], P[i]),
          iterate over 0..16 step 2 (resp. 2..17 step 2 reversed) and finish with (r^P[17], l^P[16]) (resp. P[0], P[1])
  SCHED   key schedule: data = data<<8 | key[j], j wraps at 8, P[i] ^= data for i in 0..18; P and S re-encrypted in
          pairs over (0..18 step 2) and 4 x (0..256 step 2) with the running (l, r)
  BLOCK   encrypt/decrypt walk the padded buffer in steps of 8, take [i..i+4] / [i+4..i+8] as little-endian words
          and emit little-endian words; pad_buffer rounds the length up to a multiple of 8 with zero fill
Not decided: the numeric ciphertext for a given key/message, inverse-ness on all inputs.
"""
from .. import refs
from ..mir import const_int
from ..sym import Explorer, K, flatten, is_const, show, strip_casts, walk

TECHNIQUE = "static analysis: compiler const-eval of the tables vs independently computed pi digits; operator-tree reconstruction (def-use over MIR) of F, the Feistel loop bodies and the key schedule, matched against the Blowfish definition"
TRUSTED = ["rustc nightly MIR and const-eval", "pv.sym expression reconstruction", "Machin-formula pi computation in pv.refs"]

P_PATH = "blowfish::constants::BLOWFISH_P"
S_PATH = "blowfish::constants::BLOWFISH_S"


def words_le(b):
    return [int.from_bytes(b[i : i + 4], "little") for i in range(0, len(b), 4)]


from ..sym import N, fold, nocast  # noqa: E402,F401


def self_field(e, field):
    """e == (*self).<field> ?"""
    return e == ("fld", ("deref", ("p", 1)), field)


def sbox_key(e):
    """S-box lookup -> (box, shift, mask) or None.  e = self.s[box][ix]."""
    if not (isinstance(e, tuple) and e[0] == "idx"):
        return None
    inner, ix = e[1], e[2]
    if not (isinstance(inner, tuple) and inner[0] == "idx" and self_field(inner[1], "s") and is_const(inner[2])):
        return None
    box = inner[2][1]
    ix = strip_casts(ix)
    ix = nocast(fold(ix))
    # usize::from(x.to_be_bytes()[i]) is (x >> (24 - 8 i)) & 0xFF
    while isinstance(ix, tuple) and ix[0] == "call" and ix[1].split("::")[-1] in ("from", "into") and len(ix[2]) == 1:
        ix = ix[2][0]
    if isinstance(ix, tuple) and ix[0] == "idx" and is_const(ix[2]) and isinstance(ix[1], tuple) and ix[1][0] == "call" and ix[1][1].split("::")[-1] in ("to_be_bytes", "to_le_bytes") and ix[1][2] == (("v", 2),) and 0 <= ix[2][1] < 4:
        i_ = ix[2][1]
        return (box, 24 - 8 * i_ if ix[1][1].endswith("to_be_bytes") else 8 * i_, 0xFF)
    mask = None
    if isinstance(ix, tuple) and ix[0] == "bin" and ix[1] == "BitAnd":
        a, b = ix[2], ix[3]
        if is_const(a):
            a, b = b, a
        if not is_const(b):
            return None
        mask = b[1]
        ix = a
    shift = 0
    if isinstance(ix, tuple) and ix[0] == "bin" and ix[1] == "Shr":
        if not is_const(ix[3]):
            return None
        shift = ix[3][1]
        ix = ix[2]
    if ix != ("v", 2):
        return None
    if mask is None:
        # an unmasked index is the full remaining width
        mask = (1 << (32 - shift)) - 1
    return (box, shift, mask)


def run(ctx):
    prog = ctx.prog
    ctx.decided("P-array and S-boxes equal pi digits (all 1042 words)")
    ctx.decided("ROUNDS=16 and 8 key bytes cycled")
    ctx.decided("Blowfish::new starts from the constant tables")
    ctx.decided("F-function operator tree")
    ctx.decided("Feistel loop bodies, iteration ranges and final swaps of encrypt_pair/decrypt_pair")
    ctx.decided("key-schedule structure")
    ctx.decided("8-byte block walk with little-endian word packing and zero padding to a multiple of 8")
    ctx.not_decided("ciphertext values for concrete keys/messages; decrypt(encrypt(m)) == pad(m) on all inputs")

    # ---- CONST: tables vs pi
    refp, refs_ = refs.blowfish_tables()
    pb = prog.const_bytes(P_PATH)
    sb = prog.const_bytes(S_PATH)
    if pb is None or sb is None:
        ctx.fail_closed("CONST", f"constant {P_PATH if pb is None else S_PATH} not found / not evaluable")
    else:
        pw = words_le(pb)
        sw = words_le(sb)
        if len(pw) != 18 or len(sw) != 1024:
            ctx.fail_closed("CONST", f"table shapes changed: P has {len(pw)} words, S has {len(sw)}")
        else:
            n = 0
            for i, (got, want) in enumerate(zip(pw, refp)):
                ctx.ob("CONST", f"BLOWFISH_P[{i}]", got == want, f"P[{i}] = {got:#010x}, pi digits give {want:#010x}", "src/blowfish/constants.rs", None)
                n += 1
            flat = [w for box in refs_ for w in box]
            for i, (got, want) in enumerate(zip(sw, flat)):
                ctx.ob("CONST", f"BLOWFISH_S[{i//256}][{i%256}]", got == want, f"S[{i//256}][{i%256}] = {got:#010x}, pi digits give {want:#010x}", "src/blowfish/constants.rs", None)
                n += 1
            ctx.floor("CONST", "table words compared with pi", n, 1042)
    rounds = prog.const_scalar("blowfish::ROUNDS")
    keyb = prog.const_scalar("blowfish::KEYBITS")
    if rounds is None or keyb is None:
        ctx.fail_closed("CONST", "blowfish::ROUNDS / blowfish::KEYBITS not found")
    else:
        ctx.ob("CONST", "ROUNDS", rounds == 16, f"ROUNDS = {rounds}, Blowfish has 16 rounds", "src/blowfish/mod.rs")
        ctx.ob("CONST", "KEYBITS", keyb == 8, f"key bytes cycled = {keyb}, property says the first 8 are significant", "src/blowfish/mod.rs")

    # ---- F
    fb = prog.body("blowfish::Blowfish::f")
    if not fb:
        ctx.fail_closed("F", "blowfish::Blowfish::f not found")
    else:
        ex = Explorer(fb)
        paths = [p for p in ex.explore() if p.end == "return"]
        if len(paths) != 1:
            ctx.fail_closed("F", f"F function is not straight-line ({len(paths)} return paths)")
        else:
            ret = paths[0].env.local(0)
            # replace S-box lookups by symbols
            seen = []

            def sub(e):
                if not isinstance(e, tuple):
                    return e
                k = sbox_key(e)
                if k is not None:
                    seen.append(k)
                    return ("S",) + k
                return tuple(sub(x) if isinstance(x, tuple) else x for x in e)

            got = N(sub(ret))
            S = lambda b, sh: ("S", b, sh, 0xFF)  # noqa: E731
            want = N(("bin", "WAdd", ("bin", "BitXor", ("bin", "WAdd", S(0, 24), S(1, 16)), S(2, 8)), S(3, 0)))
            ctx.ob("F", "operator-tree", got == want, f"F(x) = {show(got)}; definition = {show(want)}", fb.file, fb.line, sample=True)
            ctx.ob("F", "sbox-lookups", sorted(seen) == [(0, 24, 0xFF), (1, 16, 0xFF), (2, 8, 0xFF), (3, 0, 0xFF)], f"S-box lookups (box, shift, mask) = {sorted(seen)}", fb.file, fb.line)

    # ---- ROUND
    for fname, rng, rev, first, second, fin in (
        ("encrypt_pair", (0, 16, 2), False, 0, 1, (17, 16)),
        ("decrypt_pair", (2, 17, 2), True, 1, 0, (0, 1)),
    ):
        b = prog.body(f"blowfish::Blowfish::{fname}")
        if not b:
            ctx.fail_closed("ROUND", f"blowfish::Blowfish::{fname} not found")
            continue
        ex = Explorer(b)
        paths = ex.explore()
        rets = [p for p in paths if p.end == "return"]
        loops = [p for p in paths if p.end == "loop"]
        if len(rets) != 1 or len(loops) != 1:
            ctx.fail_closed("ROUND", f"{fname}: expected one loop and one exit, found {len(loops)} loop path(s), {len(rets)} return path(s)")
            continue
        L, R = ("v", 2), ("v", 3)
        Pk = lambda ix: ("idx", ("fld", ("deref", ("v", 1)), "p"), ix)  # noqa: E731
        # iteration domain from the calls on the way in
        dom = None
        reversed_ = False
        for (_bb, callee, args, _res) in loops[0].events:
            if callee.endswith("Iterator::step_by") or callee.endswith("::step_by"):
                r = args[0]
                if isinstance(r, tuple) and r[0] == "agg" and "Range" in r[2]:
                    lo, hi = N(r[3][0]), N(r[3][1])
                    st = N(args[1])
                    if is_const(lo) and is_const(hi) and is_const(st):
                        dom = (lo[1], hi[1], st[1])
            if callee.endswith("Iterator::rev") or callee.endswith("::rev"):
                reversed_ = True
        if dom is None:
            # the same rounds as an explicit counter: `let mut i = K0; while i <op> K1 { ..; i += / -= 2 }`
            from ..loops import counter_sequence

            cs = counter_sequence(b)
            want_seq = list(range(*rng))[::-1] if rev else list(range(*rng))
            if cs is not None and cs[1] == want_seq:
                dom, reversed_ = rng, rev
            elif cs is not None:
                dom = tuple(cs[1])
        ctx.ob("ROUND", f"{fname}|iteration-domain", dom == rng and reversed_ == rev, f"{fname} iterates {dom} reversed={reversed_}; Blowfish needs {rng} reversed={rev}", b.file, b.line)
        # loop variable
        lp = loops[0]
        l1 = N(lp.env.local(2))
        r1 = N(lp.env.local(3))
        # find the loop variable: the only non-param leaf used as a P index
        ivars = set()
        for e in (l1, r1):
            for t in walk(e):
                if isinstance(t, tuple) and t[0] == "idx" and t[1] == ("fld", ("deref", ("v", 1)), "p"):
                    ix = t[2]
                    if isinstance(ix, tuple) and ix[0] == "bin" and ix[1] == "Add":
                        ix = ix[2] if not is_const(ix[2]) else ix[3]
                    ivars.add(ix)
        if len(ivars) != 1:
            ctx.ob("ROUND", f"{fname}|round-body", False, f"{fname}: P indices in the loop body do not share one loop variable: {[show(i) for i in ivars]}", b.file, b.line)
            continue
        I = ivars.pop()
        F = lambda x: ("call", "blowfish::Blowfish::f", (("v", 1), x))  # noqa: E731
        I1 = ("bin", "Add", I, K(1, "int"))
        Pa, Pb = (Pk(I), Pk(I1)) if first == 0 else (Pk(I1), Pk(I))
        la = ("bin", "BitXor", L, Pa)
        want_r = N(("bin", "BitXor", ("bin", "BitXor", R, F(la)), Pb))
        want_l = N(("bin", "BitXor", la, F(want_r)))
        got_r = tuple(flatten(r1, "BitXor"))
        got_l = tuple(flatten(l1, "BitXor"))
        ok_r = got_r == tuple(flatten(want_r, "BitXor"))
        # for l, the argument of F must be the new r
        ok_l = got_l == tuple(flatten(N(("bin", "BitXor", la, F(r1))), "BitXor"))
        ctx.ob("ROUND", f"{fname}|half-round-r", ok_r, f"{fname}: r' = {show(r1)}; definition r' = {show(want_r)}", b.file, b.line, sample=True)
        ctx.ob("ROUND", f"{fname}|half-round-l", ok_l and ok_r, f"{fname}: l' = {show(l1)}; definition l' = l ^ Pa ^ F(r')", b.file, b.line)
        # final swap on the zero-iteration path (l, r still symbolic params)
        ret = N(rets[0].env.local(0))
        want_ret = ("agg", "tuple", "tuple", (N(("bin", "BitXor", R, Pk(K(fin[0], "int")))), N(("bin", "BitXor", L, Pk(K(fin[1], "int"))))), None)
        ctx.ob("ROUND", f"{fname}|final-swap", ret == want_ret, f"{fname} returns {show(ret)}; definition {show(want_ret)}", b.file, b.line)

    # ---- INIT + SCHED
    nb = prog.body("blowfish::Blowfish::new")
    if not nb:
        ctx.fail_closed("SCHED", "blowfish::Blowfish::new not found")
    else:
        # INIT: the aggregate Blowfish{p, s} is built from the two constants
        init_ok = False
        for _bi, _si, s in nb.stmts():
            rv = s.get("rv", {})
            if rv.get("k") == "agg" and rv.get("adt") == "blowfish::Blowfish":
                srcs = []
                for o in rv["ops"]:
                    srcs.append(_const_source(nb, o))
                init_ok = srcs == [P_PATH, S_PATH]
                ctx.ob("INIT", "Blowfish{p,s}", init_ok, f"initial state is built from {srcs}; must be [{P_PATH}, {S_PATH}]", nb.file, nb.line)
        if not any(o["rule"] == "INIT" for o in ctx.obligations):
            ctx.fail_closed("INIT", "no construction of blowfish::Blowfish found in Blowfish::new")
        ex = Explorer(nb)
        paths = ex.explore()
        # iteration domains used by the schedule
        doms = set()
        for p in paths:
            pend = []
            for (_bb, callee, args, _res) in p.events:
                if callee.endswith("::step_by"):
                    r = args[0]
                    if isinstance(r, tuple) and r[0] == "agg" and "Range" in r[2]:
                        lo, hi, st = N(r[3][0]), N(r[3][1]), N(args[1])
                        if is_const(lo) and is_const(hi) and is_const(st):
                            doms.add((lo[1], hi[1], st[1]))
                elif callee.endswith("IntoIterator::into_iter") or callee.endswith("::into_iter"):
                    r = args[0]
                    if isinstance(r, tuple) and r[0] == "agg" and "Range" in r[2]:
                        lo, hi = N(r[3][0]), N(r[3][1])
                        if is_const(lo) and is_const(hi):
                            doms.add((lo[1], hi[1], 1))
            del pend
        need = {(0, 18, 1), (0, 4, 1), (0, 18, 2), (0, 256, 2)}
        ctx.ob("SCHED", "iteration-domains", need <= doms, f"loops in Blowfish::new iterate {sorted(doms)}; the schedule needs {sorted(need)} (18 P words, 4 key bytes per word, P pairs, S pairs)", nb.file, nb.line)
        # data = (data << 8) | key[j]
        found_data = False
        found_pxor = False
        found_wrap = False
        pair_stores = set()
        for p in paths:
            for l, e in list(p.env.loc.items()):
                e = N(e)
                for t in walk(e):
                    if isinstance(t, tuple) and t[0] == "bin" and t[1] == "BitOr":
                        parts = (t[2], t[3])
                        shl = [x for x in parts if isinstance(x, tuple) and x[0] == "bin" and x[1] == "Shl" and is_const(x[3]) and x[3][1] == 8]
                        key = [x for x in parts if isinstance(x, tuple) and x[0] == "idx" and x[1] == ("deref", ("v", 1))]
                        if shl and key:
                            found_data = True
            for lv, e in p.env.mem.items():
                e = N(e)
                # s.p[i] ^= data
                if isinstance(lv, tuple) and lv[0] == "idx" and isinstance(lv[1], tuple) and lv[1][0] == "fld" and lv[1][2] == "p":
                    if isinstance(e, tuple) and e[0] == "bin" and e[1] == "BitXor":
                        found_pxor = True
                    if isinstance(e, tuple) and e[0] == "fld" and isinstance(e[1], tuple) and e[1][0] == "call" and e[1][1].endswith("encrypt_pair"):
                        ix = N(lv[2])
                        off = 1 if (isinstance(ix, tuple) and ix[0] == "bin" and ix[1] == "Add") else 0
                        pair_stores.add(("p", off, e[2]))
                if isinstance(lv, tuple) and lv[0] == "idx" and isinstance(lv[1], tuple) and lv[1][0] == "idx" and isinstance(lv[1][1], tuple) and lv[1][1][0] == "fld" and lv[1][1][2] == "s":
                    if isinstance(e, tuple) and e[0] == "fld" and isinstance(e[1], tuple) and e[1][0] == "call" and e[1][1].endswith("encrypt_pair"):
                        ix = N(lv[2])
                        off = 1 if (isinstance(ix, tuple) and ix[0] == "bin" and ix[1] == "Add") else 0
                        pair_stores.add(("s", off, e[2]))
            for d, c in p.conds:
                d = N(d)
                # j >= KEYBITS  (Ge(j, 8) or Lt(j, 8) negated)
                if isinstance(d, tuple) and d[0] == "bin" and d[1] in ("Ge", "Lt", "Gt", "Le", "Eq") and any(is_const(x) and x[1] == 8 for x in (d[2], d[3])):
                    found_wrap = True
        # chaining: the (l, r) fed to encrypt_pair are loop-carried and are replaced by (left, right) of its result
        chain_ok = []
        for p in paths:
            if p.end != "loop":
                continue
            for (_bb, callee, args, res) in p.events:
                if callee.endswith("::encrypt_pair") and len(args) == 3:
                    a_l, a_r = args[1], args[2]
                    if isinstance(a_l, tuple) and a_l[0] == "h" and isinstance(a_r, tuple) and a_r[0] == "h":
                        nl, nr = p.env.local(a_l[1]), p.env.local(a_r[1])
                        chain_ok.append(nl == ("fld", res, 0) and nr == ("fld", res, 1))
                    else:
                        chain_ok.append(False)
        ctx.ob("SCHED", "chaining", len(chain_ok) >= 2 and all(chain_ok), f"each re-encryption feeds the previous (left, right) output back in: {chain_ok}", nb.file, nb.line)
        ctx.ob("SCHED", "key-word", found_data, "key word is assembled as (data << 8) | key[j]", nb.file, nb.line)
        ctx.ob("SCHED", "key-xor-into-P", found_pxor, "P[i] ^= data over the key words", nb.file, nb.line)
        ctx.ob("SCHED", "key-wrap-at-8", found_wrap, "key index wraps by comparing with 8", nb.file, nb.line)
        want_pairs = {("p", 0, 0), ("p", 1, 1), ("s", 0, 0), ("s", 1, 1)}
        ctx.ob("SCHED", "re-encrypt-pairs", pair_stores == want_pairs, f"stores of encrypt_pair results: {sorted(pair_stores)}; definition: [i] <- left, [i+1] <- right for P and S", nb.file, nb.line)

    # ---- BLOCK
    for fname, pair in (("encrypt", "encrypt_pair"), ("decrypt", "decrypt_pair")):
        b = prog.body(f"blowfish::Blowfish::{fname}")
        if not b:
            ctx.fail_closed("BLOCK", f"blowfish::Blowfish::{fname} not found")
            continue
        callees = [(t.get("res") or "") for _bi, t in b.calls()]
        n_from_le = sum(1 for c in callees if c.endswith("::from_le_bytes"))
        n_to_le = sum(1 for c in callees if c.endswith("::to_le_bytes"))
        n_pair = sum(1 for c in callees if c.endswith("::" + pair))
        n_other_pair = sum(1 for c in callees if c.endswith("_pair")) - n_pair
        n_be = sum(1 for c in callees if c.endswith("_be_bytes") or c.endswith("_ne_bytes") or c.endswith("swap_bytes"))
        n_pad = sum(1 for c in callees if c.endswith("::pad_buffer"))
        ctx.ob("BLOCK", f"{fname}|word-packing", n_from_le == 2 and n_to_le == 2 and n_be == 0, f"{fname}: {n_from_le} from_le_bytes, {n_to_le} to_le_bytes, {n_be} other-endian conversions; need 2/2/0", b.file, b.line)
        ctx.ob("BLOCK", f"{fname}|cipher-call", n_pair == 1 and n_other_pair == 0 and n_pad == 1, f"{fname}: calls {pair} x{n_pair}, other *_pair x{n_other_pair}, pad_buffer x{n_pad}", b.file, b.line)
        ex = Explorer(b)
        paths = ex.explore()
        step = None
        slices = set()
        order_ok = None
        for p in paths:
            words = {}
            for (_bb, callee, args, res) in p.events:
                if callee.endswith("::step_by"):
                    st = N(args[1])
                    if is_const(st):
                        step = st[1]
                if callee.endswith("Index::index") or callee.endswith("::index"):
                    r = args[1] if len(args) > 1 else None
                    if isinstance(r, tuple) and r[0] == "agg" and "Range" in r[2] and len(r[3]) == 2:
                        lo, hi = N(r[3][0]), N(r[3][1])

                        def off(x):
                            if isinstance(x, tuple) and x[0] == "bin" and x[1] == "Add" and (is_const(x[2]) or is_const(x[3])):
                                return x[2][1] if is_const(x[2]) else x[3][1]
                            if isinstance(x, tuple) and x[0] in ("fld", "down", "u"):
                                return 0
                            return None

                        slices.add((off(lo), off(hi)))
            # which pair output goes to the first write_all
            outs = []
            for (_bb, callee, args, res) in p.events:
                if callee.endswith("write_all") or callee.endswith("::extend_from_slice") or (callee.endswith("::extend") and "Vec" in callee):
                    outs.append(N(args[1]) if len(args) > 1 else None)
            if len(outs) >= 2 and order_ok is None:
                def fieldno(e):
                    for t in walk(e):
                        if isinstance(t, tuple) and t[0] == "fld" and isinstance(t[1], tuple) and t[1][0] == "call" and t[1][1].endswith(pair):
                            return t[2]
                    return None
                order_ok = (fieldno(outs[0]), fieldno(outs[1])) == (0, 1)
        ctx.ob("BLOCK", f"{fname}|step", step == 8, f"{fname}: block loop step = {step}, block size is 8", b.file, b.line)
        ctx.ob("BLOCK", f"{fname}|slices", {(0, 4), (4, 8)} <= slices, f"{fname}: word slices (offsets from i) = {sorted(slices, key=str)}; need [i..i+4] and [i+4..i+8]", b.file, b.line)
        ctx.ob("BLOCK", f"{fname}|output-order", order_ok is True, f"{fname}: first written word is the left output, second the right output: {order_ok}", b.file, b.line)
    pb_ = prog.body("blowfish::Blowfish::pad_buffer")
    if not pb_:
        ctx.fail_closed("BLOCK", "blowfish::Blowfish::pad_buffer not found")
    else:
        consts = set()
        zero_fill = False
        for _bi, _si, s in pb_.stmts():
            rv = s.get("rv", {})
            if rv.get("k") == "bin" and rv["op"].replace("WithOverflow", "") in ("Rem", "Sub", "Div", "BitAnd", "Add", "Mul"):
                for o in (rv["a"], rv["b"]):
                    v = const_int(o)
                    if v is not None:
                        consts.add((rv["op"].replace("WithOverflow", ""), v))
        for _bi, t in pb_.calls():
            c = t.get("res") or ""
            if c.endswith("from_elem"):
                zero_fill = const_int(t["args"][0]) == 0
            elif c.endswith("Vec::<T, A>::resize") and len(t["args"]) == 3:
                # data followed by resize(padded_len, 0)
                zero_fill = const_int(t["args"][2]) == 0
        ok = ("Rem", 8) in consts and ("Sub", 8) in consts and all(v in (8, 0) for _, v in consts)
        ctx.ob("BLOCK", "pad|multiple-of-8", ok, f"pad_buffer arithmetic constants: {sorted(consts)}; must round up with % 8 and 8 - r", pb_.file, pb_.line)
        ctx.ob("BLOCK", "pad|zero-fill", zero_fill, "padding bytes are zero (vec![0; n] or resize(n, 0))", pb_.file, pb_.line)


def _const_source(body, o):
    """Path of the const item an operand is (directly or via one temp) taken from."""
    k = o.get("k")
    if k and "uneval" in k:
        return k["uneval"]
    from ..mir import op_place

    p = op_place(o)
    if p and not p["p"]:
        for kind, _bi, _si, s in body.defs().get(p["l"], []):
            if kind == "assign" and s.get("rv", {}).get("k") == "use":
                kk = s["rv"]["a"].get("k")
                if kk and "uneval" in kk:
                    return kk["uneval"]
    return None
