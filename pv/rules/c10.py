"""C10 — file-info and patch-list metadata are produced and parsed faithfully.

Decided:
  W1/W2/W3  fiin FileInfo / FIINEntry layout (1024-byte header, 96-byte records, name 64, digest padded to 24),
            read/write symmetry, entries_size / 96 <-> len * 96
  SAMEFILE  in FileInfo::new the recorded size and the digest are taken from the same buffer, which is read from the
            same path whose file name is recorded
  COLUMNS   the field written in tab-column k by PatchList::to_string (per list type) is the field from_string
            reads from column k; same row/line separators
  LABEL     the X-Patch-Length label literal is the same on both sides; the text handed to parse::<u64>() does not
            still start with the label (prefix-tag flow); the number written after the label is the sum of lengths
Not decided: SHA-1 values (C12 decides constants and padding structure only); URL/version content.
"""
import re

from .. import fmt
from ..prov import derive, index_of
from ..strx import StrX
from ..sym import Explorer, N, is_const, show, walk
from ..wrules import w1, w2, w3

TECHNIQUE = "static analysis: binrw layout/symmetry/divisor rules; expression provenance over MIR paths (same-file, column indices, label prefix tags); writer/reader template agreement"
TRUSTED = ["pv/wire.py model of binrw 0.14 (sample test.fiin = 1024 + 2*96 bytes)", "spec/layouts.txt", "rustc nightly MIR", "pv.sym expression reconstruction"]

LABEL = "X-Patch-Length: "


def field_names(e):
    return {t[2] for t in walk(e) if isinstance(t, tuple) and t[0] == "fld" and isinstance(t[2], str)}


def const_indices(e):
    out = set()
    for t in walk(e):
        if isinstance(t, tuple) and t[0] == "idx" and is_const(t[2]) and isinstance(t[2][1], int):
            out.add(t[2][1])
    return out


def prefix_tag(e, depth=0):
    """Literal L such that the string value e is known to start with L, else None (unknown operations clear the tag)."""
    if depth > 12 or not isinstance(e, tuple):
        return None
    while e[0] in ("ref", "deref"):
        e = e[1]
        if not isinstance(e, tuple):
            return None
    if e[0] == "idx":
        base, rng = e[1], e[2]
        while isinstance(base, tuple) and base[0] in ("ref", "deref"):
            base = base[1]
        if isinstance(rng, tuple) and rng[0] == "agg" and rng[2].endswith("RangeFrom"):
            start = N(rng[3][0])
            # start = (find(base, L) as Some).0  -> starts with L ;  + anything -> cleared
            lit = _find_literal(start, base)
            if lit is not None:
                return lit
            return None
        if isinstance(rng, tuple) and rng[0] == "agg" and rng[2].endswith("ops::Range::Range"):
            lo = N(rng[3][0])
            if is_const(lo) and lo[1] == 0:
                return prefix_tag(base, depth + 1)
            return None
        if isinstance(rng, tuple) and rng[0] == "agg" and rng[2].endswith("RangeTo"):
            return prefix_tag(base, depth + 1)
    return None


def _find_literal(start, base):
    # (find(base', "L") as Some).0 with base' == base
    s = start
    if isinstance(s, tuple) and s[0] == "fld" and isinstance(s[1], tuple) and s[1][0] == "down":
        c = s[1][1]
        if isinstance(c, tuple) and c[0] == "call" and c[1].endswith("::find"):
            lits = [a[1] for a in c[2] if isinstance(a, tuple) and a[0] == "ks"]
            if lits:
                return lits[0]
    return None


def run(ctx):
    prog = ctx.prog
    ctx.decided("fiin header/record layout, symmetry and count divisor")
    ctx.decided("SHA-1 constants, round-group dispatch, padding layout (0x80, < 56 threshold, length position), digest byte order (shared with C12)")
    ctx.decided("FileInfo::new records size, name and digest of the same file")
    ctx.decided("patch-list column agreement between to_string and from_string for both list types")
    ctx.decided("X-Patch-Length label agreement, label skipped before parsing, total derives from the entries' lengths")
    ctx.not_decided("SHA-1 digest values; equality of parsed total and sum on all inputs; URL/version content")

    n = w1(ctx, ["fiin::FileInfo", "fiin::FIINEntry"])
    ctx.floor("W1", "fiin types", n, 2)
    for t, fl in (("fiin::FileInfo", 5), ("fiin::FIINEntry", 4)):
        d = w2(ctx, [t])
        ctx.floor("W2", f"field comparisons decided for {t}", d, fl)
    k = w3(ctx, ["fiin::FileInfo"])
    ctx.floor("W3", "count divisors in fiin", k, 1)
    # the write side of the two computed header words: the header size word is the constant 1024 and the table size is
    # `entries.len() * <serialised entry size>` — the reader divides by the same number (W3 above)
    from .. import wire as _W

    wm_ = getattr(ctx, "_wm", None)
    if wm_ is None:
        from ..wrules import model as _model

        wm_ = _model(ctx)
    fi_ = wm_.items.by_path.get("fiin::FileInfo")
    en_ = wm_.items.by_path.get("fiin::FIINEntry")
    if not fi_ or not en_:
        ctx.fail_closed("W3", "fiin::FileInfo / FIINEntry not found")
    else:
        esz = wm_.item_size(en_)
        def _norm(txt):
            # tokens of the calc expression with `as <type>` casts dropped and named constants of the module replaced
            # by their compiler-evaluated values, so `ENTRY_SIZE as usize` reads as the number it is
            toks, out_ = txt.split(), []
            i_ = 0
            while i_ < len(toks):
                if toks[i_] == "as" and i_ + 1 < len(toks):
                    i_ += 2
                    continue
                if re.fullmatch(r"[A-Z][A-Z0-9_]*", toks[i_]):
                    v_ = prog.const_scalar("fiin::" + toks[i_])
                    out_.append(str(v_) if v_ is not None else toks[i_])
                else:
                    out_.append(toks[i_])
                i_ += 1
            t_ = "".join(out_)
            while t_.startswith("(") and t_.endswith(")") and t_.count("(") == t_.count(")"):
                inner = t_[1:-1]
                depth, ok_ = 0, True
                for ch in inner:
                    depth += ch == "("
                    depth -= ch == ")"
                    if depth < 0:
                        ok_ = False
                        break
                if not ok_:
                    break
                t_ = inner
            return t_

        calcs = {f_["name"]: [_norm(d_.text) for d_ in _W.directives(f_["attrs"]) if d_.name == "calc"] for f_ in fi_["fields"]}
        hdr = [v for k_, v in calcs.items() if v and "entries" not in v[0]]
        ctx.ob("W3", "header-size-word", hdr == [["1024"]], f"computed header words written as {hdr}; the file-info header announces a size of 1024", fi_["file"], fi_["line"])
        tbl = [v[0] for k_, v in calcs.items() if v and "entries" in v[0]]
        flat = [t_.replace("(", "").replace(")", "") for t_ in tbl]
        ok_t = len(flat) == 1 and flat[0] in (f"entries.len*{esz}", f"{esz}*entries.len")
        ctx.ob("W3", "table-size-written", bool(ok_t), f"entries_size is written as {tbl}; must be entries.len() * {esz} (the serialised size of one entry, by which the reader divides)", fi_["file"], fi_["line"])
    wbf = prog.body("fiin::FileInfo::write_to_buffer")
    if wbf:
        wcalls = [t_ for _bi, t_ in wbf.calls() if "BinWrite" in (t_.get("res") or t_["f"].get("k", {}).get("fn", "")) or (t_.get("res") or "").endswith("FileInfo as binrw::BinWrite>::write_options")]
        ctx.ob("W2", "write_to_buffer|writes-self", bool(wcalls), f"FileInfo::write_to_buffer serialises the table through {len(wcalls)} BinWrite call(s) before returning the buffer", wbf.file, wbf.line)
    else:
        ctx.fail_closed("W2", "fiin::FileInfo::write_to_buffer not found")
    # the recorded digests are produced by src/sha1.rs: constants, round dispatch, padding layout, digest byte order
    from .c12 import sha1_rules

    sha1_rules(ctx)

    # ---- SAMEFILE
    nb = prog.body("fiin::FileInfo::new")
    if not nb:
        ctx.fail_closed("SAMEFILE", "fiin::FileInfo::new not found")
    else:
        found = False
        all_paths = []
        for body_ in prog.deep_bodies("fiin::FileInfo::new"):
            all_paths += Explorer(body_).explore()
        for p in all_paths:
            for l, e in p.env.loc.items():
                for t in walk(e):
                    if isinstance(t, tuple) and t[0] == "agg" and t[1] == "adt" and t[2].startswith("fiin::FIINEntry") and not found:
                        found = True
                        size_e, name_e, sha_e = t[3]
                        reads_size = [x for x in walk(size_e) if isinstance(x, tuple) and x[0] == "call" and x[1].endswith("fs::read")]
                        reads_sha = [x for x in walk(sha_e) if isinstance(x, tuple) and x[0] == "call" and x[1].endswith("fs::read")]
                        ok = bool(reads_size) and bool(reads_sha) and reads_size[0] == reads_sha[0]
                        has_len = any(isinstance(x, tuple) and (x[0] == "len" or (x[0] == "call" and x[1].endswith("::len"))) for x in walk(size_e))
                        has_sha = any(isinstance(x, tuple) and x[0] == "call" and "Sha1::from" in x[1] for x in walk(sha_e)) and any(isinstance(x, tuple) and x[0] == "call" and x[1].endswith("::digest") for x in walk(sha_e))
                        if not has_sha and reads_size and any(isinstance(x, tuple) and x[0] == "call" and x[1].endswith("::digest") for x in walk(sha_e)) and any(isinstance(x, tuple) and x[0] == "call" and x[1].endswith("Sha1::new") for x in walk(sha_e)):
                            # Sha1::from(buf) spelled as new() followed by update(buf): the update on this path feeds the same buffer
                            ups = [a for (_bb, callee, a, _r) in p.events if callee.endswith("Sha1::update")]
                            fed = [x for a in ups for y in a for x in walk(y) if isinstance(x, tuple) and x[0] == "call" and x[1].endswith("fs::read")]
                            if len(ups) == 1 and fed and fed[0] == reads_size[0]:
                                has_sha = True
                                ok = True
                        ctx.ob("SAMEFILE", "size-and-digest", ok and has_len and has_sha, f"file_size = {show(size_e)[:90]}; sha1 = {show(sha_e)[:110]}; both must come from the same read() buffer (len / Sha1::from..digest)", nb.file, nb.line, sample=True)
                        path_arg = reads_size[0][2][0] if reads_size else None
                        fn_calls = [x for x in walk(name_e) if isinstance(x, tuple) and x[0] == "call" and x[1].endswith("Path::file_name")]
                        same_path = False
                        if fn_calls and path_arg is not None:
                            leaves_a = {repr(x) for x in walk(path_arg) if isinstance(x, tuple) and x[0] in ("h", "u", "p", "fld", "down")}
                            leaves_b = {repr(x) for x in walk(fn_calls[0]) if isinstance(x, tuple) and x[0] in ("h", "u", "p", "fld", "down")}
                            same_path = bool(leaves_a & leaves_b)
                        ctx.ob("SAMEFILE", "name-of-same-path", same_path, f"file_name = {show(name_e)[:110]}; must be file_name() of the path that was read", nb.file, nb.line)
        if not found:
            ctx.fail_closed("SAMEFILE", "no FIINEntry construction found in FileInfo::new")

    # ---- COLUMNS
    tb = prog.body("patchlist::PatchList::to_string")
    fb = prog.body("patchlist::PatchList::from_string")
    if not tb or not fb:
        ctx.fail_closed("COLUMNS", "PatchList::to_string / from_string not found")
        return
    # writer: along each loop-body path count '\t' pushes before each field push
    writer_maps = []
    ROW_FIELDS = {"length", "size_on_disk", "unknown_a", "unknown_b", "version", "hash_block_size", "hashes", "url"}
    w_sx, w_ix, w_cache = StrX(tb), index_of(tb), {}

    def w_pieces(bb):
        """pieces of the text appended by the push_str in block bb when it is a format! with literal text (else None)"""
        if bb not in w_cache:
            pcs = None
            t_ = tb.blocks[bb]["t"]
            if t_["k"] == "call" and len(t_["args"]) > 1:
                try:
                    got = w_sx.string(t_["args"][1])
                except Exception:
                    got = None
                if got and len(got) > 1 and all(pc[0] in ("lit", "arg") for pc in got) and any(pc[0] == "arg" for pc in got):
                    pcs = got
            w_cache[bb] = pcs
        return w_cache[bb]

    for p in Explorer(tb).explore():
        cols = {}
        tabs = 0
        seen_row = False
        lits = []
        for (_bb, callee, args, _res) in p.events:
            last = callee.split("::")[-1]
            if last == "push" and "string::String" in callee:
                ch = N(args[1])
                if is_const(ch) and ch[1] == 9:
                    tabs += 1
                    seen_row = True
                elif is_const(ch) and ch[1] == ord(","):
                    pass
            elif last == "push_str":
                pcs = w_pieces(_bb)
                if pcs is not None:
                    # a `format!` carrying several columns at once: walk its pieces in order
                    for pc in pcs:
                        if pc[0] == "lit":
                            for part in re.split(r"(\t)", pc[1]):
                                if part == "\t":
                                    tabs += 1
                                    seen_row = True
                                elif part:
                                    lits.append((part, tabs))
                        elif pc[0] == "arg":
                            for f in derive(w_ix, pc[3]).names & ROW_FIELDS:
                                cols.setdefault(f, tabs)
                    continue
                fl = field_names(args[1]) & ROW_FIELDS
                for f in fl:
                    cols.setdefault(f, tabs)
                for t in walk(args[1]):
                    if isinstance(t, tuple) and t[0] == "ks":
                        lits.append((t[1], tabs))
        if seen_row and "url" in cols and "length" in cols:
            m = dict(cols)
            m["_lits"] = tuple(x for x in lits if x[0] in ("sha1", "\r\n"))
            if m not in writer_maps:
                writer_maps.append(m)
    # reader: each PatchEntry aggregate: field -> constant column index
    reader_maps = []
    for p in Explorer(fb).explore():
        for l, e in list(p.env.loc.items()) + [(None, ev[2]) for ev in p.events]:
            for t in walk(e):
                if isinstance(t, tuple) and t[0] == "agg" and t[1] == "adt" and t[2].startswith("patchlist::PatchEntry"):
                    adt = prog.adts.get("patchlist::PatchEntry")
                    names = [f["name"] for f in adt["variants"][0]["fields"]]
                    m = {}
                    for nm, op in zip(names, t[3]):
                        ci = const_indices(op)
                        if len(ci) == 1:
                            m[nm] = next(iter(ci))
                    if m and m not in reader_maps:
                        reader_maps.append(m)
    game_w = [m for m in writer_maps if "hashes" in m]
    boot_w = [m for m in writer_maps if "hashes" not in m]
    game_r = [m for m in reader_maps if "hashes" in m]
    boot_r = [m for m in reader_maps if "hashes" not in m]
    if len(game_w) != 1 or len(boot_w) != 1 or len(game_r) != 1 or len(boot_r) != 1:
        ctx.fail_closed("COLUMNS", f"could not isolate one writer and one reader column map per list type (writer {len(boot_w)}/{len(game_w)}, reader {len(boot_r)}/{len(game_r)})")
    else:
        n_cols = 0
        for kind, wmap, rmap in (("boot", boot_w[0], boot_r[0]), ("game", game_w[0], game_r[0])):
            for fld, col in sorted(rmap.items()):
                n_cols += 1
                ctx.ob("COLUMNS", f"{kind}|{fld}", wmap.get(fld) == col, f"{kind} list: from_string reads `{fld}` from tab-column {col}; to_string writes it in column {wmap.get(fld)}", fb.file, fb.line, sample=(fld == "url"))
            # fields the reader must take from the row
            need = {"url", "version", "length", "size_on_disk"} | ({"hash_block_size", "hashes"} if kind == "game" else set())
            ctx.ob("COLUMNS", f"{kind}|all-fields-read", need <= set(rmap), f"{kind} list: fields parsed from the row: {sorted(rmap)}; the property lists {sorted(need)}", fb.file, fb.line)
        ctx.floor("COLUMNS", "column pairs compared", n_cols, 10)
    # separators: reader splits rows on "\r\n" and columns on '\t', hashes on ','; writer emits the same
    r_seps = set()
    for p in Explorer(fb).explore():
        for (_bb, callee, args, _res) in p.events:
            if callee.split("::")[-1] == "split" and len(args) > 1:
                a = N(args[1])
                if isinstance(a, tuple) and a[0] == "ks":
                    r_seps.add(a[1])
                elif is_const(a):
                    r_seps.add(chr(a[1]) if isinstance(a[1], int) else a[1])
    w_chars = set()
    for _bi, t in tb.calls():
        c = t.get("res") or ""
        if c.endswith("String::push") and len(t["args"]) > 1:
            from ..mir import const_int

            v = const_int(t["args"][1])
            if v is not None:
                w_chars.add(chr(v))
    ctx.ob("COLUMNS", "separators", {"\r\n", "\t", ","} <= r_seps and {"\t", ","} <= w_chars, f"reader splits on {sorted(r_seps)}; writer pushes characters {sorted(w_chars)}", fb.file, fb.line)

    # ---- LABEL
    r_lits = set()
    for p in Explorer(fb).explore():
        for (_bb, callee, args, _res) in p.events:
            if callee.split("::")[-1] in ("find", "split_once", "strip_prefix") and len(args) > 1 and isinstance(args[1], tuple) and args[1][0] == "ks" and "Patch-Length" in args[1][1]:
                r_lits.add(args[1][1])
    # the text to_string builds, as string pieces read off the MIR (format! / push_str / push in any mix): the piece
    # that ends with the label, the formatted number after it, and what follows the number

    tsx = StrX(tb)
    tpcs = tsx.returned()
    li = next((i for i, p_ in enumerate(tpcs) if p_[0] == "lit" and "Patch-Length" in p_[1]), None)
    if li is None or li + 1 >= len(tpcs):
        ctx.fail_closed("LABEL", "X-Patch-Length label not found in the text to_string returns")
    else:
        lit_ = tpcs[li][1]
        w_label = lit_[lit_.rindex("X-Patch-Length") :] if "X-Patch-Length" in lit_ else None
        num = tpcs[li + 1]
        after = tpcs[li + 2][1] if li + 2 < len(tpcs) and tpcs[li + 2][0] == "lit" else None
        ctx.ob("LABEL", "literal-agreement", r_lits == {w_label} and w_label == LABEL, f"writer label {w_label!r}; reader searches for {sorted(r_lits)}", tb.file, tb.line)
        ctx.ob("LABEL", "line-terminator", num[0] in ("arg", "opaque") and (after or "").startswith("\r\n") and "\r\n" in r_seps, f"the writer follows the number with {after!r}; the reader cuts the number at CRLF", tb.file, tb.line, trivial=True)
        nop = num[3] if num[0] == "arg" else (num[1] if num[0] == "opaque" else None)
        tix_ = index_of(tb)
        # the formatted value: a local accumulating patch.length in a loop, or the result of sum() / fold()
        acc_ok = False
        arg = None
        nl = None
        if nop is not None:
            dn_ = derive(tix_, nop)
            names = tb.local_names()
            cand = [l_ for l_ in dn_.locals if names.get(l_) and tix_.single_def(l_) is None and not (1 <= l_ <= tb.argc)]
            nl = cand[0] if len(cand) == 1 else None
            arg = names.get(nl) if nl is not None else None
            if any(c_.split("::")[-1] in ("sum", "fold") for c_ in dn_.calls) and "patches" in dn_.names:
                for cl_ in prog.closures_of(tb.name):
                    d0_ = derive(index_of(cl_), {"c": {"l": 0, "p": [], "ty": ""}})
                    if "length" in d0_.names and not (d0_.names & {"size_on_disk", "hash_block_size", "unknown_a", "unknown_b"}):
                        acc_ok = True
        for p in Explorer(tb).explore():
            if p.end != "loop" or nl is None:
                continue
            for l, e in p.env.loc.items():
                if l == nl:
                    e = N(e)
                    if isinstance(e, tuple) and e[0] == "bin" and e[1] == "Add" and "length" in field_names(e) and ("v", l) in (e[2], e[3]):
                        acc_ok = True
        captured_mut = set()
        if nop is not None:
            for _b2, _s2, st_ in tb.stmts():
                rv_ = st_.get("rv") or {}
                if st_["k"] == "assign" and rv_.get("k") == "agg" and rv_.get("ak") == "closure":
                    for o_ in rv_["ops"]:
                        r_ = tix_.resolve(o_)
                        if r_[0] == "rv" and r_[1]["k"] == "ref" and r_[1].get("mut") is True and not r_[1]["p"]["p"]:
                            captured_mut.add(r_[1]["p"]["l"])
        if not acc_ok and nop is not None and (nl is not None or (captured_mut & dn_.locals)):
            # the same accumulation spelled with for_each: a closure of to_string adds `.length` into the variable it
            # captured by mutable reference
            for cl_ in prog.closures_of(tb.name):
                cix_ = index_of(cl_)
                for _b2, _s2, st_ in cl_.stmts():
                    if st_["k"] != "assign":
                        continue
                    rv_ = st_["rv"]
                    lhs_ = st_["lhs"]
                    through_capture = lhs_["l"] == 1 or (lhs_["p"] and lhs_["p"][0] == "*" and (cl_.locals[lhs_["l"]]["ty"].startswith("&mut") or lhs_["l"] == 1))
                    src_ = rv_.get("a")
                    if rv_["k"] == "use" and isinstance(src_, dict):
                        q_ = src_.get("m") or src_.get("c")
                        if q_ and len(q_["p"]) == 1 and isinstance(q_["p"][0], dict) and q_["p"][0].get("f") == 0:
                            d0_ = cix_.single_def(q_["l"])
                            if d0_ and d0_[0] == "assign" and d0_[3]["rv"]["k"] == "bin" and d0_[3]["rv"]["op"].startswith("Add"):
                                rv_ = d0_[3]["rv"]
                    if rv_["k"] == "bin" and rv_["op"].startswith("Add") and through_capture:
                        da_, db_ = derive(cix_, rv_["a"]), derive(cix_, rv_["b"])
                        if "length" in (da_.names | db_.names) and 1 in (da_.params | db_.params):
                            acc_ok = True
        ctx.ob("LABEL", "total-is-sum-of-lengths", acc_ok, f"the number written after the label is `{arg or 'an expression'}`, which must accumulate patches[..].length", tb.file, tb.line)
    # parse input must not still carry the label
    parses = []
    for p in Explorer(fb).explore():
        for (_bb, callee, args, res) in p.events:
            if callee.endswith("str>::parse") or callee.split("::")[-1] == "parse":
                # u64 target = the patch_length parse
                parses.append((args[0], res, _bb))
    seen_bb = set()
    n_parse = 0
    for a0, res, bb in parses:
        if bb in seen_bb:
            continue
        seen_bb.add(bb)
        blk = fb.blocks[bb]["t"]
        ga = (blk["f"].get("k") or {}).get("ga", [])
        if ga != ["u64"]:
            continue
        n_parse += 1
        tag = prefix_tag(a0)
        bad = tag is not None and not (tag[:1].isdigit() or tag[:1] in "+-")
        ctx.ob("LABEL", "label-skipped-before-parse", not bad, f"parse::<u64>() input {show(a0)[:120]} " + (f"still starts with {tag!r}: the parse can never succeed and patch_length stays 0" if bad else "does not carry a non-numeric literal prefix"), fb.file, int(blk["sp"]["at"].split(":")[-2]), sample=True)
    ctx.floor("LABEL", "parse::<u64> sites feeding patch_length", n_parse, 1)
    # the label is searched in the whole response: the number is followed by the CRLF CRLF that ends the part header, so
    # a receiver cut at a header/body boundary no longer contains the terminator the number is cut at
    recv = []
    for p in Explorer(fb).explore():
        for (_bb, callee, args, _res) in p.events:
            if callee.split("::")[-1] in ("split_once", "find", "split") and len(args) >= 2:
                lit = args[1]
                while isinstance(lit, tuple) and lit[0] in ("ref", "deref"):
                    lit = lit[1]
                if isinstance(lit, tuple) and lit[0] == "ks" and lit[1] == LABEL:
                    r0 = args[0]
                    while isinstance(r0, tuple) and r0[0] in ("ref", "deref") and isinstance(r0[1], tuple):
                        r0 = r0[1]
                    recv.append(r0)
        if recv:
            break
    ctx.ob("LABEL", "searched-in-whole-response", bool(recv) and all(r0 == ("p", 2) for r0 in recv), f"the label is searched in {[show(r0)[:80] for r0 in recv[:2]]}; must be the whole `encoded` text (the number's CRLF terminator lies at the header/body boundary)", fb.file, fb.line)
    # the parsed value reaches the patch_length field of the result
    ok = False
    for p in Explorer(fb).explore():
        if p.end != "return":
            continue
        r = p.env.local(0)
        if isinstance(r, tuple) and r[0] == "agg" and r[2].startswith("patchlist::PatchList"):
            adt = prog.adts.get("patchlist::PatchList")
            names_ = [f["name"] for f in adt["variants"][0]["fields"]]
            v = dict(zip(names_, r[3])).get("patch_length")
            if v is not None and not is_const(N(v)):
                ok = True
    ctx.ob("LABEL", "patch_length-from-parse", ok, "the patch_length of the returned list is the (loop-carried) parsed value, not a constant", fb.file, fb.line)
