"""C13 — textures decode to the pixels their format defines.

Decided (structure of the decoders, no pixel is computed):
  W1/W4/W5  80-byte header, size_of::<TexHeader>() == wire size, TextureFormat codes, TEXTURE_TYPE3_D bit
  DISPATCH  BC1/BC3/BC5 arms hand decode_bc1/3/5 to the block walker with (width, height * depth); block walkers use
            4x4 blocks of 8/16/16 bytes and call their own block decoder; B8G8R8A8 arm stores source lanes 2,1,0,3
  LANES     color(r,g,b,a) packs [b,g,r,a]; Texture::decode projects bytes [2,1,0,3] => RGBA
  RGB565    5/6/5 expansion with bit replication
  BC1       endpoints from bytes 0..2 / 2..4 (LE), selectors from bytes 4..8 (LE), 2 bits each; q0 > q1: palette
            (2,1)/3 and (1,2)/3; else (1,1)/2 and black
  BC3A      alpha endpoints bytes 0,1; a0 > a1: six interpolants (6,1)..(1,6)/7; else four (4,1)..(1,4)/5 then 0, 255;
            selectors = LE u64 >> 16, 3 bits each; channel written with mask ^ (0xFF << 8*channel)
  BC3/BC5   BC3 = BC1 colour at bytes 8.. + alpha into channel 3; BC5 = alpha blocks into channel 2 (red) from bytes 0..
            and channel 1 (green) from bytes 8.., over an opaque black buffer
  TYPE      three-dimensional exactly when the attribute contains TEXTURE_TYPE3_D; width/height/depth copied
Not decided: pixel values, edge clipping arithmetic, depth handling of B4G4R4A4.
"""
from ..mir import const_int
from ..sym import Explorer, N, is_const, show, walk
from ..wrules import model, w1, w5_repr

TECHNIQUE = "static analysis: operator-tree reconstruction of the block decoders (palette weights, selector shifts, lane packing) matched against the BCn definitions; dispatch facts of the format switch; binrw layout/size/tag rules"
TRUSTED = ["rustc nightly MIR", "pv.sym expression reconstruction", "BC1/BC3/BC5 definitions as encoded in this rule", "pv/wire.py, spec/layouts.txt (Lumina TexHeader)"]


def lin(e, x0, x1):
    """(k0, k1, d) when e == (k0*x0 + k1*x1) / d (terms in any order), else None."""
    if not (isinstance(e, tuple) and e[0] == "bin" and e[1] == "Div" and is_const(e[3])):
        return None
    d = e[3][1]
    terms = []

    def flat(x):
        if isinstance(x, tuple) and x[0] == "bin" and x[1] == "Add":
            flat(x[2])
            flat(x[3])
        else:
            terms.append(x)

    flat(e[2])
    k = {0: 0, 1: 0}
    for t in terms:
        coef, base = 1, t
        if isinstance(t, tuple) and t[0] == "bin" and t[1] == "Mul":
            if is_const(t[2]):
                coef, base = t[2][1], t[3]
            elif is_const(t[3]):
                coef, base = t[3][1], t[2]
        if base == x0:
            k[0] += coef
        elif base == x1:
            k[1] += coef
        else:
            return None
    return (k[0], k[1], d)


def run(ctx):
    prog = ctx.prog
    ctx.decided("header layout/size, format codes, 3D attribute bit")
    ctx.decided("format dispatch, block geometry (4x4, 8/16/16 bytes), BGRA lane order")
    ctx.decided("RGB565 expansion, BC1 palette weights and selectors, BC3 alpha palette (both modes) and selectors, BC3/BC5 channel placement")
    ctx.decided("texture type flag and dimensions")
    ctx.decided("block counts ceil(dim/4) and the shape of the edge-clipping copy (CLIP)")
    ctx.not_decided("pixel values; B4G4R4A4 depth handling; BC1 3-colour black alpha (either convention accepted by the property)")

    w1(ctx, ["tex::TexHeader"])
    adt = prog.adts.get("tex::TexHeader")
    wm = model(ctx)
    it = wm.items.by_path.get("tex::TexHeader")
    ctx.ob("W4", "size_of::<TexHeader>", bool(adt and it) and adt.get("size") == wm.item_size(it) == 80, f"TexHeader: memory size {adt.get('size') if adt else None}, wire size {wm.item_size(it) if it else None}; the payload starts at size_of::<TexHeader>() so both must be 80", "src/tex.rs", None, sample=True)
    w5_repr(ctx, "tex::TextureFormat", {"B4G4R4A4": 0x1440, "B8G8R8A8": 0x1450, "BC1": 0x3420, "BC3": 0x3431, "BC5": 0x6230}, repr_ty="u32")
    flags = wm.bitflags_consts("TextureAttribute") or {}
    ctx.ob("W5", "TEXTURE_TYPE3_D", flags.get("TEXTURE_TYPE3_D") == 0x1000000 and wm.bitflags_repr("TextureAttribute") == "u32", f"TEXTURE_TYPE3_D = {flags.get('TEXTURE_TYPE3_D')}; reference 0x1000000 in a u32", "src/tex.rs", None)

    # ---- DISPATCH in Texture::from_existing
    fb = prog.body("tex::Texture::from_existing")
    if not fb:
        ctx.fail_closed("DISPATCH", "tex::Texture::from_existing not found")
    else:
        fmt = {int(v["discr"]): v["name"] for v in prog.adts["tex::TextureFormat"]["variants"]}
        from .. import dispatch as D

        sw = D.discr_switches(fb, "tex::TextureFormat")
        if not sw:
            ctx.fail_closed("DISPATCH", "format switch not found")
        else:
            _bi, _pl, arms, _o = max(sw, key=lambda s: len(s[2]))
            from ..prov import derive, index_of

            ix = index_of(fb)
            for v, tgt in arms.items():
                name = fmt.get(v)
                reg = D.region(fb, tgt)
                if name in ("BC1", "BC3", "BC5"):
                    want = {"BC1": "bcn::decode_bc1", "BC3": "bcn::decode_bc3", "BC5": "bcn::decode_bc5"}[name]
                    reif = [s["rv"].get("reify") for bi in reg for s in fb.blocks[bi]["s"] if s.get("rv", {}).get("k") == "cast" and s["rv"].get("reify")]
                    calls = [(bi, fb.blocks[bi]["t"]) for bi in reg if fb.blocks[bi]["t"]["k"] == "call" and (fb.blocks[bi]["t"].get("res") or "") == "tex::Texture::decode"]
                    dims_ok = False
                    for _b, t in calls:
                        dw, dh = derive(ix, t["args"][1]), derive(ix, t["args"][2])
                        dims_ok = dw.names >= {"width"} and "height" not in dw.names and dh.names >= {"height", "depth"} and "Mul" in dh.ops
                    ctx.ob("DISPATCH", f"{name}|decoder", reif == [want] and len(calls) == 1, f"{name} arm passes {reif} to Texture::decode; must be {want}", fb.file, fb.line, sample=(name == "BC3"))
                    ctx.ob("DISPATCH", f"{name}|dims", dims_ok, f"{name} arm decodes width x (height * depth)", fb.file, fb.line)
                if name == "B8G8R8A8":
                    # dst[offset + k] = src[offset + m]
                    lanes = {}
                    locs = {}
                    for bi in sorted(reg):
                        for s in fb.blocks[bi]["s"]:
                            rv = s.get("rv", {})
                            # src reads: _x = copy (*src_slice)[idx]
                            if rv.get("k") == "use":
                                pass
                    ex = Explorer(fb, max_paths=400)
                    for p in ex.explore(start_bb=tgt):
                        if p.end != "loop":
                            continue
                        for lv, val in p.env.mem.items():
                            # dst index expr and value expr
                            def off(e):
                                e = N(e)
                                if isinstance(e, tuple) and e[0] == "bin" and e[1] == "Add" and (is_const(e[2]) or is_const(e[3])):
                                    return e[2][1] if is_const(e[2]) else e[3][1]
                                if isinstance(e, tuple) and e[0] in ("v",):
                                    return 0
                                return None
                            if isinstance(lv, tuple) and lv[0] == "idx":
                                k = off(lv[2])
                                src_ix = [t for t in walk(val) if isinstance(t, tuple) and t[0] == "idx"]
                                m = off(src_ix[0][2]) if src_ix else None
                                if k is not None:
                                    lanes[k] = m
                        # Index::index_mut based stores appear as events
                        stores = []
                        for (_bb, callee, args, res) in p.events:
                            if callee.endswith("IndexMut<I>>::index_mut") or callee.endswith("Index<I>>::index"):
                                stores.append((callee.split("::")[-1], N(args[1])))
                    # ... one pixel per iteration: the byte offset is advanced by exactly 4 (constant self-updates of
                    # usize places inside the arm), and nothing in the arm steps backwards
                    steps = []
                    for bi in sorted(reg):
                        for s_ in fb.blocks[bi]["s"]:
                            rv_ = s_.get("rv") or {}
                            if s_.get("k") == "assign" and rv_.get("k") == "bin" and rv_["op"].replace("WithOverflow", "") in ("Add", "Sub", "Mul") and not (s_.get("sp") or {}).get("mx"):
                                kb_ = (rv_["b"].get("k") if isinstance(rv_["b"], dict) else None) or {}
                                src_ = rv_["a"].get("c") or rv_["a"].get("m") or {}
                                if "bits" in kb_ and str(src_.get("ty", "")) == "usize" and not src_.get("p"):
                                    # stored back into the same local (directly or through the checked pair)?
                                    tl_ = s_["lhs"]["l"]
                                    back = tl_ == src_.get("l") or any(s2.get("k") == "assign" and s2["lhs"].get("l") == src_.get("l") and not s2["lhs"].get("p") and ((s2.get("rv") or {}).get("a") or {}).get("m", ((s2.get("rv") or {}).get("a") or {}).get("c", {})).get("l") == tl_ for b2 in sorted(reg) for s2 in fb.blocks[b2]["s"])
                                    if back:
                                        steps.append((rv_["op"].replace("WithOverflow", ""), int(str(kb_["bits"]), 0)))
                    if steps:
                        ctx.ob("DISPATCH", "B8G8R8A8|stride", all(st_ == ("Add", 4) for st_ in steps), f"B8G8R8A8 arm advances its byte offset by {steps}; one BGRA pixel is 4 bytes", fb.file, fb.line)
                    ctx.ob("DISPATCH", "B8G8R8A8|lanes", lanes == {0: 2, 1: 1, 2: 0, 3: 3} or _bgra_lanes(fb, reg) == {0: 2, 1: 1, 2: 0, 3: 3}, f"B8G8R8A8 stores dst lanes from src lanes {lanes or _bgra_lanes(fb, reg)}; BGRA -> RGBA is {{0: 2, 1: 1, 2: 0, 3: 3}}", fb.file, fb.line)
        # texture type and dimensions
        ok_t = False
        for p in Explorer(fb, max_paths=3000).explore():
            if p.end != "return":
                continue
            r = p.env.local(0)
            if isinstance(r, tuple) and r[0] == "agg" and r[2].endswith("Option::Some"):
                conds = [(d, c) for d, c in p.conds if isinstance(d, tuple) and d[0] == "call" and d[1].endswith("::contains")]
                tex = r[3][0]
                if conds and isinstance(tex, tuple) and tex[0] == "agg":
                    names = [f["name"] for f in prog.adts["tex::Texture"]["variants"][0]["fields"]]
                    vals = dict(zip(names, tex[3]))
                    flag_arg = conds[-1][0][2][1] if len(conds[-1][0][2]) > 1 else None
                    is3d = any(isinstance(t, tuple) and t[0] == "kz" for t in walk(flag_arg)) or any(isinstance(t, tuple) and t[0] in ("kb",) for t in walk(flag_arg))
                    truth = conds[-1][1] != ("eq", 0)
                    tt = vals.get("texture_type")
                    variant = tt[2].split("::")[-1] if isinstance(tt, tuple) and tt[0] == "agg" else None
                    dims = all(any(isinstance(t, tuple) and t[0] == "fld" and t[2] == nm for t in walk(vals.get(nm))) for nm in ("width", "height", "depth"))
                    if (variant == "ThreeDimensional") == truth and dims:
                        ok_t = True
                    else:
                        ok_t = False
                        break
        ctx.ob("TYPE", "texture-type-and-dims", ok_t, "texture_type is ThreeDimensional exactly on the contains(TEXTURE_TYPE3_D) edge; width/height/depth are the header's", fb.file, fb.line)
        # the flag tested is TEXTURE_TYPE3_D
        flag_ok = False
        for _bi, t in fb.calls():
            if (t.get("res") or "").endswith("TextureAttribute::contains"):
                k = (t["args"][1].get("k") or {}) if len(t["args"]) > 1 else {}
                from ..panic import BodyIndex

                r = BodyIndex(fb).resolve(t["args"][1])
                txt = str(k.get("uneval") or "") + str(r)
                flag_ok = "TEXTURE_TYPE3_D" in txt or str(0x1000000) in txt or "00000001" in txt
        ctx.ob("TYPE", "flag", flag_ok, "the attribute tested is TextureAttribute::TEXTURE_TYPE3_D", fb.file, fb.line)

    # block walkers
    for name, raw, blk in (("decode_bc1", 8, "decode_bc1_block"), ("decode_bc3", 16, "decode_bc3_block"), ("decode_bc5", 16, "decode_bc5_block")):
        consts = {c.split("::")[-1]: prog.const_scalar(c) for c in prog.consts if c.startswith(f"bcn::{name}::")}
        ctx.ob("DISPATCH", f"{name}|block-geometry", consts.get("BLOCK_WIDTH") == 4 and consts.get("BLOCK_HEIGHT") == 4 and consts.get("BLOCK_SIZE") == 16, f"{name}: block constants {consts}; must be 4 x 4 = 16 pixels", "src/bcn/mod.rs", None)
        inner = prog.body(f"bcn::{name}::{{closure#0}}::{{closure#0}}")
        outer = prog.body(f"bcn::{name}")
        if not inner or not outer:
            ctx.fail_closed("DISPATCH", f"bcn::{name} block walker closures not found")
            continue
        callees = [(t.get("res") or "") for _bi, t in inner.calls()]
        adv = set()
        for _bi, _si, s in inner.stmts():
            rv = s.get("rv", {})
            if rv.get("k") == "bin" and rv["op"].startswith("Add") and const_int(rv["b"]) is not None:
                adv.add(const_int(rv["b"]))
        chk = set()
        for _bi, _si, s in outer.stmts():
            rv = s.get("rv", {})
            if rv.get("k") == "bin" and rv["op"].startswith("Mul") and const_int(rv["b"]) is not None:
                chk.add(const_int(rv["b"]))
        ctx.ob("DISPATCH", f"{name}|block-decoder", any(c.endswith("::" + blk) for c in callees) and any(c.endswith("copy_block_buffer") for c in callees), f"{name} calls {[c.split('::')[-1] for c in callees if 'bcn' in c]}; must call {blk} then copy_block_buffer", inner.file, inner.line)
        ctx.ob("DISPATCH", f"{name}|raw-block-size", adv == {raw} and raw in chk, f"{name}: data offset advances by {sorted(adv)}, size check multiplies by {sorted(chk)}; raw block size is {raw}", inner.file, inner.line)

    # ---- CLIP: block placement and edge clipping (shape of copy_block_buffer and of the block counts)
    cbb = prog.body("bcn::color::copy_block_buffer")
    if not cbb:
        ctx.fail_closed("CLIP", "bcn::color::copy_block_buffer not found")
    else:
        from ..sym import norm_bin

        V = lambda i: ("v", i)  # noqa: E731  params: bx=1 by=2 w=3 h=4 bw=5 bh=6 buffer=7 image=8
        K1 = ("k", 1, "int")
        cx = norm_bin("Gt", norm_bin("Mul", norm_bin("Add", K1, V(1)), V(5)), V(3))
        cy = norm_bin("Gt", norm_bin("Mul", norm_bin("Add", K1, V(2)), V(6)), V(4))
        wclip = norm_bin("Sub", V(3), norm_bin("Mul", V(1), V(5)))
        hclip = norm_bin("Sub", V(4), norm_bin("Mul", V(2), V(6)))
        names = {v_: k_ for k_, v_ in cbb.local_names().items()}
        ok_w = ok_h = True
        n_paths = 0
        img_ok = buf_ok = False
        for p in Explorer(cbb).explore():
            conds = {repr(N(d)): (c != ("eq", 0)) for d, c in p.conds}
            if repr(N(cx)) not in conds or repr(N(cy)) not in conds:
                continue
            n_paths += 1
            cw = N(p.env.local(names.get("copy_width", -1)))
            ch = N(p.env.local(names.get("copy_height", -1)))
            ok_w = ok_w and cw == (N(wclip) if conds[repr(N(cx))] else V(5))
            ok_h = ok_h and ch == (N(hclip) if conds[repr(N(cy))] else V(6))
            if p.end == "loop":
                io = N(p.env.local(names.get("image_offset", -1)))
                if isinstance(io, tuple) and io[0] == "bin" and io[1] == "Add":
                    parts = (io[2], io[3])
                    xterm = N(norm_bin("Mul", V(1), V(5)))
                    yterm = [q for q in parts if isinstance(q, tuple) and q[0] == "bin" and q[1] == "Mul" and V(3) in (q[2], q[3]) and q != xterm]
                    img_ok = xterm in parts and bool(yterm)
                bo = N(p.env.local(names.get("buffer_offset", -1)))
                buf_ok = isinstance(bo, tuple) and bo[0] == "bin" and bo[1] == "Add" and V(5) in (bo[2], bo[3])
        ctx.ob("CLIP", "copy-width", n_paths >= 4 and ok_w, "copy_width = w - bw*bx when bw*(bx+1) > w, else bw", cbb.file, cbb.line, sample=True)
        ctx.ob("CLIP", "copy-height", n_paths >= 4 and ok_h, "copy_height = h - bh*by when bh*(by+1) > h, else bh", cbb.file, cbb.line)
        ctx.ob("CLIP", "image-offset", img_ok, "row y of a block lands at image[y*w + bw*bx ..]", cbb.file, cbb.line)
        ctx.ob("CLIP", "buffer-stride", buf_ok, "the block buffer is read with a stride of bw pixels per row", cbb.file, cbb.line)
    for name in ("decode_bc1", "decode_bc3", "decode_bc5"):
        ob_ = prog.body(f"bcn::{name}")
        if not ob_:
            continue
        nm = {v_: k_ for k_, v_ in ob_.local_names().items()}
        want = lambda dim: N(("bin", "Div", ("bin", "Sub", ("bin", "Add", ("k", 4, "int"), ("v", dim)), ("k", 1, "int")), ("k", 4, "int")))  # noqa: E731
        got = None
        for p in Explorer(ob_).explore():
            if "num_blocks_x" in nm and nm["num_blocks_x"] in p.env.loc and nm.get("num_blocks_y") in p.env.loc:
                got = (N(p.env.local(nm["num_blocks_x"])), N(p.env.local(nm["num_blocks_y"])))
                break
        ctx.ob("CLIP", f"{name}|block-counts", got == (want(2), want(3)), f"{name}: block counts {tuple(show(g) for g in got) if got else None}; must be ceil(width / 4) x ceil(height / 4)", ob_.file, ob_.line)

    # ---- LANES
    cb = prog.body("bcn::color::color")
    if cb:
        r = [p.env.local(0) for p in Explorer(cb).explore() if p.end == "return"]
        arr = [t for t in walk(r[0]) if isinstance(t, tuple) and t[0] == "agg" and t[1] == "array"] if r else []
        order = [x[1] if isinstance(x, tuple) and x[0] == "p" else None for x in arr[0][3]] if arr else None
        le = any(isinstance(t, tuple) and t[0] == "call" and t[1].endswith("from_le_bytes") for t in walk(r[0])) if r else False
        ctx.ob("LANES", "color-pack", order == [3, 2, 1, 4] and le, f"color(r,g,b,a) packs parameters {order} little-endian; must be [b, g, r, a]", cb.file, cb.line, sample=True)
    else:
        ctx.fail_closed("LANES", "bcn::color::color not found")
    # the per-pixel projection lives in a closure of decode or in a local fn handed to the adaptor
    dc = [c for c in prog.deep_bodies("tex::Texture::decode") if c.name != "tex::Texture::decode"]
    proj = None
    for c in dc:
        for p in Explorer(c).explore():
            if p.end != "return":
                continue
            r = p.env.local(0)
            if isinstance(r, tuple) and r[0] == "agg" and r[1] == "array" and len(r[3]) == 4:
                proj = []
                for x in r[3]:
                    ix_ = [t for t in walk(x) if isinstance(t, tuple) and t[0] == "idx" and is_const(t[2])]
                    proj.append(ix_[0][2][1] if ix_ else None)
                le = any(isinstance(t, tuple) and t[0] == "call" and t[1].endswith("to_le_bytes") for t in walk(r))
                if not le:
                    proj = None
    ctx.ob("LANES", "decode-projection", proj == [2, 1, 0, 3], f"Texture::decode emits little-endian bytes {proj} of each pixel; with the [b,g,r,a] packing this must be [2, 1, 0, 3] (RGBA)", "src/tex.rs", None)

    # ---- RGB565
    rb = prog.body("bcn::color::rgb565_le")
    if rb:
        r = [N(p.env.local(0)) for p in Explorer(rb).explore() if p.end == "return"]
        D_ = ("v", 1)

        def sh(op, k):
            return ("bin", op, D_, ("k", k, "int"))

        def band(a, m):
            from ..sym import norm_bin

            return norm_bin("BitAnd", a, ("k", m, "int"))

        def bor(a, b):
            from ..sym import norm_bin

            return norm_bin("BitOr", a, b)

        want = ("agg", "tuple", "tuple", (bor(band(sh("Shr", 8), 0xF8), sh("Shr", 13)), bor(band(sh("Shr", 3), 0xFC), band(sh("Shr", 9), 3)), bor(sh("Shl", 3), band(sh("Shr", 2), 7))), None)
        ctx.ob("RGB565", "expansion", bool(r) and r[0] == N(want), f"rgb565_le(d) = {show(r[0])[:200] if r else None}; reference (d>>8&0xf8 | d>>13, d>>3&0xfc | d>>9&3, d<<3 | d>>2&7)", rb.file, rb.line, sample=True)
    else:
        ctx.fail_closed("RGB565", "bcn::color::rgb565_le not found")

    # ---- BC1
    b1 = prog.body("bcn::bc1::decode_bc1_block")
    if not b1:
        ctx.fail_closed("BC1", "bcn::bc1::decode_bc1_block not found")
    else:
        paths = [p for p in Explorer(b1).explore() if p.end == "return"]
        names = {v: k for k, v in b1.local_names().items()}
        mode = {}
        for p in paths:
            cond = [(N(d), c) for d, c in p.conds if isinstance(N(d), tuple) and N(d)[0] == "bin" and N(d)[1] in ("Gt", "Lt", "Ge", "Le")]
            if not cond:
                continue
            d, c = cond[0]
            truth = c != ("eq", 0)
            q0 = N(p.env.local(names["q0"])) if "q0" in names else None
            q1 = N(p.env.local(names["q1"])) if "q1" in names else None
            gt = (d[1] == "Gt" and d[2] == q0 and d[3] == q1) or (d[1] == "Lt" and d[2] == q1 and d[3] == q0)
            four = truth if gt else None
            carr = None
            for l, e in p.env.loc.items():
                if b1.local_names().get(l) == "c":
                    carr = N(e)
            if four is None or not (isinstance(carr, tuple) and carr[0] == "agg" and len(carr[3]) == 4):
                continue
            ep = []
            for q in (q0, q1):
                ep.append([("fld", ("call", "bcn::color::rgb565_le", (q,)), i) for i in range(3)])
            out = []
            for ci in (2, 3):
                col = carr[3][ci]
                if isinstance(col, tuple) and col[0] == "call" and col[1].endswith("color::color"):
                    ws = []
                    for ch in range(3):
                        a = col[2][ch]
                        if is_const(a):
                            ws.append(("const", a[1]))
                        else:
                            ws.append(lin(a, ep[0][ch], ep[1][ch]))
                    out.append(ws)
                else:
                    out.append(None)
            mode["four" if four else "three"] = out
            # endpoints / selector bytes
            if four:
                e0 = [t[2][1] for t in walk(q0) if isinstance(t, tuple) and t[0] == "idx" and is_const(t[2])]
                e1 = [t[2][1] for t in walk(q1) if isinstance(t, tuple) and t[0] == "idx" and is_const(t[2])]
                dsel = None
                for l, e in p.env.loc.items():
                    if b1.local_names().get(l) == "d":
                        dsel = e
                rng = [t for t in walk(dsel) if isinstance(t, tuple) and t[0] == "agg" and "Range" in t[2]] if dsel else []
                rr = (N(rng[0][3][0])[1], N(rng[0][3][1])[1]) if rng else None
                le = all(any(isinstance(t, tuple) and t[0] == "call" and t[1].endswith("from_le_bytes") for t in walk(x)) for x in (q0, q1, dsel) if x is not None)
                ctx.ob("BC1", "byte-layout", e0 == [0, 1] and e1 == [2, 3] and rr == (4, 8) and le, f"BC1 endpoints from bytes {e0}/{e1}, selectors from bytes {rr}, little-endian {le}; reference [0,1]/[2,3]/(4,8)", b1.file, b1.line)
        want4 = [[(2, 1, 3)] * 3, [(1, 2, 3)] * 3]
        want3_c2 = [(1, 1, 2)] * 3
        ctx.ob("BC1", "four-colour-palette", mode.get("four") == want4, f"q0 > q1: c2, c3 weights (k0, k1, divisor) per channel = {mode.get('four')}; reference (2,1)/3 and (1,2)/3", b1.file, b1.line, sample=True)
        m3 = mode.get("three")
        ctx.ob("BC1", "three-colour-palette", bool(m3) and m3[0] == want3_c2 and m3[1] is not None and all(w == ("const", 0) for w in m3[1]), f"q0 <= q1: c2 = {m3[0] if m3 else None} (reference (1,1)/2), c3 = {m3[1] if m3 else None} (reference black)", b1.file, b1.line)
        cl = prog.body("bcn::bc1::decode_bc1_block::{closure#0}")
        ok = False
        if cl:
            masks, shifts = set(), set()
            for _bi, _si, s in cl.stmts():
                rv = s.get("rv", {})
                if rv.get("k") == "bin" and rv["op"] == "BitAnd" and const_int(rv["b"]) is not None:
                    masks.add(const_int(rv["b"]))
                if rv.get("k") == "bin" and rv["op"] in ("Shr", "ShrUnchecked") and const_int(rv["b"]) is not None:
                    shifts.add(const_int(rv["b"]))
            ok = masks == {3} and shifts == {2}
            ctx.ob("BC1", "selectors", ok, f"BC1 selector masks {sorted(masks)}, shifts {sorted(shifts)}; reference 2 bits per pixel", cl.file, cl.line)
        rngs = [const_int(s["rv"]["ops"][1]) for _b, _s, s in b1.stmts() if s.get("rv", {}).get("k") == "agg" and s["rv"].get("adt", "").endswith("ops::Range") and const_int(s["rv"]["ops"][0]) == 0]
        ctx.ob("BC1", "sixteen-pixels", 16 in rngs, f"selector loop ranges {rngs}; 16 pixels per block", b1.file, b1.line, trivial=True)

    # ---- BC3 alpha
    ab = prog.body("bcn::bc3::decode_bc3_alpha")
    if not ab:
        ctx.fail_closed("BC3A", "bcn::bc3::decode_bc3_alpha not found")
    else:
        paths = [p for p in Explorer(ab).explore() if p.end == "return"]
        got = {}
        for p in paths:
            cond = [(N(d), c) for d, c in p.conds if isinstance(N(d), tuple) and N(d)[0] == "bin" and N(d)[1] in ("Gt", "Lt")]
            if not cond:
                continue
            d, c = cond[0]
            truth = c != ("eq", 0)
            arr = None
            for l, e in p.env.loc.items():
                if ab.local_names().get(l) == "a":
                    arr = N(e)
            if not (isinstance(arr, tuple) and arr[0] == "agg" and len(arr[3]) == 8):
                continue
            a0, a1 = arr[3][0], arr[3][1]
            gt = d[1] == "Gt" and d[2] == a0 and d[3] == a1
            if not gt:
                continue
            ws = []
            for i in range(2, 8):
                x = arr[3][i]
                ws.append(("const", x[1]) if is_const(x) else lin(x, a0, a1))
            got["six" if truth else "four"] = ws
            b0 = [t[2][1] for t in walk(a0) if isinstance(t, tuple) and t[0] == "idx" and is_const(t[2])]
            b1_ = [t[2][1] for t in walk(a1) if isinstance(t, tuple) and t[0] == "idx" and is_const(t[2])]
            got["bytes"] = (b0, b1_)
        ctx.ob("BC3A", "six-interpolants", got.get("six") == [(6, 1, 7), (5, 2, 7), (4, 3, 7), (3, 4, 7), (2, 5, 7), (1, 6, 7)], f"a0 > a1: palette weights {got.get('six')}; reference (6,1)..(1,6) / 7", ab.file, ab.line, sample=True)
        ctx.ob("BC3A", "four-interpolants", got.get("four") == [(4, 1, 5), (3, 2, 5), (2, 3, 5), (1, 4, 5), ("const", 0), ("const", 255)], f"a0 <= a1: palette {got.get('four')}; reference (4,1)..(1,4) / 5 then 0 and 255", ab.file, ab.line)
        ctx.ob("BC3A", "endpoint-bytes", got.get("bytes") == ([0], [1]), f"alpha endpoints from bytes {got.get('bytes')}", ab.file, ab.line, trivial=True)
        sel_ok = False
        for p in paths:
            for l, e in p.env.loc.items():
                if ab.local_names().get(l) == "d":
                    e = N(e)
                    if isinstance(e, tuple) and e[0] == "bin" and e[1] == "Shr" and is_const(e[3]) and e[3][1] == 16 and any(isinstance(t, tuple) and t[0] == "call" and t[1].endswith("u64>::from_le_bytes") or (isinstance(t, tuple) and t[0] == "call" and t[1].endswith("from_le_bytes")) for t in walk(e)):
                        rng = [t for t in walk(e) if isinstance(t, tuple) and t[0] == "agg" and "RangeTo" in t[2]]
                        sel_ok = bool(rng) and N(rng[0][3][0])[1] == 8
        ctx.ob("BC3A", "selector-word", sel_ok, "alpha selectors = LE u64 of bytes 0..8 shifted right by 16", ab.file, ab.line)
        cl = prog.body("bcn::bc3::decode_bc3_alpha::{closure#0}")
        if cl:
            masks, shifts = set(), set()
            for _bi, _si, s in cl.stmts():
                rv = s.get("rv", {})
                if rv.get("k") == "bin" and rv["op"] == "BitAnd" and const_int(rv["b"]) is not None:
                    masks.add(const_int(rv["b"]))
                if rv.get("k") == "bin" and rv["op"] in ("Shr", "ShrUnchecked") and const_int(rv["b"]) is not None:
                    shifts.add(const_int(rv["b"]))
            ctx.ob("BC3A", "selectors", masks == {7} and shifts == {3}, f"alpha selector masks {sorted(masks)}, shifts {sorted(shifts)}; reference 3 bits per pixel", cl.file, cl.line)
        consts = set()
        for _bi, _si, s in ab.stmts():
            rv = s.get("rv", {})
            if rv.get("k") == "bin" and rv["op"].replace("WithOverflow", "") in ("Mul", "Shl", "BitXor") and rv["op"] != "Mul" or (rv.get("k") == "bin" and rv["op"].startswith("Mul") and s["lhs"]["ty"] in ("usize", "(usize, bool)")):
                for o in (rv["a"], rv["b"]):
                    v = const_int(o)
                    if v is not None:
                        consts.add((rv["op"].replace("WithOverflow", ""), v & 0xFFFFFFFF))
        ctx.ob("BC3A", "channel-mask", ("Mul", 8) in consts and ("Shl", 0xFF) in consts and ("BitXor", 0xFFFFFFFF) in consts, f"channel arithmetic constants {sorted(consts)}; reference shift = channel * 8, mask = 0xFFFFFFFF ^ (0xFF << shift)", ab.file, ab.line)

    # ---- BC3 / BC5 composition
    for fn, want in (("bcn::bc3::decode_bc3_block", [("decode_bc1_block", 8, None), ("decode_bc3_alpha", 0, 3)]), ("bcn::bc5::decode_bc5_block", [("decode_bc3_alpha", 0, 2), ("decode_bc3_alpha", 8, 1)])):
        b = prog.body(fn)
        if not b:
            ctx.fail_closed("COMPOSE", f"{fn} not found")
            continue
        got = []
        for p in Explorer(b).explore():
            if p.end != "return":
                continue
            for (_bb, callee, args, _r) in p.events:
                last = callee.split("::")[-1]
                if last in ("decode_bc1_block", "decode_bc3_alpha"):
                    rng = [t for t in walk(args[0]) if isinstance(t, tuple) and t[0] == "agg" and "RangeFrom" in t[2]]
                    off = N(rng[0][3][0])[1] if rng else 0
                    ch = N(args[2])[1] if len(args) > 2 and is_const(N(args[2])) else None
                    got.append((last, off, ch))
        ctx.ob("COMPOSE", fn.split("::")[-1], got == want, f"{fn.split('::')[-1]} = {got}; reference {want} (decoder, data offset, channel)", b.file, b.line, sample=True)
    # BC5 / block walkers start from an opaque black buffer
    for name in ("decode_bc1", "decode_bc3", "decode_bc5"):
        ob_ = prog.body(f"bcn::{name}")
        if ob_:
            init = None
            for p in Explorer(ob_).explore():
                for (_bb, callee, args, _r) in p.events:
                    if callee.endswith("color::color"):
                        init = tuple(N(a)[1] if is_const(N(a)) else None for a in args)
                for l, e in p.env.loc.items():
                    for t in walk(e):
                        if isinstance(t, tuple) and t[0] == "call" and t[1].endswith("color::color"):
                            init = tuple(N(a)[1] if is_const(N(a)) else None for a in t[2])
            kconst = [c for c in prog.consts.values() if c["path"].startswith(f"bcn::{name}")]
            ctx.ob("COMPOSE", f"{name}|initial-buffer", init == (0, 0, 0, 255) or _promoted_black(ob_), f"{name}: block buffer is initialised with color{init}; BC5 relies on opaque black", ob_.file, ob_.line, trivial=(name != "decode_bc5"))


def _promoted_black(body):
    """The [color(0,0,0,255); 16] initialiser may be const-evaluated: look for a repeat of 0xFF000000."""
    for _bi, _si, s in body.stmts():
        rv = s.get("rv", {})
        if rv.get("k") == "repeat":
            v = const_int(rv["a"])
            if v is not None and (v & 0xFFFFFFFF) == 0xFF000000:
                return True
            k = rv["a"].get("k") or {}
            if k.get("bits") and int(k["bits"]) == 0xFF000000:
                return True
    return False


def _bgra_lanes(body, region):
    """dst[offset + k] = src[offset + m] pairs from the straight-line loop body of the B8G8R8A8 arm (MIR level)."""
    from ..panic import BodyIndex, expr_key

    ix = BodyIndex(body)
    names = body.local_names()
    src_lane = {}
    out = {}
    for bi in sorted(region):
        blk = body.blocks[bi]
        t = blk["t"]
        if t["k"] == "call" and (t.get("res") or "").endswith("Index<I>>::index") and len(t["args"]) == 2:
            k = expr_key(ix, t["args"][1])
            lane = 0 if (k and k[0] == "pl") else (k[2][1] if k and k[0] == "Add" and k[2] and k[2][0] == "c" else (k[1][1] if k and k[0] == "Add" and k[1] and k[1][0] == "c" else None))
            src_lane[t["dest"]["l"]] = lane
        if t["k"] == "call" and (t.get("res") or "").endswith("IndexMut<I>>::index_mut") and len(t["args"]) == 2:
            k = expr_key(ix, t["args"][1])
            lane = 0 if (k and k[0] == "pl") else (k[2][1] if k and k[0] == "Add" and k[2] and k[2][0] == "c" else (k[1][1] if k and k[0] == "Add" and k[1] and k[1][0] == "c" else None))
            # the stored value: next block's assignment (*dest) = src_x where src_x named src_r etc.
            dst = t["dest"]["l"]
            nb = body.blocks[t["t"]] if t.get("t", -1) >= 0 else None
            if nb:
                for s in nb["s"]:
                    if s["k"] == "assign" and s["lhs"]["l"] == dst and s["lhs"]["p"] == ["*"]:
                        from ..mir import op_place

                        p = op_place(s["rv"].get("a", {})) if s["rv"]["k"] == "use" else None
                        hops = 0
                        while p is not None and hops < 4:
                            hops += 1
                            if p["l"] in src_lane:
                                out[lane] = src_lane[p["l"]]
                                break
                            d = ix.single_def(p["l"])
                            if d and d[0] == "assign" and d[3]["rv"]["k"] == "use":
                                p = op_place(d[3]["rv"]["a"])
                            else:
                                break
    return out
