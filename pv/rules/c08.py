"""C08 — config and list text files survive parse / edit / write unchanged.

Decided:
  SEPS     the separators and terminators the writers emit are the ones the readers split on: CRLF category blocks
           `<name>`, key TAB value CRLF, trailing NUL line; `EXLT,<version>` header, LF rows `name,id`, `#` comments
  ORDER    writers iterate the ordered lists the readers fill by push (categories, keys per category, list entries);
           written arguments are (key, value) / (name, id) in the order the readers take them apart
  SETVALUE set_value visits every category and every key (no exit from its loops other than exhaustion), compares the
           key half of each pair with the requested key and stores only into the value half, from the new value
  QUERIES  has_key compares against the key half over all categories; has_category consults the category list;
           EXL::contains compares entry names
Not decided: byte-for-byte round trip on all inputs, duplicate category names, values containing structural characters.
"""
from .. import fmt
from ..mir import const_int
from ..prov import derive, index_of
from ..sym import Explorer, N, is_const, show, walk

TECHNIQUE = "static analysis: writer format templates vs reader split literals (pairwise separator table); loop-exit structure and store provenance of set_value on the CFG; derives-from obligations for the queries"
TRUSTED = ["rustc nightly MIR", "syn-extracted format templates", "std semantics of BufRead::lines (splits on LF, strips a trailing CR)"]


def str_lits(body):
    """String/char literals used as arguments of calls in a body: callee-last-name -> set of literals."""
    out = {}
    for p in Explorer(body, max_paths=3000).explore():
        for (_bb, callee, args, _r) in p.events:
            last = callee.split("::")[-1]
            for a in args:
                t = a
                while isinstance(t, tuple) and t[0] in ("ref", "deref"):
                    t = t[1]
                if isinstance(t, tuple) and t[0] == "ks":
                    out.setdefault(last, set()).add(t[1])
                if isinstance(t, tuple) and t[0] == "k" and isinstance(t[1], int) and t[2] == "char":
                    out.setdefault(last, set()).add(chr(t[1]))
                if isinstance(t, tuple) and t[0] == "agg" and t[1] == "array":
                    for el in t[3]:
                        if isinstance(el, tuple) and el[0] == "k" and isinstance(el[1], int) and el[2] == "char":
                            out.setdefault(last, set()).add(chr(el[1]))
                if isinstance(t, tuple) and t[0] == "kb" and "[char;" in t[2]:
                    # a constant array of chars used as a pattern: contains(['<', '>'])
                    raw = bytes.fromhex(t[1])
                    for i in range(0, len(raw) - 3, 4):
                        out.setdefault(last, set()).add(chr(int.from_bytes(raw[i : i + 4], "little")))
    return out


def emitted(body):
    """Candidate descriptions of the text a writer emits, as pv.strx pieces: the format sites of the body concatenated in
    dominance order (write_all(format!(..)) / write!(..) per piece of the file), and the String handed to into_bytes /
    as_bytes (a writer that builds the text with push / push_str / format! and converts it at the end)."""
    from ..strx import StrX, merge

    sx = StrX(body)
    out = []
    sites = sx.format_sites()
    sites.sort(key=lambda x: (len([1 for y in sites if y[0] != x[0] and body.dominates(y[0], x[0])]), x[0]))
    if sites:
        cat_ = []
        for _bi, pcs in sites:
            cat_ += pcs
        out.append(merge(cat_))
    for _bi, t in body.calls():
        last = (t.get("res") or "").split("::")[-1]
        if last in ("into_bytes", "as_bytes", "into_boxed_str") and t["args"]:
            out.append(sx.string(t["args"][0]))
    return out, sx


def _shape2(pcs):
    return [("lit", p[1]) if p[0] == "lit" else (p[0],) for p in pcs]


def _arg_ops(pcs):
    return [p[3] if p[0] == "arg" else (p[1] if p[0] == "opaque" else None) for p in pcs if p[0] != "lit"]


def exl_reader(ctx, er, rule, order_rule):
    """Obligations on EXL::from_existing (shared with C05, which locates sheets through the parsed root list)."""
    rl = str_lits(er)
    ctx.ob(rule, "exl|reader-comma", rl.get("split_once", set()) == {","}, f"reader splits rows on {sorted(rl.get('split_once', set()))}", er.file, er.line)
    eqs = set()
    for k_, v in rl.items():
        if k_ in ("eq", "ne"):
            eqs |= v
    ctx.ob(rule, "exl|reader-header-name", "EXLT" in eqs, f"reader recognises the header row by comparing the name with {sorted(eqs)}", er.file, er.line)
    ctx.ob(rule, "exl|reader-comment", rl.get("starts_with", set()) == {"#"}, f"reader skips rows starting with {sorted(rl.get('starts_with', set()))}", er.file, er.line)
    calls_r = [(t.get("res") or "") for _bi, t in er.calls()]
    # rows end with LF or CRLF (the retail root list uses CRLF): lines() strips both; a manual split on LF must drop the CR
    lines_ok = any(c.endswith("::lines") for c in calls_r)
    manual = "\n" in (rl.get("split", set()) | rl.get("split_terminator", set())) and ("\r" in (rl.get("trim_end_matches", set()) | rl.get("strip_suffix", set())) or any(c.endswith("str::trim_end") or c.endswith("str::trim") for c in calls_r))
    ctx.ob(rule, "exl|reader-lines", lines_ok or manual, "reader splits rows with lines() (LF, a trailing CR stripped) or splits on LF and drops the CR itself", er.file, er.line)
    # version/entries destinations
    eix = index_of(er)
    ver = ent = False
    for _bi, _si, s in er.stmts():
        if s["k"] == "assign" and any(isinstance(pr, dict) and pr.get("n") == "version" for pr in s["lhs"]["p"]):
            ver = True
    for _bi, t in er.calls():
        if (t.get("res") or "").endswith("::push") and "entries" in derive(eix, t["args"][0]).names:
            ent = True
    ctx.ob(order_rule, "exl|reader-destinations", ver and ent, "the EXLT row sets version; other rows are appended to entries in file order", er.file, er.line)


def eq_sides(body, ix):
    """For every `PartialEq::eq` / `ne` call whose result is branched on: (block of the call, block entered when the two
    operands are EQUAL, block entered when they differ)."""
    out = []
    for bi, t in body.calls():
        c = t.get("res") or ""
        last = c.split("::")[-1]
        if "PartialEq" not in c or last not in ("eq", "ne") or t.get("t", -1) < 0:
            continue
        d = t["dest"]["l"]
        for sb_i, blk in enumerate(body.blocks):
            tt = blk["t"]
            if tt["k"] != "switch" or blk["cleanup"]:
                continue
            pl = tt["a"].get("c") or tt["a"].get("m") or {}
            src = pl.get("l")
            r = ix.resolve(tt["a"])
            if src != d and not (r[0] == "call" and r[1] is t):
                continue
            zero = [int(tg) for v_, tg in tt["arms"] if int(v_) == 0]
            if not zero or not isinstance(tt.get("else"), int):
                continue
            t_true, t_false = tt["else"], zero[0]
            out.append((bi, t_true, t_false) if last == "eq" else (bi, t_false, t_true))
    return out


def run(ctx):
    prog = ctx.prog
    ctx.decided("writer separators/terminators equal reader split characters for both formats (SEPS)")
    ctx.decided("ordered containers and argument order on both sides (ORDER)")
    ctx.decided("set_value loop exhaustiveness and store provenance (SETVALUE)")
    ctx.decided("has_key / has_category / contains consult the authoritative fields (QUERIES)")
    ctx.not_decided("byte-exact round trip on all inputs; duplicate names; structural characters inside names/values")

    # ---- cfg
    cw = prog.body("cfg::ConfigFile::write_to_buffer")
    cr = prog.body("cfg::ConfigFile::from_existing")
    if not cw or not cr:
        ctx.fail_closed("SEPS", "cfg::ConfigFile::write_to_buffer / from_existing not found")
    else:
        cands, _csx = emitted(cw)
        want_cfg = [("lit", "\r\n<"), ("arg",), ("lit", ">\r\n"), ("arg",), ("lit", "\t"), ("arg",), ("lit", "\r\n")]
        hit_cfg = next((c_ for c_ in cands if _shape2(c_) == want_cfg and all(p_[0] != "arg" or (p_[1] == "display" and p_[2] == (0, 10, False)) for p_ in c_)), None)
        shapes = [_shape2(c_) for c_ in cands]
        cat = [hit_cfg] if hit_cfg else []
        kv = [hit_cfg] if hit_cfg else []
        ctx.ob("SEPS", "cfg|category-template", bool(hit_cfg), f"text emitted per category and key: {shapes}; must be CRLF '<' name '>' CRLF, then key TAB value CRLF per key (the reader strips the first and last character of a bracket line)", cw.file, cw.line, sample=True)
        ctx.ob("SEPS", "cfg|key-value-template", bool(hit_cfg), "key/value line template must be key TAB value CRLF", cw.file, cw.line)
        rl = str_lits(cr)
        # reader: contains('<') / contains('>'), split_once('\t'), compares with "\0", lines()
        conts = rl.get("contains", set())
        ctx.ob("SEPS", "cfg|reader-brackets", {"<", ">"} <= conts, f"reader classifies category lines by contains({sorted(conts)}); writer brackets are '<' and '>'", cr.file, cr.line)
        ctx.ob("SEPS", "cfg|reader-tab", rl.get("split_once", set()) == {"\t"}, f"reader splits key/value on {sorted(rl.get('split_once', set()))}; writer separates with TAB", cr.file, cr.line)
        calls_r = [(t.get("res") or "") for _bi, t in cr.calls()]
        ctx.ob("SEPS", "cfg|reader-lines", any(c.endswith("BufRead::lines") or c.endswith("::lines") for c in calls_r), "reader splits rows with lines() (LF, trailing CR stripped) - the writer ends rows with CRLF", cr.file, cr.line)
        nul_r = any("\0" in v for v in rl.values())
        nul_w = any((t["args"][1].get("k") or {}).get("bytes") == "00" for _bi, t in cw.calls() if (t.get("res") or "").endswith("write_all") and len(t["args"]) > 1) or any((s.get("rv", {}).get("a", {}).get("k") or {}).get("bytes") == "00" for _b, _s, s in cw.stmts() if s.get("rv", {}).get("k") == "use")
        ctx.ob("SEPS", "cfg|nul-terminator", nul_r and nul_w, f"writer ends the file with a NUL line ({nul_w}); the reader skips a line that is exactly NUL ({nul_r})", cw.file, cw.line)
        # category name = line[1 .. len-1]
        rng = False
        for p in Explorer(cr, max_paths=3000).explore():
            for (_bb, callee, args, _r) in p.events:
                if callee.split("::")[-1] in ("get", "index") and len(args) == 2:
                    for t in walk(args[1]):
                        if isinstance(t, tuple) and t[0] == "agg" and "Range" in t[2] and len(t[3]) == 2:
                            lo, hi = N(t[3][0]), N(t[3][1])
                            if is_const(lo) and lo[1] == 1 and isinstance(hi, tuple) and hi[0] == "bin" and hi[1] == "Sub" and is_const(hi[3]) and hi[3][1] == 1:
                                rng = True
        ctx.ob("SEPS", "cfg|bracket-strip", rng, "the category name is line[1 .. len - 1] (one bracket character on each side)", cr.file, cr.line)
        # ORDER: writer args (key.0, key.1); iterates categories then settings[category].keys
        if kv:
            cwix = index_of(cw)
            aops = _arg_ops(kv[0])
            halves = []
            for o_ in aops[1:3]:
                d_ = derive(cwix, o_) if o_ is not None else None
                halves.append(sorted({pth[-1] for pth in d_.paths if pth and pth[-1] in ("#0", "#1")}) if d_ else None)
            ctx.ob("ORDER", "cfg|key-then-value", halves == [["#0"], ["#1"]], f"key/value line arguments are halves {halves} of the stored pair; the reader takes (before TAB, after TAB) as (key, value)", cw.file, cw.line)
        wix = index_of(cw)
        iters = []
        for _bi, t in cw.calls():
            c = t.get("res") or ""
            if c.endswith("IntoIterator::into_iter") or c.endswith("::into_iter") or c.endswith("::iter"):
                iters.append(derive(wix, t["args"][0]).names)
        ctx.ob("ORDER", "cfg|writer-iterates-lists", any("categories" in n for n in iters) and any("keys" in n for n in iters) and not any(c_.endswith("HashMap<K, V, S>::iter") or c_.endswith("::values") or c_.endswith("::keys") for c_ in [(t.get("res") or "") for _b, t in cw.calls()]), "the writer walks the ordered category list and each category's ordered key list (never the hash map's own order)", cw.file, cw.line, sample=True)
        pushes = set()
        rix = index_of(cr)
        for _bi, t in cr.calls():
            if (t.get("res") or "").endswith("::push") and t["args"]:
                pushes |= derive(rix, t["args"][0]).names & {"categories", "keys"}
        ctx.ob("ORDER", "cfg|reader-pushes", pushes == {"categories", "keys"}, f"the reader appends to {sorted(pushes)} in file order", cr.file, cr.line)

    # ---- exl
    ew = prog.body("exl::EXL::write_to_buffer")
    er = prog.body("exl::EXL::from_existing")
    if not ew or not er:
        ctx.fail_closed("SEPS", "exl::EXL::write_to_buffer / from_existing not found")
    else:
        cands, _esx = emitted(ew)
        want_exl = [("lit", "EXLT,"), ("arg",), ("lit", "\n"), ("arg",), ("lit", ","), ("arg",)]
        shapes = [_shape2(c_) for c_ in cands]
        hit_exl = next((c_ for c_ in cands if [x_ if x_[0] == "lit" else ("arg",) for x_ in _shape2(c_)] == want_exl), None)
        ewix = index_of(ew)
        hdr_ok = row_ok = False
        if hit_exl:
            aops = _arg_ops(hit_exl)
            ds_ = [derive(ewix, o_) if o_ is not None else None for o_ in aops]
            hdr_ok = ds_[0] is not None and "version" in ds_[0].names
            halves = [sorted({pth[-1] for pth in d_.paths if pth and pth[-1] in ("#0", "#1")}) if d_ else None for d_ in ds_[1:3]]
            row_ok = halves == [["#0"], ["#1"]] and all(d_ is not None and "entries" in d_.names for d_ in ds_[1:3])
        ctx.ob("SEPS", "exl|header-template", hdr_ok, f"text emitted: {shapes}; must be 'EXLT,' version, then LF name ',' id per entry", ew.file, ew.line)
        ctx.ob("SEPS", "exl|row-template", row_ok, "row template must be LF name ',' id (the two halves of each entry, in that order)", ew.file, ew.line, sample=True)
        exl_reader(ctx, er, "SEPS", "ORDER")
        wix = index_of(ew)
        it_ok = any("entries" in derive(wix, t["args"][0]).names for _bi, t in ew.calls() if (t.get("res") or "").endswith("into_iter") or (t.get("res") or "").endswith("::iter"))
        ctx.ob("ORDER", "exl|writer-iterates-entries", it_ok, "the writer walks the entries list in order", ew.file, ew.line)

    # ---- SETVALUE
    sb = prog.body("cfg::ConfigFile::set_value")
    if not sb:
        ctx.fail_closed("SETVALUE", "cfg::ConfigFile::set_value not found")
    else:
        # exits: every `return` block must be reachable only through the outer loop's exhaustion edge, i.e. no return / break
        # out of a loop body: a return block that is inside a natural loop body, or a loop exit edge taken from a block
        # other than the loop head's `next() == None` test.
        ex = Explorer(sb)
        loops = ex.loops()
        exits_ok = True
        n_loops = len(loops)
        for h, (blocks, _assigned) in loops.items():
            for bi in blocks:
                for s_ in sb.succ(bi):
                    if s_ not in blocks:
                        # an edge leaving the loop: it must come from the switch on the iterator's next() result
                        t = sb.term(bi)
                        okedge = False
                        if t["k"] == "switch":
                            ix = index_of(sb)
                            r = ix.resolve(t["a"])
                            if r[0] == "rv" and r[1]["k"] == "discr":
                                d_ = derive(ix, {"c": r[1]["p"]})
                                okedge = any(c_.endswith("Iterator::next") or c_.endswith("::next") for c_ in d_.calls)
                        if t["k"] == "drop":
                            okedge = True
                        if not okedge:
                            exits_ok = False
        chain = None
        if n_loops == 0:
            # the same update spelled as an iterator chain consumed by for_each: every adaptor of the chain passes all
            # elements on (no take / find / take_while / next), so every pair of every category is visited
            seq = [(t.get("res") or "").split("::")[-1] for _bi, t in sorted(sb.calls())]
            ALL_PASS = {"values_mut", "iter_mut", "flat_map", "flatten", "filter", "map", "inspect", "for_each", "into_iter", "chain"}
            if seq and seq[-1] == "for_each" and set(seq) <= ALL_PASS and "values_mut" in seq:
                chain = seq
        if chain:
            sx_ = index_of(sb)
            clos_ = {}
            for _bi, t in sb.calls():
                last = (t.get("res") or "").split("::")[-1]
                if last in ("filter", "for_each") and len(t["args"]) == 2:
                    k_ = sx_.resolve(t["args"][1])
                    if k_[0] == "rv" and k_[1]["k"] == "agg" and k_[1].get("ak") == "closure":
                        clos_[last] = prog.body(k_[1]["closure"])
            c_cmp = c_store = c_half = False
            fb_ = clos_.get("filter")
            if fb_ is not None:
                fx_ = index_of(fb_)
                for _bi, t in fb_.calls():
                    c = t.get("res") or ""
                    if "PartialEq" in c and c.split("::")[-1] == "eq" and len(t["args"]) == 2:
                        d0, d1 = derive(fx_, t["args"][0]), derive(fx_, t["args"][1])
                        for el, cap in ((d0, d1), (d1, d0)):
                            if 2 in el.params and any(pth and pth[-1] == "#0" for pth in el.paths) and not any(pth and pth[-1] == "#1" for pth in el.paths) and cap.outer_params == {2}:
                                c_cmp = True
            eb_ = clos_.get("for_each")
            if eb_ is not None:
                ex_ = index_of(eb_)
                st_ = [s_ for bi_, _si, s_ in eb_.stmts() if not eb_.blocks[bi_]["cleanup"] and s_["k"] == "assign" and s_["lhs"]["p"] and s_["lhs"]["p"][0] == "*" and (s_["lhs"].get("ty") or "").endswith("String")]
                if len(st_) == 1 and st_[0]["rv"]["k"] == "use":
                    dv = derive(ex_, st_[0]["rv"]["a"])
                    c_store = dv.outer_params == {3}
                    dt = derive(ex_, {"c": {"l": st_[0]["lhs"]["l"], "p": [], "ty": ""}})
                    c_half = 2 in dt.params and any(pth and pth[-1] == "#1" for pth in dt.paths) and not any(pth and pth[-1] == "#0" for pth in dt.paths)
            outer_c = "settings" in derive(sx_, next(t["args"][0] for _bi, t in sb.calls() if (t.get("res") or "").endswith("::values_mut"))).names
            ctx.ob("SETVALUE", "visits-every-occurrence", True, f"set_value is the iterator chain {chain}: every adaptor passes all elements on and for_each consumes the whole chain", sb.file, sb.line, sample=True)
            ctx.ob("SETVALUE", "all-categories", outer_c, "the chain starts at settings.values_mut()", sb.file, sb.line)
            ctx.ob("SETVALUE", "compares-key", c_cmp, "the filter compares each pair's key half with the requested key", sb.file, sb.line)
            ctx.ob("SETVALUE", "stores-new-value-only", c_store, "the for_each closure performs one store, of new_value", sb.file, sb.line)
            ctx.ob("SETVALUE", "stores-into-value-half", c_half, "the store goes through the value half of the pair", sb.file, sb.line)
        if not chain:
            ctx.ob("SETVALUE", "visits-every-occurrence", n_loops == 2 and exits_ok, f"set_value has {n_loops} loops; the only way out of each is exhaustion of its iterator (no break / early return), so every occurrence of the key is updated", sb.file, sb.line, sample=True)
            ix = index_of(sb)
            outer = any((t.get("res") or "").endswith("::values_mut") and "settings" in derive(ix, t["args"][0]).names for _bi, t in sb.calls())
            ctx.ob("SETVALUE", "all-categories", outer, "the outer loop runs over settings.values_mut()", sb.file, sb.line)
            # comparison: select_key (param 2) with the key half; store: value half <- new_value (param 3)
            cmp_ok = False
            for _bi, t in sb.calls():
                c = t.get("res") or ""
                if "PartialEq" in c and c.split("::")[-1] in ("eq", "ne") and len(t["args"]) == 2:
                    d0, d1 = derive(ix, t["args"][0]), derive(ix, t["args"][1])
                    if (2 in d0.params) != (2 in d1.params):
                        other = d1 if 2 in d0.params else d0
                        cmp_ok = 3 not in other.params and "#0" in other.names and "#1" not in other.names
            ctx.ob("SETVALUE", "compares-key", cmp_ok, "each pair's key is compared with the requested key", sb.file, sb.line)
            # ... and the store happens on the side where they are EQUAL
            sides = eq_sides(sb, ix)
            st_blocks = [_bi for _bi, _si, s in sb.stmts() if not sb.blocks[_bi]["cleanup"] and s["k"] == "assign" and s["lhs"]["p"] and s["lhs"]["p"][0] == "*" and sb.locals[s["lhs"]["l"]]["ty"].startswith("&mut std::string::String")]
            if sides and st_blocks:
                ok_pol = all(any((sb.dominates(tt_, b_) or tt_ == b_) and not (sb.dominates(tf_, b_) or tf_ == b_) for _cb, tt_, tf_ in sides) for b_ in st_blocks)
                ctx.ob("SETVALUE", "stores-when-equal", ok_pol, "the value is replaced on the branch taken when the pair's key EQUALS the requested key", sb.file, sb.line)
            stores = []
            for _bi, _si, s in sb.stmts():
                if sb.blocks[_bi]["cleanup"]:
                    continue
                if s["k"] == "assign" and s["lhs"]["p"] and s["lhs"]["p"][0] == "*" and sb.locals[s["lhs"]["l"]]["ty"].startswith("&mut std::string::String"):
                    stores.append(derive(ix, s["rv"].get("a", {})) if s["rv"]["k"] == "use" else None)
            ok_store = len(stores) == 1 and stores[0] is not None and stores[0].params == {3}
            ctx.ob("SETVALUE", "stores-new-value-only", ok_store, f"set_value performs {len(stores)} store(s) through a &mut String, derived from parameter(s) {[sorted(s_.params) for s_ in stores if s_]}; must be exactly one, of new_value", sb.file, sb.line)
            # the store goes to the second tuple field (value), not the key
            tgt = None
            for _bi, _si, s in sb.stmts():
                if s["k"] == "assign" and s["rv"]["k"] == "ref" and s["rv"].get("mut") is True:
                    names = [pr.get("f") for pr in s["rv"]["p"]["p"] if isinstance(pr, dict) and "f" in pr and "n" not in pr]
                    written = {st["lhs"]["l"] for _b2, _s2, st in sb.stmts() if st["k"] == "assign" and st["lhs"]["p"] == ["*"] and not sb.blocks[_b2]["cleanup"]}
                    if names and s["lhs"]["l"] in written:
                        tgt = names[-1]
            ctx.ob("SETVALUE", "stores-into-value-half", tgt == 1, f"the mutable borrow that is written through is tuple field {tgt} of the (key, value) pair; must be 1", sb.file, sb.line)

    # ---- QUERIES
    hk = prog.body("cfg::ConfigFile::has_key")
    if hk:
        ix = index_of(hk)
        ok = any((t.get("res") or "").endswith("::values") and "settings" in derive(ix, t["args"][0]).names for _bi, t in hk.calls())
        cmp_ = False
        for _bi, t in hk.calls():
            c = t.get("res") or ""
            if "PartialEq" in c and len(t["args"]) == 2:
                d0, d1 = derive(ix, t["args"][0]), derive(ix, t["args"][1])
                if (2 in d0.params) != (2 in d1.params):
                    other = d1 if 2 in d0.params else d0
                    cmp_ = "#0" in other.names and "#1" not in other.names
        # the same scan spelled with iterator adaptors: the comparison sits in a (nested) closure, one side is the key
        # half of the element the closure receives, the other the captured requested key
        for cb_ in prog.closures_of(hk.name):
            cix_ = index_of(cb_)
            for _bi, t in cb_.calls():
                c = t.get("res") or ""
                if "PartialEq" in c and len(t["args"]) == 2:
                    d0, d1 = derive(cix_, t["args"][0]), derive(cix_, t["args"][1])
                    for elem, cap in ((d0, d1), (d1, d0)):
                        if 2 in elem.params and 1 not in elem.params and cap.params == {1} and any(pth and pth[-1] == "#0" for pth in elem.paths) and not any(pth and pth[-1] == "#1" for pth in elem.paths):
                            cmp_ = True
        ctx.ob("QUERIES", "has_key", ok and cmp_, "has_key scans every category's keys and compares with the requested key", hk.file, hk.line)
        # polarity of the answer: `true` is produced only on the side where a key equals the requested one, `false`
        # only where the scan is exhausted (loop form); in the adaptor form the closure returns the `eq` result unnegated
        sides = eq_sides(hk, ix)
        if sides:
            t_blocks = [b_ for b_, _si, s_ in hk.stmts() if not hk.blocks[b_]["cleanup"] and s_["k"] == "assign" and s_["lhs"]["l"] == 0 and not s_["lhs"]["p"] and s_["rv"].get("k") == "use" and const_int(s_["rv"]["a"]) == 1]
            f_blocks = [b_ for b_, _si, s_ in hk.stmts() if not hk.blocks[b_]["cleanup"] and s_["k"] == "assign" and s_["lhs"]["l"] == 0 and not s_["lhs"]["p"] and s_["rv"].get("k") == "use" and const_int(s_["rv"]["a"]) == 0]
            in_eq = lambda b_: any(hk.dominates(tt_, b_) or tt_ == b_ for _cb, tt_, _tf in sides)  # noqa: E731
            ctx.ob("QUERIES", "has_key|true-iff-found", bool(t_blocks) and all(in_eq(b_) for b_ in t_blocks) and bool(f_blocks) and not any(in_eq(b_) for b_ in f_blocks), f"has_key returns true at {len(t_blocks)} site(s), all on the key-equal side of the comparison: {all(in_eq(b_) for b_ in t_blocks)}; false at {len(f_blocks)} site(s), none of them there: {not any(in_eq(b_) for b_ in f_blocks)}", hk.file, hk.line)
        else:
            neg = False
            found_eq = False
            for cb_ in prog.closures_of(hk.name):
                for _bi, t in cb_.calls():
                    c = t.get("res") or ""
                    if "PartialEq" in c and c.split("::")[-1] in ("eq", "ne"):
                        found_eq = True
                        neg = neg or c.split("::")[-1] == "ne"
                neg = neg or any(s_.get("rv", {}).get("k") == "un" and s_["rv"].get("op") == "Not" for _b, _s, s_ in cb_.stmts())
            neg = neg or any(s_.get("rv", {}).get("k") == "un" and s_["rv"].get("op") == "Not" for _b, _s, s_ in hk.stmts())
            ctx.ob("QUERIES", "has_key|true-iff-found", found_eq and not neg, f"has_key (adaptor form): the predicate is an unnegated equality: {found_eq and not neg}", hk.file, hk.line)
    else:
        ctx.fail_closed("QUERIES", "cfg::ConfigFile::has_key not found")
    hc = prog.body("cfg::ConfigFile::has_category")
    if hc:
        ix = index_of(hc)
        srcs = set()
        for _bi, t in hc.calls():
            for a in t["args"]:
                srcs |= derive(ix, a).names & {"categories", "settings"}
        negc = any(s_.get("rv", {}).get("k") == "un" and s_["rv"].get("op") == "Not" for _b, _s, s_ in hc.stmts())
        eqc = False
        for cb_ in [hc] + list(prog.closures_of(hc.name)):
            for _bi, t in cb_.calls():
                c = t.get("res") or ""
                if "PartialEq" in c and c.split("::")[-1] in ("eq", "ne"):
                    eqc = eqc or c.split("::")[-1] == "eq"
                    negc = negc or c.split("::")[-1] == "ne"
            negc = negc or any(s_.get("rv", {}).get("k") == "un" and s_["rv"].get("op") == "Not" for _b, _s, s_ in cb_.stmts())
        uses_any = any((t.get("res") or "").split("::")[-1] in ("any", "contains", "find", "position") for _bi, t in hc.calls())
        if eqc or uses_any:
            ctx.ob("QUERIES", "has_category|true-iff-listed", (eqc or any((t.get("res") or "").split("::")[-1] == "contains" for _bi, t in hc.calls())) and not negc, f"has_category answers with an unnegated equality / membership test over the category list: equality {eqc}, negated {negc}", hc.file, hc.line)
        ctx.ob("QUERIES", "has_category", srcs == {"categories"}, f"has_category consults {sorted(srcs)}; the category list is the authoritative record of the categories in the file (a category without settings has no map entry)", hc.file, hc.line, sample=True)
    else:
        ctx.fail_closed("QUERIES", "cfg::ConfigFile::has_category not found")
    ec = prog.body("exl::EXL::contains")
    if ec:
        ix = index_of(ec)
        ok = any("entries" in derive(ix, a).names for _bi, t in ec.calls() for a in t["args"])
        ctx.ob("QUERIES", "exl-contains", ok, "EXL::contains scans the entries list", ec.file, ec.line, trivial=True)
        negx = any((s_.get("rv") or {}).get("k") == "un" and s_["rv"].get("op") == "Not" for _b, _s, s_ in ec.stmts())
        eqx = False
        for cb_ in [ec] + list(prog.closures_of(ec.name)):
            for _bi, t in cb_.calls():
                c = t.get("res") or ""
                if "PartialEq" in c and c.split("::")[-1] in ("eq", "ne"):
                    eqx = eqx or c.split("::")[-1] == "eq"
                    negx = negx or c.split("::")[-1] == "ne"
            negx = negx or any((s_.get("rv") or {}).get("k") == "un" and s_["rv"].get("op") == "Not" for _b, _s, s_ in cb_.stmts())
        if eqx or negx:
            ctx.ob("QUERIES", "exl-contains|true-iff-listed", eqx and not negx, f"EXL::contains answers with an unnegated equality over the entry names: equality {eqx}, negated {negx}", ec.file, ec.line)
