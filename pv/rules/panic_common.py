"""Shared driver of the PANIC family for C17 and C18: evaluation of sites against discharges, the named
exceptions table (infeasible sites, spec/exceptions.json) and recording of obligations."""
import json
import os
from collections import defaultdict

from .. import panic as P

VERIF = os.path.dirname(os.path.dirname(os.path.dirname(os.path.abspath(__file__))))


def load_exceptions(prop):
    p = os.path.join(VERIF, "spec", "exceptions.json")
    if not os.path.exists(p):
        return {}
    with open(p) as fh:
        data = json.load(fh)
    out = {}
    for e in data:
        if prop in e.get("properties", [prop]):
            out[e["key"]] = e
    return out


def build_counts(wire):
    """binrw facts for discharge D7: {(item path, Vec field): ("const", n) | ("field", sibling)} for fields declared
    `#[br(count = ..)]` with nothing else that could change the resulting length."""
    from .. import wire as W

    out = {}
    for it in W.Items(wire).binrw_items():
        if it["kind"] != "struct":
            continue
        for f in it["fields"]:
            if not f["ty"].replace(" ", "").startswith("Vec<"):
                continue
            ds = W.directives(f["attrs"])
            if any(d.name in ("if", "ignore", "default", "map", "try_map", "parse_with", "calc", "try_calc", "temp") and "r" in d.side for d in ds):
                continue
            cs = [d for d in ds if d.name == "count" and "r" in d.side]
            if len(cs) != 1 or len(cs[0].value) != 1:
                continue
            v = cs[0].value[0]
            n = W.int_lit(v)
            if n is not None:
                out[(it["path"], f["name"])] = ("const", n)
            elif isinstance(v, str) and any(s["name"] == v for s in it["fields"]):
                out[(it["path"], f["name"])] = ("field", v)
    return out


DECIDED_KINDS = ("unwrap", "panic", "index", "bounds", "arith", "alloc", "slice-pre", "leak", "assert-other")


def run_panic(ctx, entries, floor_entries, floor_defs, rule="PANIC"):
    prog = ctx.prog
    missing = [e for e in entries if e not in prog.bodies]
    for m in missing:
        ctx.fail_closed(rule, f"entry point {m} not found")
    present = [e for e in entries if e in prog.bodies]
    ctx.floor(rule, "entry points", len(present), floor_entries)
    sites, reach, parent, defs = P.analyse(prog, present, build_counts(ctx.wire), ctx.wire)
    ctx.floor(rule, "local functions reachable from the entry points", len(defs), floor_defs)
    exc = load_exceptions(ctx.prop)
    exc_left = {k: int(e.get("count", 1)) for k, e in exc.items()}
    n_addmul = 0
    by_kind = defaultdict(int)
    undischarged = []
    for s, n in sorted(sites, key=lambda x: (x[0].file, x[0].line, x[0].key)):
        if s.kind == "arith-addmul":
            n_addmul += 1
            continue
        by_kind[s.kind] += 1
        key = s.key
        if s.discharge:
            ctx.ob(rule, key, True, f"{s.kind} site discharged: {s.discharge}", s.file, s.line, trivial=s.discharge.startswith("D1") or s.discharge.startswith("D2 constant"))
            continue
        fk = f"{rule}|{key}"
        if exc_left.get(fk, 0) > 0 and exc[fk].get("requires"):
            # machine-checked guard: the exception only holds while the guard is still there
            ix = P.BodyIndex(prog.body(s.fn))
            if not P.REQUIRES[exc[fk]["requires"]](ix, s, exc[fk]):
                exc_left[fk] = 0
        if exc_left.get(fk, 0) > 0:
            exc_left[fk] -= 1
            ctx.ob(rule, key, True, f"{s.kind} site excepted as infeasible: {exc[fk]['reason']}", s.file, s.line)
            continue
        chain = prog.chain(parent, n)
        undischarged.append(s)
        ctx.ob(rule, key, False, f"{s.kind} construct reachable from an untrusted-input entry point: {s.detail} in {s.fn}", s.file, s.line, chain=chain)
    unused = sorted(k for k, n_ in exc_left.items() if n_ == int(exc[k].get("count", 1)) and not exc[k].get("requires"))
    ctx.extra["exceptions_unused"] = unused
    for k in unused:
        ctx.note(f"exception entry matched no site on this tree: {k}")
    ctx.extra["panic_sites_by_kind"] = dict(by_kind)
    ctx.extra["add_mul_overflow_sites_not_decided"] = n_addmul
    ctx.extra["reachable_local_functions"] = len(defs)
    ctx.extra["entry_points"] = present
    # recursion
    sccs = P.local_sccs(prog, reach)
    return sites, reach, parent, defs, sccs, undischarged
