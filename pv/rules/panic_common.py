"""Shared driver of the PANIC family for C17 and C18: evaluation of sites against discharges, the named
exceptions table (infeasible sites, spec/exceptions.json) and recording of obligations."""
import json
import os
from collections import defaultdict

from .. import panic as P

VERIF = os.path.dirname(os.path.dirname(os.path.dirname(os.path.abspath(__file__))))


def load_exceptions(prop):
    p = os.path.join(VERIF, "spec", "exceptions.json")
    if not os.path.exists(p):
        return {}
    with open(p) as fh:
        data = json.load(fh)
    out = {}
    for e in data:
        if prop in e.get("properties", [prop]):
            out[e["key"]] = e
    return out


def build_counts(wire):
    """binrw facts for discharge D7: {(item path, Vec field): ("const", n) | ("field", sibling)} for fields declared
    `#[br(count = ..)]` with nothing else that could change the resulting length."""
    from .. import wire as W

    out = {}
    for it in W.Items(wire).binrw_items():
        if it["kind"] != "struct":
            continue
        for f in it["fields"]:
            if not f["ty"].replace(" ", "").startswith("Vec<"):
                continue
            ds = W.directives(f["attrs"])
            if any(d.name in ("if", "ignore", "default", "map", "try_map", "parse_with", "calc", "try_calc", "temp") and "r" in d.side for d in ds):
                continue
            cs = [d for d in ds if d.name == "count" and "r" in d.side]
            if len(cs) != 1 or len(cs[0].value) != 1:
                continue
            v = cs[0].value[0]
            n = W.int_lit(v)
            if n is not None:
                out[(it["path"], f["name"])] = ("const", n)
            elif isinstance(v, str) and any(s["name"] == v for s in it["fields"]):
                out[(it["path"], f["name"])] = ("field", v)
    return out


DECIDED_KINDS = ("unwrap", "panic", "index", "bounds", "arith", "alloc", "slice-pre", "leak", "assert-other")


def run_panic(ctx, entries, floor_entries, floor_defs, rule="PANIC"):
    prog = ctx.prog
    missing = [e for e in entries if e not in prog.bodies]
    for m in missing:
        ctx.fail_closed(rule, f"entry point {m} not found")
    present = [e for e in entries if e in prog.bodies]
    ctx.floor(rule, "entry points", len(present), floor_entries)
    sites, reach, parent, defs = P.analyse(prog, present, build_counts(ctx.wire), ctx.wire)
    ctx.floor(rule, "local functions reachable from the entry points", len(defs), floor_defs)
    exc = load_exceptions(ctx.prop)
    exc_left = {k: int(e.get("count", 1)) for k, e in exc.items()}
    n_addmul = 0
    by_kind = defaultdict(int)
    undischarged = []
    for s, n in sorted(sites, key=lambda x: (x[0].file, x[0].line, x[0].key)):
        if s.kind == "arith-addmul":
            n_addmul += 1
            continue
        by_kind[s.kind] += 1
        key = s.key
        if s.discharge:
            ctx.ob(rule, key, True, f"{s.kind} site discharged: {s.discharge}", s.file, s.line, trivial=s.discharge.startswith("D1") or s.discharge.startswith("D2 constant"))
            continue
        fk = f"{rule}|{key}"
        if exc_left.get(fk, 0) > 0 and exc[fk].get("requires"):
            # machine-checked guard: the exception only holds while the guard is still there
            ix = P.BodyIndex(prog.body(s.fn))
            if not P.REQUIRES[exc[fk]["requires"]](ix, s, exc[fk]):
                exc_left[fk] = 0
        if exc_left.get(fk, 0) > 0:
            exc_left[fk] -= 1
            ctx.ob(rule, key, True, f"{s.kind} site excepted as infeasible: {exc[fk]['reason']}", s.file, s.line)
            continue
        chain = prog.chain(parent, n)
        undischarged.append(s)
        ctx.ob(rule, key, False, f"{s.kind} construct reachable from an untrusted-input entry point: {s.detail} in {s.fn}", s.file, s.line, chain=chain)
    unused = sorted(k for k, n_ in exc_left.items() if n_ == int(exc[k].get("count", 1)) and not exc[k].get("requires"))
    ctx.extra["exceptions_unused"] = unused
    for k in unused:
        ctx.note(f"exception entry matched no site on this tree: {k}")
    ctx.extra["panic_sites_by_kind"] = dict(by_kind)
    ctx.extra["add_mul_overflow_sites_not_decided"] = n_addmul
    ctx.extra["reachable_local_functions"] = len(defs)
    ctx.extra["entry_points"] = present
    # recursion
    sccs = P.local_sccs(prog, reach)
    return sites, reach, parent, defs, sccs, undischarged


# loops whose termination argument was confirmed by reading and is none of the structural classes of pv.loops:
# function -> [(witness: a call that must still run on every iteration, reason)]; each entry excuses one loop
LOOP_TABLE = {
    "avfx::Avfx::from_existing": [(r"binrw::BinRead::read<avfx::AvfxBlock[,>]", "block loop: every iteration reads an 8-byte block header and then seeks forward by the block's u32 size minus what was read; the position advances by 8 + size >= 8 per iteration (release arithmetic), debug builds stop at the subtraction (listed PANIC site)")],
    "patch::ZiPatch::apply": [(r"binrw::BinRead::read<patch::PatchChunk[,>]", "chunk loop: every iteration reads one PatchChunk (at least size + magic + crc = 12 bytes) from the patch file and returns on a read error; the only repositioning of the patch cursor is the AddFile arm's -4 / +4 pair around its block reads; the other seeks act on the target files")],
}


def run_loops(ctx, defs, floor):
    """LOOPS: every natural loop of the reachable local code carries a termination argument (pv.loops).  Functions are
    analysed with their non-anchor helpers and directly called closures inlined (a stepped index used inside a closure
    counts for the loop that calls it); helpers that are inlined everywhere are not analysed a second time."""
    import re as _re

    from .. import loops as L

    prog = ctx.prog
    n = 0
    kinds = defaultdict(int)
    prog.body(next(iter(defs))) if defs else None
    inl = getattr(prog, "_inliner", None)
    table_left = {fn: list(ents) for fn, ents in LOOP_TABLE.items()}
    for d in sorted(defs):
        if d not in prog.raw_bodies:
            continue
        if inl is not None and (inl.inlinable(d) or inl.closure_fully_inlined(d)):
            continue
        b = prog.body(d)
        try:
            cl = L.classify(b)
        except Exception as e:  # noqa: BLE001
            ctx.fail_closed("LOOPS", f"{d}: loop classification failed: {e}")
            continue
        for i, lp in enumerate(cl):
            n += 1
            if lp["kind"]:
                kinds[lp["kind"]] += 1
                ctx.ob("LOOPS", f"{d}|loop{i}", True, f"{d}: loop {i} terminates by {lp['kind']}: {lp['detail']}", b.file, b.line, trivial=(lp["kind"] == "ITER"))
                continue
            ent = next((e_ for e_ in table_left.get(d, []) if any(_re.search(e_[0], c_) for c_ in lp["dom_calls"])), None)
            if ent:
                table_left[d].remove(ent)
                kinds["TABLE"] += 1
                ctx.ob("LOOPS", f"{d}|loop{i}", True, f"{d}: loop {i} confirmed by reading: {ent[1]}", b.file, b.line)
            else:
                ctx.ob("LOOPS", f"{d}|unbounded", False, f"{d}: a loop of {lp['size']} blocks has no recognised termination argument (no finite iterator, no stepped counter tested on exit, no bounds-checked stepped index, no input-consuming read on every iteration){': ' + lp['detail'] if lp['detail'] else ''}", b.file, b.line)
    ctx.extra["loops_by_argument"] = dict(kinds)
    ctx.floor("LOOPS", "natural loops in reachable local code", n, floor)
    return n
