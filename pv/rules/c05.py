"""C05 — Excel sheets decode to the cell values stored in them.

Decided:
  W1/W3/W5  EXH/EXD headers, column/page/offset/row-header records (all big-endian), row-index divisor, the 19
            ColumnDataType codes, Language codes
  CELL      per column type: width and signedness of the cell read and the ColumnData variant produced
            (String -> u32 offset, Bool -> 1 byte, IntN/UIntN/Float32 -> same-named scalar, PackedBoolN -> 1 byte
            tested against bit N); all cell reads are big-endian
  SEEK      column seek derives from row offset + column offset; string seek from row offset + fixed-size (data_offset)
            + stored string offset; row-header skip constant = wire size of the row header; sub-row offset uses the
            stride data_offset + 2
  NAMES     language codes, page file-name templates, header path template with lower-casing, root list path
  ROOTLIST  the root-list reader's row/field separators, header row, comment rows, LF/CRLF handling (shared with C08)
Not decided: row lookup over all pages, string-heap contents, numeric cell values (execution).
"""
import re

from .. import fmt
from ..sym import Explorer, N, is_const, show, walk
from ..table import Table, Undecided, enum_variants
from ..wrules import model, w1, w3, w5_repr

TECHNIQUE = "static analysis: binrw layout rules vs reference (W1/W3/W5); dispatch table of the cell decoder extracted from the MIR switch (variant -> read type, constructed variant, bit); expression provenance of seeks; name tables and templates; separator / line-ending obligations on the root-list reader; exit-edge classification of the row scan loop"
TRUSTED = ["pv/wire.py binrw model", "spec/layouts.txt (Lumina Excel structs)", "reference cell widths embedded in this rule (Lumina ExcelColumnDataType)", "rustc nightly MIR"]

REF_CODES = {"String": 0x0, "Bool": 0x1, "Int8": 0x2, "UInt8": 0x3, "Int16": 0x4, "UInt16": 0x5, "Int32": 0x6, "UInt32": 0x7, "Float32": 0x9, "Int64": 0xA, "UInt64": 0xB,
             "PackedBool0": 0x19, "PackedBool1": 0x1A, "PackedBool2": 0x1B, "PackedBool3": 0x1C, "PackedBool4": 0x1D, "PackedBool5": 0x1E, "PackedBool6": 0x1F, "PackedBool7": 0x20}
REF_CELL = {"String": ("u32", "String"), "Bool": ("u8", "Bool"), "Int8": ("i8", "Int8"), "UInt8": ("u8", "UInt8"), "Int16": ("i16", "Int16"), "UInt16": ("u16", "UInt16"),
            "Int32": ("i32", "Int32"), "UInt32": ("u32", "UInt32"), "Float32": ("f32", "Float32"), "Int64": ("i64", "Int64"), "UInt64": ("u64", "UInt64")}
REF_LANG = {"None": "", "Japanese": "ja", "English": "en", "German": "de", "French": "fr", "ChineseSimplified": "chs", "ChineseTraditional": "cht", "Korean": "ko"}
ONE_BYTE = ("u8", "i8")


def raw_reads(e):
    """Type arguments of read_data_raw::<Z> calls inside an expression."""
    out = []
    for t in walk(e):
        if isinstance(t, tuple) and t[0] == "call" and "read_data_raw::<" in t[1]:
            out.append(t[1].split("::<")[-1].rstrip(">"))
    return out


def run(ctx):
    prog = ctx.prog
    wm = model(ctx)
    ctx.decided("EXH/EXD header and record layouts, big-endian, row-index divisor, 19 column type codes, language codes (W1/W3/W5)")
    ctx.decided("cell width/sign and produced variant per column type; packed-bool bit = N; big-endian cell reads")
    ctx.decided("column and string seek provenance, row-header skip constant, sub-row stride")
    ctx.decided("language code table, page file-name templates, header path template")
    ctx.decided("root-list reader separators and line-ending handling (ROOTLIST)")
    ctx.decided("the row lookup scans the whole row index: no exit other than exhaustion or the matching row (ROWSCAN)")
    ctx.decided("no mutable state other than the cursor flows between cell / sub-row decodes (STATELESS)")
    ctx.not_decided("row lookup across pages (which page file holds an id); string contents; numeric cell values; u16 overflow of the sub-row offset arithmetic for large sheets")

    n = w1(ctx, ["exh::EXHHeader", "exh::ExcelColumnDefinition", "exh::ExcelDataPagination", "exh::EXH", "exd::EXDHeader", "exd::ExcelDataOffset", "exd::ExcelDataRowHeader", "exd::EXD"])
    ctx.floor("W1", "excel types", n, 8)
    w5_repr(ctx, "exh::ColumnDataType", REF_CODES, repr_ty="u16")
    w5_repr(ctx, "common::Language", {k: i for i, k in enumerate(REF_LANG)}, repr_ty="u8")
    # row-index divisor: count = index_size / size_of::<ExcelDataOffset>() : memory size == wire size == 8
    exd = wm.items.by_path.get("exd::EXD")
    off = wm.items.by_path.get("exd::ExcelDataOffset")
    if exd and off:
        from .. import wire as W

        cnt = [d for f in exd["fields"] if f["name"] == "data_offsets" for d in W.directives(f["attrs"]) if d.name == "count"]
        wire_sz = wm.item_size(off)
        mem = prog.adts.get("exd::ExcelDataOffset", {}).get("size")
        txt = cnt[0].text.replace(" ", "") if cnt else ""
        ok = "size_of::<ExcelDataOffset>()" in txt and "/" in txt and "index_size" in txt
        ctx.ob("W3", "EXD.data_offsets", ok and wire_sz == mem == 8, f"row index count = {txt}; ExcelDataOffset is {wire_sz} bytes on the wire and {mem} in memory (must both be 8)", exd["file"], exd["line"], sample=True)
    else:
        ctx.fail_closed("W3", "exd::EXD / ExcelDataOffset not found")

    # ---- CELL dispatch
    rb = prog.body("exd::EXD::read_column")
    variants = enum_variants(prog, "exh::ColumnDataType")
    if not rb or not variants:
        ctx.fail_closed("CELL", "exd::EXD::read_column / ColumnDataType not found")
    else:
        ex = Explorer(rb, max_paths=4000)
        paths = ex.explore()
        by_variant = {}
        for p in paths:
            sel = None
            for d, c in p.conds:
                if isinstance(d, tuple) and d[0] == "discr" and any(isinstance(t, tuple) and t[0] == "fld" and t[2] == "data_type" for t in walk(d)) and c[0] == "eq":
                    sel = c[1]
                    break
            if sel is not None:
                by_variant.setdefault(sel, []).append(p)
        pb_reads, pb_tests = [], []
        n_arms = 0
        for name, dv in variants:
            ps = [p for p in by_variant.get(dv, []) if p.end == "return"]
            if not ps:
                ctx.ob("CELL", f"arm|{name}", False, f"no decoding arm for ColumnDataType::{name}", rb.file, rb.line)
                continue
            n_arms += 1
            # the success leaf: Some(ColumnData::X(..))
            leaves = []
            for p in ps:
                r = p.env.local(0)
                if isinstance(r, tuple) and r[0] == "agg" and r[2].endswith("Option::Some"):
                    leaves.append((r[3][0], p))
                elif isinstance(r, tuple) and r[0] == "call" and re.sub(r"::<[^<>]*>$", "", r[1]).endswith("Option::<T>::map") and len(r[2]) == 2 and isinstance(r[2][1], tuple):
                    # read(..).map(ColumnData::X) / .map(|v| ColumnData::X(f(v)))  ==  Some(ColumnData::X(..)) whenever the read succeeds
                    mp = r[2][1]
                    if mp[0] == "kfn" and mp[1].startswith("exd::ColumnData::"):
                        leaves.append((("agg", "adt", mp[1], (r[2][0],), None), p))
                    elif mp[0] == "agg" and mp[1] == "closure" and prog.body(mp[2]):
                        crets = [q for q in Explorer(prog.body(mp[2])).explore() if q.end == "return"]
                        if len(crets) == 1:
                            cr = crets[0].env.local(0)
                            if isinstance(cr, tuple) and cr[0] == "agg" and cr[1] == "adt" and cr[2].startswith("exd::ColumnData::"):
                                leaves.append((("agg", "adt", cr[2], (r[2][0],), None), p))
            if not leaves:
                ctx.ob("CELL", f"arm|{name}", False, f"ColumnDataType::{name}: no path returns Some(..)", rb.file, rb.line)
                continue
            leaf, p = leaves[0]
            made = leaf[2].split("::")[-1] if isinstance(leaf, tuple) and leaf[0] == "agg" else None
            if name.startswith("PackedBool"):
                bitn = int(name[len("PackedBool"):])
                # the payload, read on the inlined body (the helper may be a closure or a private fn): a one-byte read
                # tested against the single bit N:  (byte & m) == m   or   (byte & m) != 0   with m = 1 << N
                payload = N(leaf[3][0]) if isinstance(leaf, tuple) and leaf[0] == "agg" and leaf[3] else None
                bit = None
                test_ok = False
                reads_pb = []
                if isinstance(payload, tuple) and payload[0] == "bin" and payload[1] in ("Eq", "Ne"):
                    for x, y in ((payload[2], payload[3]), (payload[3], payload[2])):
                        if isinstance(x, tuple) and x[0] == "bin" and x[1] == "BitAnd":
                            ms = [m_ for m_ in (x[2], x[3]) if is_const(m_) and isinstance(m_[1], int)]
                            vals = [m_ for m_ in (x[2], x[3]) if not is_const(m_)]
                            if len(ms) == 1 and len(vals) == 1 and ms[0][1] > 0 and ms[0][1] & (ms[0][1] - 1) == 0:
                                m_ = ms[0][1]
                                if (payload[1] == "Eq" and is_const(y) and y[1] == m_) or (payload[1] == "Ne" and is_const(y) and y[1] == 0):
                                    bit = m_.bit_length() - 1
                                    test_ok = True
                                    reads_pb = raw_reads(vals[0])
                pb_reads.append((name, reads_pb))
                pb_tests.append((name, test_ok))
                ctx.ob("CELL", f"variant|{name}", made == "Bool", f"ColumnDataType::{name} produces ColumnData::{made}; must be Bool", rb.file, rb.line, trivial=True)
                ctx.ob("CELL", f"bit|{name}", bit == bitn, f"ColumnDataType::{name} tests bit {bit}; must be bit {bitn}", rb.file, rb.line, sample=(bitn == 3))
                continue
            want_t, want_v = REF_CELL[name]
            reads = raw_reads(leaf)
            if name == "String":
                # first read on the path is the offset
                reads = []
                for (_bb, callee, _a, _r) in p.events:
                    if "read_data_raw::<" in callee:
                        reads.append(callee.split("::<")[-1].rstrip(">"))
                reads = reads[:1]
            if name == "Bool":
                ok = len(reads) == 1 and reads[0] in ONE_BYTE
            else:
                ok = reads == [want_t]
            ctx.ob("CELL", f"width|{name}", ok, f"ColumnDataType::{name} reads {reads or '?'} from the cell; the format stores {'one byte' if name == 'Bool' else want_t}", rb.file, rb.line, sample=(name in ("Bool", "UInt16")))
            ctx.ob("CELL", f"variant|{name}", made == want_v, f"ColumnDataType::{name} produces ColumnData::{made}; must be {want_v}", rb.file, rb.line, trivial=True)
        ctx.floor("CELL", "column types with a decoding arm", n_arms, 19)
        # packed bools: one byte per cell, single-bit test (decided per arm above, summarised here)
        bad_w = [(n_, r_) for n_, r_ in pb_reads if not (len(r_) == 1 and r_[0] in ONE_BYTE)]
        ctx.ob("CELL", "packed-bool|width", len(pb_reads) == 8 and not bad_w, f"packed bools are read as {sorted({tuple(r_) for _n, r_ in pb_reads})}; the format stores one byte ({bad_w or 'all 8 arms'})", rb.file, rb.line, sample=True)
        bad_t = [n_ for n_, ok_ in pb_tests if not ok_]
        ctx.ob("CELL", "packed-bool|test", len(pb_tests) == 8 and not bad_t, f"packed-bool arms test (byte & (1 << N)) against the same single bit ({bad_t or 'all 8 arms'})", rb.file, rb.line)
        # big-endian cell reads
        db = prog.body("exd::EXD::read_data_raw")
        if not db:
            ctx.fail_closed("CELL", "exd::EXD::read_data_raw not found")
        else:
            big = False
            for _bi, _si, s in db.stmts():
                rv = s.get("rv", {})
                if rv.get("k") == "agg" and rv.get("adt") == "binrw::Endian":
                    big = rv.get("variant") == "Big"
            ctx.ob("CELL", "big-endian", big, "read_data_raw reads with Endian::Big", db.file, db.line)

    # ---- SEEK
    row = prog.body("exd::EXD::read_row")
    hdr = wm.items.by_path.get("exd::ExcelDataRowHeader")
    if not row or not hdr:
        ctx.fail_closed("SEEK", "exd::EXD::read_row / ExcelDataRowHeader not found")
    else:
        hs = wm.item_size(hdr)
        skip = None
        stride_ok = False
        for p in Explorer(row).explore():
            for l, e in p.env.loc.items():
                e = N(e)
                if isinstance(e, tuple) and e[0] == "bin" and e[1] == "Add":
                    for a, b in ((e[2], e[3]), (e[3], e[2])):
                        if is_const(a) and isinstance(b, tuple) and b[0] == "fld" and b[2] == "offset" and (row.local_names().get(l) == "header_offset" or (skip is None and row.local_names().get(l))):
                            skip = a[1]
                if row.local_names().get(l) == "subrow_offset":
                    flds = {t[2] for t in walk(e) if isinstance(t, tuple) and t[0] == "fld"}
                    muls = [t for t in walk(e) if isinstance(t, tuple) and t[0] == "bin" and t[1] == "Mul"]
                    twos = [t for t in muls if any(is_const(x) and x[1] == 2 for x in (t[2], t[3]))]
                    strides = [t for t in muls if any(isinstance(x, tuple) and x[0] == "fld" and x[2] == "data_offset" for x in (t[2], t[3]))]
                    plus1 = any(isinstance(t, tuple) and t[0] == "bin" and t[1] == "Add" and any(is_const(x) and x[1] == 1 for x in (t[2], t[3])) for tw in twos for t in walk(tw))
                    stride_ok = "data_offset" in flds and bool(twos) and bool(strides) and plus1
        ctx.ob("SEEK", "row-header-skip", skip == hs, f"read_row skips {skip} bytes after the row offset; the row header serialises to {hs}", row.file, row.line, sample=True)
        ctx.ob("SEEK", "sub-row-stride", stride_ok, "sub-row k starts at header_offset + k * data_offset + 2 * (k + 1)", row.file, row.line)
        # column seek in the row closure
        ok = False
        for c in prog.closures_of("exd::EXD::read_row"):
            for p in Explorer(c).explore():
                for (_bb, callee, args, _r) in p.events:
                    if callee.endswith("Seek>::seek") or callee.endswith("::seek"):
                        a = N(args[1]) if len(args) > 1 else None
                        flds = {t[2] for t in walk(a) if isinstance(t, tuple) and t[0] == "fld"}
                        has_row = ("v", 2) in list(walk(a))
                        adds = [t for t in walk(a) if isinstance(t, tuple) and t[0] == "bin" and t[1] == "Add"]
                        if "offset" in flds and has_row and adds:
                            ok = True
        if not ok:
            # the sub-row reader written as a private fn (inlined into read_row here) instead of a closure
            from ..prov import derive as _derive, index_of as _index_of

            rix_ = _index_of(row)
            closure_seeks = any((t_.get("res") or "").endswith("Seek>::seek") for c_ in prog.closures_of("exd::EXD::read_row") for _bi, t_ in c_.calls())
            inlined_params = {l_ for l_, nm_ in row.local_names().items() if "~" in nm_}
            for _bi, t_ in row.calls():
                if closure_seeks:
                    break  # a closure does the cell seeks: it was judged above
                if (t_.get("res") or "").endswith("Seek>::seek") and len(t_["args"]) == 2:
                    d_ = _derive(rix_, t_["args"][1])
                    # the row term must be a value handed to the sub-row reader at each call (its parameter), the
                    # column term the column's own offset
                    if {"column_definitions", "offset"} <= d_.names and "Add" in d_.ops and (d_.locals & inlined_params):
                        ok = True
        ctx.ob("SEEK", "column-seek", ok, "each cell is read at row_offset + column.offset", row.file, row.line)
    if rb:
        ok = False
        det = ""
        for p in Explorer(rb, max_paths=4000).explore():
            for (_bb, callee, args, _r) in p.events:
                if callee.endswith("::seek") and len(args) > 1:
                    a = N(args[1])
                    flds = {t[2] for t in walk(a) if isinstance(t, tuple) and t[0] == "fld"}
                    has_row = ("v", 3) in list(walk(a))
                    has_read = any(isinstance(t, tuple) and t[0] == "call" and "read_data_raw::<u32>" in t[1] for t in walk(a))
                    det = show(a)[:140]
                    if "data_offset" in flds and has_row and has_read:
                        ok = True
        ctx.ob("SEEK", "string-seek", ok, f"string cells seek to {det}; must be row_offset + data_offset + stored offset", rb.file, rb.line)

    # every seek of the row and cell readers is absolute and its position a sum (the sub-row stride also multiplies)
    from ..posrule import seeks_from_start_sum_only
    from ..prov import derive as _dv, index_of as _ixof

    n_sk = 0
    if row:
        n_sk += seeks_from_start_sum_only(ctx, "SEEK", row, "read_row", allow_ops=("Mul", "MulWithOverflow"))
    if rb:
        n_sk += seeks_from_start_sum_only(ctx, "SEEK", rb, "read_column")
    ctx.floor("SEEK", "seeks of read_row / read_column examined", n_sk, 3)
    if row:
        rxi = _ixof(row)
        # the sub-row form is chosen exactly when the row header announces more than one sub-row
        dec = None
        for bi_, blk_ in enumerate(row.blocks):
            t_ = blk_["t"]
            if t_["k"] == "switch" and not blk_["cleanup"]:
                r_ = rxi.resolve(t_["a"])
                if r_[0] == "rv" and r_[1].get("k") == "bin" and r_[1]["op"] in ("Gt", "Ge", "Lt", "Le", "Eq", "Ne") and "row_count" in _dv(rxi, t_["a"]).names:
                    from ..mir import const_int as _ci

                    ca, cb = _ci(r_[1]["a"]), _ci(r_[1]["b"])
                    if (ca is None) != (cb is None):
                        dec = (r_[1]["op"], ca, cb)
        if dec is None:
            ctx.fail_closed("SEEK", "read_row: the test on row_header.row_count that selects the sub-row form was not found")
        else:
            import operator as _op_

            f_ = {"Gt": _op_.gt, "Ge": _op_.ge, "Lt": _op_.lt, "Le": _op_.le, "Eq": _op_.eq, "Ne": _op_.ne}[dec[0]]
            ev = lambda v: f_(v, dec[2]) if dec[1] is None else f_(dec[1], v)  # noqa: E731
            ctx.ob("SEEK", "sub-row-form-selected", ev(1) != ev(2) and ev(2) == ev(3) == ev(65535), f"read_row chooses between the single-row and the sub-row form by `row_count {dec[0]} {dec[2] if dec[1] is None else dec[1]}`; rows with one record and rows with 2.. records must take different forms (1 vs 2, 3, 65535)", row.file, row.line)
        # every sub-row that is read is part of the result
        pushes_ = [t_ for _bi, t_ in row.calls() if (t_.get("res") or "").endswith("Vec::<T, A>::push") and len(t_["args"]) == 2 and "ExcelRow" in str((t_["args"][1].get("m") or t_["args"][1].get("c") or {}).get("ty", ""))]
        ctx.ob("SEEK", "sub-rows-collected", len(pushes_) >= 1, f"read_row pushes {len(pushes_)} ExcelRow value(s) into its result list; each sub-row read must be returned", row.file, row.line)
    if rb:
        bxi = _ixof(rb)
        consts_ = None
        for _bi, _si, st_ in rb.stmts():
            rv_ = st_.get("rv") or {}
            if st_["k"] == "assign" and rv_.get("k") == "agg" and str(rv_.get("adt", "")).endswith("ColumnData") and rv_.get("variant") == "Bool" and rv_.get("ops"):
                d_ = _dv(bxi, rv_["ops"][0])
                if "Eq" in d_.ops or "Ne" in d_.ops:
                    r_ = bxi.resolve(rv_["ops"][0])
                    if r_[0] == "rv" and r_[1].get("k") == "bin" and r_[1]["op"] in ("Eq", "Ne"):
                        from ..mir import const_int as _ci2

                        c1, c2 = _ci2(r_[1]["a"]), _ci2(r_[1]["b"])
                        if (c1 is None) != (c2 is None):  # `(byte & bit) == bit` of the packed-bool cells is judged by CELL's bit tests
                            consts_ = (r_[1]["op"], c1 if c1 is not None else c2)
        if consts_ is not None:
            ctx.ob("CELL", "bool-true-value", consts_ in (("Eq", 1), ("Ne", 0)), f"a Bool cell is decoded as `byte {consts_[0]} {consts_[1]}`; the stored true value is 1 (`== 1` or `!= 0`)", rb.file, rb.line)

    # ---- STATELESS: decoding a sub-row depends only on the data, the schema and its offset (no state carried between
    # sub-rows or cells other than the cursor position, which is re-seeked for every cell)
    if rb:
        muts = [rb.locals[i]["ty"] for i in range(1, rb.argc + 1) if rb.locals[i]["ty"].startswith("&mut ")]
        ctx.ob("STATELESS", "read_column-params", len(muts) == 1 and "Cursor" in muts[0], f"read_column takes mutable state {muts}; only the cursor may be mutable", rb.file, rb.line)
    if row:
        caps = []
        for _bi, _si, s_ in row.stmts():
            rv = s_.get("rv", {})
            if rv.get("k") == "agg" and rv.get("ak") == "closure":
                from ..mir import op_place as _opl

                for o in rv["ops"]:
                    pl = _opl(o)
                    if pl is not None:
                        caps.append(pl["ty"])
        mut_caps = [c for c in caps if c.startswith("&mut ")]
        # no closure at all: the sub-row reader is a private fn (inlined here); it can only receive state as arguments,
        # and read_column's own parameters are checked above
        no_closure_form = not mut_caps and any((t_.get("res") or "").endswith("EXD::read_column") for _bi, t_ in row.calls())
        ctx.ob("STATELESS", "row-closure-captures", (len(mut_caps) == 1 and "Cursor" in mut_caps[0]) or no_closure_form, f"the per-sub-row closure captures mutable state {mut_caps}; only the cursor may be captured mutably", row.file, row.line)
        statics = [c for c in prog.consts.values() if c["path"].startswith("exd::") and ("Cell" in c["ty"] or "Mutex" in c["ty"] or "Atomic" in c["ty"])]
        ctx.ob("STATELESS", "no-interior-mutable-statics", not statics, f"interior-mutable statics in exd: {[c['path'] for c in statics]}", row.file, row.line, trivial=True)

    # ---- NAMES
    lb = prog.body("common::get_language_code")
    langs = enum_variants(prog, "common::Language")
    if not lb or not langs:
        ctx.fail_closed("NAMES", "common::get_language_code / Language not found")
    else:
        t = Table(lb)
        for name, dv in langs:
            try:
                leaf = t.lookup({("discr", ("p", 1)): dv, ("discr", 1): dv}).env.local(0)
            except Undecided as e:
                ctx.fail_closed("NAMES", f"get_language_code({name}): {e}")
                continue
            while isinstance(leaf, tuple) and leaf[0] in ("ref", "deref"):
                leaf = leaf[1]
            got = leaf[1] if isinstance(leaf, tuple) and leaf[0] == "ks" else None
            ctx.ob("NAMES", f"language|{name}", got == REF_LANG.get(name), f"get_language_code({name}) = {got!r}; file-name code is {REF_LANG.get(name)!r}", lb.file, lb.line)
    # file-name templates, read off the MIR (pv.strx): spelling of the format! arguments does not matter
    from ..strx import StrX, show as sshow
    from ..prov import derive as _derive, index_of as _index_of

    cfb = prog.body("exd::EXD::calculate_filename")
    if not cfb:
        ctx.fail_closed("NAMES", "exd::EXD::calculate_filename not found")
    else:
        sx = StrX(cfb)
        cix = _index_of(cfb)
        got = []
        for _bi, pcs in sx.format_sites():
            row = []
            for p_ in pcs:
                if p_[0] == "lit":
                    row.append(("lit", p_[1]))
                elif p_[0] == "arg":
                    d_ = _derive(cix, p_[3]) if p_[3] is not None else None
                    calls_ = {c_.split("::")[-1] for c_ in d_.calls} if d_ else set()
                    role = "lang" if "get_language_code" in calls_ else "start" if d_ and "start_id" in d_.names else "name" if d_ and d_.params == {1} and not d_.names else "?"
                    row.append((role, p_[1], p_[2]))
                else:
                    row.append((p_[0],))
            got.append(row)
        PL = (0, 10, False)
        want = [[("name", "display", PL), ("lit", "_"), ("start", "display", PL), ("lit", ".exd")], [("name", "display", PL), ("lit", "_"), ("start", "display", PL), ("lit", "_"), ("lang", "display", PL), ("lit", ".exd")]]
        ctx.ob("NAMES", "page-templates", sorted(got, key=len) == want, f"page file names {[sshow(pcs) for _b, pcs in sx.format_sites()]}; must be {{name}}_{{start}}.exd and {{name}}_{{start}}_{{lang}}.exd", cfb.file, cfb.line)
        ctx.ob("NAMES", "page-template-args", sorted(got, key=len) == want, f"page template arguments {[[x[0] for x in r if x[0] != 'lit'] for r in got]}; must be (name, page.start_id) and (name, page.start_id, language code)", cfb.file, cfb.line, trivial=True)
    # Language::None selects the short template
    cf = prog.body("exd::EXD::calculate_filename")
    if cf and langs:
        none_dv = dict(langs).get("None")
        short_on_none = None
        for p in Explorer(cf).explore():
            if p.end != "return":
                continue
            sel = [c for d, c in p.conds if isinstance(d, tuple) and d[0] == "discr"]
            uses_lang = any(callee == "common::get_language_code" for (_b, callee, _a, _r) in p.events)
            if sel and sel[0] == ("eq", none_dv):
                short_on_none = not uses_lang
        ctx.ob("NAMES", "none-language-short-name", short_on_none is True, "Language::None selects the template without a language code", cf.file, cf.line)
    hb = prog.body("gamedata::GameData::read_excel_sheet_header")
    if not hb:
        ctx.fail_closed("NAMES", "read_excel_sheet_header not found")
    else:
        hsx = StrX(hb)
        hix = _index_of(hb)
        paths = []
        for bi_, t_ in hb.calls():
            if (t_.get("res") or "").endswith("GameData::extract") and len(t_["args"]) >= 2:
                paths.append(hsx.string(t_["args"][1]))
        shapes = []
        for pcs in paths:
            flat = []
            for p_ in pcs:
                if p_[0] == "map":
                    inner = p_[2]
                    d_ = _derive(hix, inner[0][1]) if len(inner) == 1 and inner[0][0] == "opaque" and inner[0][1] is not None else None
                    flat.append((p_[1], "name" if d_ is not None and 2 in d_.params else "?"))
                elif p_[0] == "lit":
                    flat.append(("lit", p_[1]))
                else:
                    flat.append((p_[0],))
            shapes.append(flat)
        ctx.ob("NAMES", "header-path", [("lit", "exd/"), ("to_lowercase", "name"), ("lit", ".exh")] in shapes, f"paths extracted by read_excel_sheet_header: {[sshow(x) for x in paths]}; must include exd/<lower-cased name>.exh", hb.file, hb.line)
        ctx.ob("NAMES", "root-list-path", [("lit", "exd/root.exl")] in shapes, f"root list is read from {[sshow(x) for x in paths if all(y[0] == 'lit' for y in x)]}", hb.file, hb.line)
    sb_ = prog.body("gamedata::GameData::read_excel_sheet")
    if not sb_:
        ctx.fail_closed("NAMES", "read_excel_sheet not found")
    else:
        ssx = StrX(sb_)
        six = _index_of(sb_)
        okp = False
        seen = []
        for bi_, t_ in sb_.calls():
            if (t_.get("res") or "").endswith("GameData::extract") and len(t_["args"]) >= 2:
                pcs = ssx.string(t_["args"][1])
                seen.append(sshow(pcs))
                if len(pcs) == 2 and pcs[0] == ("lit", "exd/") and pcs[1][0] in ("arg", "opaque"):
                    op_ = pcs[1][3] if pcs[1][0] == "arg" else pcs[1][1]
                    d_ = _derive(six, op_) if op_ is not None else None
                    okp = d_ is not None and "calculate_filename" in {c_.split("::")[-1] for c_ in d_.calls} and (pcs[1][0] == "opaque" or pcs[1][2] == (0, 10, False))
        ctx.ob("NAMES", "page-path", okp, f"page paths extracted by read_excel_sheet: {seen}; must be exd/ + EXD::calculate_filename(..)", sb_.file, sb_.line)

    # ---- ROWSCAN
    _rowscan(ctx, prog)

    # ---- ROOTLIST: sheets are located through the parsed root list (rows `name,id`, LF or CRLF terminated)
    er = prog.body("exl::EXL::from_existing")
    if not er:
        ctx.fail_closed("ROOTLIST", "exl::EXL::from_existing not found")
    else:
        from .c08 import exl_reader

        exl_reader(ctx, er, "ROOTLIST", "ROOTLIST")


def _rowscan(ctx, prog):
    """ROWSCAN: the row lookup visits the whole row index: the scan leaves only by exhaustion or inside the branch taken
    for `row_id == id` (no early exit that assumes an ordering of the ids)."""
    from ..loops import classify
    from ..prov import derive, index_of

    row = prog.body("exd::EXD::read_row")
    if not row:
        ctx.fail_closed("ROWSCAN", "exd::EXD::read_row not found")
        return
    ix = index_of(row)
    # find() form
    for _bi, t in row.calls():
        if (t.get("res") or "").split("::")[-1] == "find" and len(t["args"]) == 2 and "data_offsets" in derive(ix, t["args"][0]).names:
            k = ix.resolve(t["args"][1])
            ok = False
            calls_recv = {c_.split("::")[-1] for c_ in derive(ix, t["args"][0]).calls}
            if k[0] == "rv" and k[1]["k"] == "agg" and k[1].get("ak") == "closure" and not ({"rev", "skip", "take", "take_while", "skip_while", "filter", "step_by"} & calls_recv):
                cb = prog.body(k[1]["closure"])
                cix = index_of(cb) if cb else None
                for _b2, _s2, st in (cb.stmts() if cb else []):
                    rv = st.get("rv") or {}
                    if st["k"] == "assign" and rv.get("k") == "bin" and rv["op"] == "Eq":
                        da, db = derive(cix, rv["a"]), derive(cix, rv["b"])
                        for el, cap in ((da, db), (db, da)):
                            if "row_id" in el.names and 2 in el.params and cap.outer_params == {3}:
                                ok = True
            ctx.ob("ROWSCAN", "whole-index", ok, "the row is looked up with a forward find() over the whole row index comparing row_id with the requested id", row.file, row.line)
            return
    scans = []
    for lp in classify(row):
        if lp["kind"] != "ITER":
            continue
        nxt = [bi for bi in lp["blocks"] if row.blocks[bi]["t"]["k"] == "call" and (row.blocks[bi]["t"].get("res") or "").split("::")[-1] == "next" and "data_offsets" in derive(ix, row.blocks[bi]["t"]["args"][0]).names]
        if nxt:
            scans.append((lp, nxt[0]))
    if len(scans) != 1:
        ctx.fail_closed("ROWSCAN", f"expected one scan loop over data_offsets in read_row, found {len(scans)}")
        return
    lp, nb = scans[0]
    blocks = lp["blocks"]
    next_dest = row.blocks[nb]["t"]["dest"]["l"]
    # the `row_id == id` branch
    found_targets = []
    for bi in blocks:
        t = row.blocks[bi]["t"]
        if t["k"] != "switch":
            continue
        r = ix.resolve(t["a"])
        if r[0] == "rv" and r[1]["k"] == "bin" and r[1]["op"] in ("Eq", "Ne"):
            da, db = derive(ix, r[1]["a"]), derive(ix, r[1]["b"])
            if ("row_id" in da.names and db.params == {3} and not db.names) or ("row_id" in db.names and da.params == {3} and not da.names):
                false_t = next((tg for v, tg in t["arms"] if int(v) == 0), None)
                found_targets.append(t.get("else") if r[1]["op"] == "Eq" else false_t)
    bad = []
    for bi in sorted(blocks):
        blk = row.blocks[bi]
        if blk["cleanup"]:
            continue
        for s_ in row.succ(bi):
            if s_ in blocks or row.blocks[s_]["cleanup"] or row.blocks[s_]["t"]["k"] == "unreachable":
                continue
            # leaving the scan: by exhaustion ...
            t = blk["t"]
            if t["k"] == "switch":
                r = ix.resolve(t["a"])
                if r[0] == "rv" and r[1]["k"] == "discr" and r[1]["p"]["l"] == next_dest:
                    continue
            # ... or inside the branch of the matching row
            if s_ in found_targets or any(ft is not None and row.dominates(ft, bi) for ft in found_targets):
                continue
            bad.append(bi)
    ctx.ob("ROWSCAN", "whole-index", bool(found_targets) and not bad, f"the scan over the row index is left only by exhaustion or inside the `row_id == id` branch; other exits at blocks {bad}" if bad else "the scan over the row index is left only by exhaustion or inside the `row_id == id` branch", row.file, row.line, sample=True)
