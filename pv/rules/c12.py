"""C12 — path, shader-key and file hashes equal their standard definitions.

Decided (structural, necessary conditions):
  TABLE    the table the compiler evaluated for every `Jamcrc` constant equals the reflected CRC-32 table (0xEDB88320)
  JAMCRC   `checksum`: register starts at 0xFFFFFFFF, loop body is c' = T[(c ^ byte) & 0xFF] ^ (c >> 8), result is the
           register XOR a net constant 0 (no final inversion) — XOR-affine normal form
  XIVCRC   every `XivCrc32::from` seeds zlib crc32 with 0xFFFFFFFF and applies one bitwise NOT (zero init / no final XOR
           given zlib's documented pre- and post-inversion); the FFI wrapper passes pointer and length of the same slice
  LOWER    every byte string hashed by calculate_partial_hash / calculate_hash derives from a lower-casing call
  SHA1     DEFAULT_STATE, K0..K3 equal FIPS 180-4; DIGEST_LENGTH = 20; round-group dispatch i -> (function, K_i);
           padding: 0x80 marker, 8-byte big-endian bit length at [56..64] when the tail is < 56 bytes else [120..128],
           bits = total * 8, 64-byte blocks; digest bytes are the five state words big-endian
Not decided: equality with an independent implementation on every input (needs execution), SHA-1 round arithmetic.
"""
import re

from .. import refs
from ..mir import const_int, op_place
from ..prov import derive, index_of
from ..sym import Explorer, K, is_const, show, walk
from .c11 import N, fold, nocast

TECHNIQUE = "static analysis: compiler const-eval of CRC tables and SHA-1 constants vs independently computed references; XOR-affine normal forms and operator-tree matching over MIR; must-pass-through (lower-casing) on expression provenance"
TRUSTED = ["rustc nightly MIR and const-eval", "pv.sym expression reconstruction", "zlib crc32 documented pre/post inversion", "FIPS 180-4 constants as computed in pv.refs"]

ALL1 = 0xFFFFFFFF


def xor_affine(e):
    """(core, k): e == core ^ k with Not folded in (u32)."""
    e = N(e)
    k = 0
    while True:
        if isinstance(e, tuple) and e[0] == "un" and e[1] == "Not":
            k ^= ALL1
            e = e[2]
            continue
        if isinstance(e, tuple) and e[0] == "bin" and e[1] == "BitXor":
            a, b = e[2], e[3]
            if is_const(a) and isinstance(a[1], int):
                k ^= a[1] & ALL1
                e = b
                continue
            if is_const(b) and isinstance(b[1], int):
                k ^= b[1] & ALL1
                e = a
                continue
        return e, k


def contains_call(e, suffixes):
    for t in walk(e):
        if isinstance(t, tuple) and t[0] == "call" and any(t[1].endswith(s) for s in suffixes):
            return True
    return False


LOWER = ("::to_lowercase", "::to_ascii_lowercase", "::make_ascii_lowercase")


def low_byte_terms(e, u8_atoms):
    """(atoms, bounded): the leaf values XOR-ed together in `e` seen modulo 256, and whether the value of `e` itself is
    below 256 - truncation to u8 (`as u8`, `& 0xFF`) distributes over XOR, so `(c ^ b) & 0xFF`, `((c ^ b) as u8)` and
    `(c as u8) ^ b` (b a byte) are the same index.  Casts are read from the expression as written (not normalised away)."""
    if not isinstance(e, tuple):
        return set(), False
    if e[0] in ("ref",):
        return low_byte_terms(e[1], u8_atoms)
    if e[0] == "cast":
        at, bd = low_byte_terms(e[2], u8_atoms)
        return at, bd or e[1] in ("u8",)
    if e[0] == "call" and e[1].split("::")[-1] in ("from", "into") and len(e[2]) == 1:
        return low_byte_terms(e[2][0], u8_atoms)
    if e[0] == "bin" and e[1] == "BitAnd":
        for x, y in ((e[2], e[3]), (e[3], e[2])):
            if is_const(x) and x[1] == 0xFF:
                at, _bd = low_byte_terms(y, u8_atoms)
                return at, True
        return set(), False
    if e[0] == "bin" and e[1] == "BitXor":
        a0, b0 = low_byte_terms(e[2], u8_atoms), low_byte_terms(e[3], u8_atoms)
        return a0[0] ^ b0[0] if not (a0[0] & b0[0]) else set(), a0[1] and b0[1]
    if is_const(e):
        return set(), False
    return {e}, e in u8_atoms


def table_index_raw(e):
    """The index expression of the `.table[..]` element access inside a raw (un-normalised) expression."""
    for t in walk(e):
        if isinstance(t, tuple) and t[0] == "idx" and any(isinstance(u, tuple) and u[0] == "fld" and u[2] == "table" for u in walk(t[1])):
            return t[2]
    return None


def run(ctx):
    prog = ctx.prog
    ctx.decided("CRC lookup table = reflected CRC-32 table (256 words per Jamcrc constant)")
    ctx.decided("Jamcrc::checksum init/update/finalisation in XOR-affine normal form")
    ctx.decided("XivCrc32 seeds and inverts zlib crc32 to zero-init/no-final-XOR")
    ctx.decided("lower-casing precedes every path hash")
    ctx.decided("SHA-1 constants, round-group dispatch, padding layout and big-endian digest bytes")
    ctx.not_decided("agreement with an independent implementation on every input; SHA-1 round arithmetic; zlib internals")

    # ---- TABLE
    ref = refs.crc32_reflected_table()
    n_tables = 0
    for path, c in prog.consts.items():
        if c["ty"] == "crc::Jamcrc":
            b = prog.const_bytes(path)
            if b is None or len(b) != 1024:
                ctx.fail_closed("TABLE", f"{path}: Jamcrc constant not evaluable as 256 words")
                continue
            n_tables += 1
            words = [int.from_bytes(b[i : i + 4], "little") for i in range(0, 1024, 4)]
            for i, (g, w) in enumerate(zip(words, ref)):
                ctx.ob("TABLE", f"{path}[{i}]", g == w, f"{path}.table[{i}] = {g:#010x}; reflected CRC-32 (0xEDB88320) gives {w:#010x}", c["span"]["at"].rsplit(":", 2)[0])
    ctx.floor("TABLE", "Jamcrc constants evaluated by the compiler", n_tables, 1)
    # every use of Jamcrc::new must be in a const context we evaluated (no runtime-built tables escape the check)
    runtime_new = []
    for b in prog.bodies.values():
        for bi, t in b.calls():
            if (t.get("res") or "") == "crc::Jamcrc::new":
                runtime_new.append(b.name)
    ctx.ob("TABLE", "Jamcrc::new only in consts", not runtime_new, f"runtime constructions of Jamcrc (table not evaluated here): {runtime_new}", "src/crc.rs")

    # ---- JAMCRC
    b = prog.body("crc::Jamcrc::checksum")
    if not b:
        ctx.fail_closed("JAMCRC", "crc::Jamcrc::checksum not found")
    else:
        ex = Explorer(b)
        paths = ex.explore()
        loops = [p for p in paths if p.end == "loop"]
        rets = [p for p in paths if p.end == "return"]
        folded = None
        if len(loops) == 0 and len(rets) == 1:
            # the same recurrence spelled as bytes.iter().fold(init, |c, &byte| ..): the closure body is the loop body,
            # the fold's initial value the register's, and what is done to the fold result the finalisation
            r0 = rets[0].env.local(0)
            core0, k0 = xor_affine(r0)
            if isinstance(core0, tuple) and core0[0] == "call" and core0[1].split("::")[-1].split("<")[0] == "fold" and len(core0[2]) == 3:
                clo = core0[2][2]
                cb = prog.body(clo[2]) if isinstance(clo, tuple) and clo[0] == "agg" and clo[1] == "closure" else None
                if cb is not None:
                    crets = [q for q in Explorer(cb).explore() if q.end == "return"]
                    if len(crets) == 1:
                        folded = (k0, core0[2][1], N(crets[0].env.local(0)), clo)
                        folded_raw = (crets[0].env.local(0), cb)
        if folded is not None:
            k0, init_e, upd, clo = folded
            ctx.ob("JAMCRC", "final-xor", k0 == 0, f"checksum returns fold(..) ^ {k0:#x}; JAMCRC has no final inversion (net constant 0)", b.file, b.line, sample=True)
            init = (init_e[1] & ALL1) if is_const(init_e) else None
            ctx.ob("JAMCRC", "init", init == ALL1, f"register initial value = {init if init is None else hex(init)}; must be 0xFFFFFFFF", b.file, b.line)
            # closure parameters: 1 = environment (captures self), 2 = accumulator c, 3 = &byte
            C = ("v", 2)
            ok = False
            detail = show(upd)
            if isinstance(upd, tuple) and upd[0] == "bin" and upd[1] == "BitXor":
                parts = [upd[2], upd[3]]
                shr = [x for x in parts if x == N(("bin", "Shr", C, K(8)))]
                tab = [x for x in parts if isinstance(x, tuple) and x[0] == "idx" and any(isinstance(t, tuple) and t[0] == "fld" and t[2] == "table" for t in walk(x[1]))]
                if shr and tab:
                    ix = tab[0][2]
                    if isinstance(ix, tuple) and ix[0] == "bin" and ix[1] == "BitAnd" and K(0xFF, "int") in (ix[2], ix[3]):
                        inner = ix[2] if ix[3] == K(0xFF, "int") else ix[3]
                        if isinstance(inner, tuple) and inner[0] == "bin" and inner[1] == "BitXor" and C in (inner[2], inner[3]):
                            other = inner[2] if inner[3] == C else inner[3]
                            ok = not is_const(other) and other != C and any(t == ("v", 3) for t in walk(other))
                    if not ok:
                        # the low byte taken by a cast, on either side of the XOR
                        raw_e, cb_ = folded_raw
                        rix = table_index_raw(raw_e)
                        byte_atoms = {("deref", ("p", 3))} if len(cb_.locals) > 3 and cb_.locals[3]["ty"].replace(" ", "") in ("&u8", "&'_u8") else set()
                        if len(cb_.locals) > 3 and cb_.locals[3]["ty"] == "u8":
                            byte_atoms = {("p", 3)}
                        if rix is not None and byte_atoms:
                            at, bd = low_byte_terms(rix, byte_atoms)
                            ok = bd and at == {("p", 2)} | byte_atoms
            # the captured table is self.table of the checksum's own receiver
            cap_ok = isinstance(clo[3], tuple) and any(any(t in (("p", 1), ("v", 1)) for t in walk(x)) for x in clo[3])
            ctx.ob("JAMCRC", "update", ok and cap_ok, f"fold body: c' = {detail}; definition c' = T[(c ^ byte) & 0xFF] ^ (c >> 8)", b.file, b.line, sample=True)
        elif len(loops) != 1 or len(rets) != 1:
            ctx.fail_closed("JAMCRC", f"checksum: expected one loop / one exit, got {len(loops)}/{len(rets)}")
        else:
            # the register is the havocked local that the return value is affine in
            core, k = xor_affine(rets[0].env.local(0))
            ctx.ob("JAMCRC", "final-xor", isinstance(core, tuple) and core[0] == "v" and k == 0, f"checksum returns {show(core)} ^ {k:#x}; JAMCRC has no final inversion (net constant 0)", b.file, b.line, sample=True)
            reg = core[1] if isinstance(core, tuple) and core[0] == "v" else None
            # init: explore without havoc up to the loop head to read the initial assignment
            init = None
            ex0 = Explorer(b)
            for p in ex0.explore(havoc_loops=False):
                if reg is not None and reg in p.env.loc:
                    pass
            if reg is not None:
                for kind, bi, si, s in b.defs().get(reg, []):
                    if kind == "assign" and s["rv"]["k"] == "use" and const_int(s["rv"]["a"]) is not None and not _in_loop(ex, bi):
                        init = const_int(s["rv"]["a"]) & ALL1
            ctx.ob("JAMCRC", "init", init == ALL1, f"register initial value = {init if init is None else hex(init)}; must be 0xFFFFFFFF", b.file, b.line)
            if reg is not None:
                upd = N(loops[0].env.local(reg))
                C = ("v", reg)
                # expected: T[(c ^ byte) & 0xFF] ^ (c >> 8)
                ok = False
                detail = show(upd)
                if isinstance(upd, tuple) and upd[0] == "bin" and upd[1] == "BitXor":
                    parts = [upd[2], upd[3]]
                    shr = [x for x in parts if x == N(("bin", "Shr", C, K(8)))]
                    tab = [x for x in parts if isinstance(x, tuple) and x[0] == "idx" and x[1] == ("fld", ("deref", ("v", 1)), "table")]
                    if shr and tab:
                        ix = tab[0][2]
                        if isinstance(ix, tuple) and ix[0] == "bin" and ix[1] == "BitAnd" and K(0xFF, "int") in (ix[2], ix[3]):
                            inner = ix[2] if ix[3] == K(0xFF, "int") else ix[3]
                            if isinstance(inner, tuple) and inner[0] == "bin" and inner[1] == "BitXor" and C in (inner[2], inner[3]):
                                other = inner[2] if inner[3] == C else inner[3]
                                # the other operand is the current byte of the input slice (derives from param 2 via the iterator)
                                ok = not is_const(other) and other != C
                ctx.ob("JAMCRC", "update", ok, f"loop body: c' = {detail}; definition c' = T[(c ^ byte) & 0xFF] ^ (c >> 8)", b.file, b.line, sample=True)

    # ---- XIVCRC
    n_from = 0
    for name, fb in prog.bodies.items():
        if fb.j.get("impl_trait") == "std::convert::From" and fb.j.get("impl_self") == "crc::XivCrc32" and name.endswith("::from"):
            n_from += 1
            ex = Explorer(fb)
            rets = [p for p in ex.explore() if p.end == "return"]
            for p in rets:
                r = p.env.local(0)
                # either delegates to another From impl, or builds new(!crc32(seed, s), len)
                if isinstance(r, tuple) and r[0] == "call" and r[1].endswith("::from"):
                    ctx.ob("XIVCRC", f"{fb.j.get('impl_span',{}).get('at','')}|delegates".split("|")[1] + "|" + _argty(fb), True, f"{name} delegates to {r[1]}", fb.file, fb.line, trivial=True)
                    continue
                crcv = None
                if isinstance(r, tuple) and r[0] == "call" and r[1].endswith("XivCrc32::new"):
                    crcv = r[2][0]
                elif isinstance(r, tuple) and r[0] == "agg":
                    crcv = r[3][0]
                if crcv is None:
                    ctx.ob("XIVCRC", f"shape|{_argty(fb)}", False, f"{name}: result is not XivCrc32::new(..): {show(r)}", fb.file, fb.line)
                    continue
                core, k = xor_affine(crcv)
                ok = isinstance(core, tuple) and core[0] == "call" and core[1] == "crc::crc32" and k == ALL1
                seed = N(core[2][0]) if ok else None
                ok = ok and is_const(seed) and seed[1] & ALL1 == ALL1
                ctx.ob("XIVCRC", f"seed-and-not|{_argty(fb)}", ok, f"{name}: crc = {show(N(crcv))}; must be !crc32(0xFFFFFFFF, s)", fb.file, fb.line, sample=True)
    ctx.floor("XIVCRC", "From impls for XivCrc32", n_from, 3)
    wb = prog.body("crc::crc32")
    if not wb:
        ctx.fail_closed("XIVCRC", "crc::crc32 wrapper not found")
    else:
        ex = Explorer(wb)
        ok = False
        det = ""
        for p in ex.explore():
            for (_bb, callee, args, res) in p.events:
                if callee.endswith("libz_rs_sys::crc32") or callee == "libz_rs_sys::crc32":
                    a0, a1, a2 = (N(a) for a in args)
                    det = f"crc32({show(a0)}, {show(a1)}, {show(a2)})"
                    ok = a0 == ("v", 1) and contains_call(args[1], ("::as_ptr",)) and ("v", 2) in list(walk(a1)) and ("v", 2) in list(walk(a2)) and (isinstance(a2, tuple) and (a2[0] == "len" or contains_call(args[2], ("::len",)))) and not any(isinstance(t, tuple) and t[0] == "bin" for t in walk(a2))
                    r = N(p.env.local(0))
                    ok = ok and r == N(res)
        ctx.ob("XIVCRC", "ffi-args", ok, f"zlib call: {det}; must pass the seed, the slice pointer and the slice length unchanged and return the result", wb.file, wb.line)

    # ---- LOWER
    n_sinks = 0
    for fn in ("sqpack::index::SqPackIndex::calculate_partial_hash", "sqpack::index::SqPackIndex::calculate_hash"):
        fb = prog.body(fn)
        if not fb:
            ctx.fail_closed("LOWER", f"{fn} not found")
            continue
        ex = Explorer(fb)
        seen = set()
        for p in ex.explore():
            for (bb, callee, args, res) in p.events:
                if callee == "crc::Jamcrc::checksum" and bb not in seen:
                    seen.add(bb)
                    n_sinks += 1
                    ok = contains_call(args[1], LOWER)
                    ctx.ob("LOWER", f"{fn.split('::')[-1]}|checksum-input", ok, f"{fn}: hashed bytes = {show(args[1])[:160]}; must derive from a lower-casing call", fb.file, fb.line, sample=True)
    ctx.floor("LOWER", "Jamcrc::checksum call sites in the hash functions", n_sinks, 4)

    sha1_rules(ctx)


def sha1_rules(ctx):
    """SHA-1 structural rules (shared with C10, whose digests are produced by the same code)."""
    prog = ctx.prog
    H, Ks = refs.sha1_constants()
    ds = prog.const_bytes("sha1::DEFAULT_STATE")
    if ds is None or len(ds) != 20:
        ctx.fail_closed("SHA1", "sha1::DEFAULT_STATE not found")
    else:
        got = [int.from_bytes(ds[i : i + 4], "little") for i in range(0, 20, 4)]
        for i in range(5):
            ctx.ob("SHA1", f"H{i}", got[i] == H[i], f"H{i} = {got[i]:#010x}; FIPS 180-4 {H[i]:#010x}", "src/sha1.rs")
    for i in range(4):
        v = prog.const_scalar(f"sha1::K{i}")
        if v is None:
            ctx.fail_closed("SHA1", f"sha1::K{i} not found")
        else:
            ctx.ob("SHA1", f"K{i}", v == Ks[i], f"K{i} = {v:#010x}; floor(2^30*sqrt(c)) = {Ks[i]:#010x}", "src/sha1.rs")
    # hasher state = (chaining state, bytes already compressed, bytes buffered): whoever rewinds one part of it rewinds
    # all three — a reset that keeps the processed-byte counter makes every later digest of a reused hasher carry the
    # wrong message length.  `update` (which advances all three through its block callback) is the reference writer.
    sha_adt = prog.adts.get("sha1::Sha1")
    if not sha_adt:
        ctx.fail_closed("SHA1", "sha1::Sha1 not found")
    else:
        n_fields = len(sha_adt["variants"][0]["fields"])
        n_w = 0
        for name, b in prog.raw_bodies.items():
            if not name.startswith("sha1::") or "{closure" in name or not getattr(b, "locals", None) or len(b.locals) < 2:
                continue
            if str(b.locals[1].get("ty", "")).replace(" ", "") != "&mutsha1::Sha1":
                continue
            touched = set()
            for blk in b.blocks:
                for st in blk["s"]:
                    if st.get("k") != "assign":
                        continue
                    for pl, is_w in ((st["lhs"], True), (st["rv"].get("p") if st["rv"].get("k") == "ref" and st["rv"].get("mut") else None, True)):
                        if isinstance(pl, dict) and pl.get("l") == 1 and len(pl.get("p", [])) >= 2 and pl["p"][0] == "*" and isinstance(pl["p"][1], dict) and pl["p"][1].get("a") == "sha1::Sha1":
                            touched.add(pl["p"][1].get("n"))
                    # whole-value store `*self = Sha1 { .. }` rewinds everything
                    if st["lhs"].get("l") == 1 and st["lhs"].get("p") == ["*"]:
                        touched |= {f_["name"] for f_ in sha_adt["variants"][0]["fields"]}
            if touched:
                n_w += 1
                ctx.ob("SHA1", f"state-writer|{name.split('::')[-1]}", len(touched) == n_fields, f"{name} writes hasher fields {sorted(touched)}; a method that changes the hasher state changes all of {[f_['name'] for f_ in sha_adt['variants'][0]['fields']]} (chaining state, buffered block, processed-byte count)", b.file, b.line)
        ctx.floor("SHA1", "methods that write the hasher state", n_w, 1)
    # the unsafe operations of the hash modules (the 64-byte block cast of SHA-1, the libz crc32 call) stay inside the
    # slice they are given (pv/unsafe_rule.py)
    from ..unsafe_rule import rule as _unsafe_rule

    n_u = _unsafe_rule(ctx, [n_ for n_ in prog.raw_bodies if n_.startswith(("sha1::", "crc::"))])
    ctx.floor("UNSAFE", "unsafe operations in the hash modules", n_u, 2)
    # the 4-lane vector type the compression function computes with: every lane-wise operator impl combines lane k of
    # both operands with its own operator into lane k (an `&` written as `|` in one lane changes every digest)
    LANE_OPS = {"Add": ("Add", "WAdd", "wrapping_add", "AddWithOverflow"), "Sub": ("Sub", "WSub", "wrapping_sub", "SubWithOverflow"), "BitAnd": ("BitAnd",), "BitOr": ("BitOr",), "BitXor": ("BitXor",), "Shl": ("Shl", "wrapping_shl"), "Shr": ("Shr", "wrapping_shr")}
    n_lw = 0
    for name_, b_ in sorted(prog.raw_bodies.items()):
        m_ = re.match(r"<sha1::\w+::u32x4 as std::ops::(\w+)(<.*>)?>::\w+$", name_)
        if not m_ or m_.group(1) not in LANE_OPS:
            continue
        lix = index_of(b_)
        for _bi, _si, st_ in b_.stmts():
            rv_ = st_.get("rv") or {}
            if st_.get("k") == "assign" and rv_.get("k") == "agg" and str(rv_.get("adt", "")).endswith("u32x4") and st_["lhs"]["l"] == 0:
                okl = True
                det_ = []
                for k_, o_ in enumerate(rv_["ops"]):
                    d_ = derive(lix, o_)
                    lanes_ = {pth[-1] for pth in d_.paths if pth}
                    ops_ = {o2.replace("WithOverflow", "") for o2 in d_.ops} | {c_.split("::")[-1] for c_ in d_.calls}
                    good = lanes_ <= {str(k_)} and bool(lanes_) and bool(ops_ & set(LANE_OPS[m_.group(1)])) and not (ops_ & {x for kk, vv in LANE_OPS.items() if kk != m_.group(1) for x in vv})
                    okl = okl and good
                    det_.append((sorted(lanes_), sorted(ops_)[:3]))
                n_lw += 1
                ctx.ob("SHA1", f"lanes|{m_.group(1)}{m_.group(2) or ''}", okl, f"{name_}: lane k of the result is computed from (lanes, operators) {det_}; must be lane k of both operands combined with {m_.group(1)}", b_.file, b_.line, sample=(n_lw == 1))
    ctx.floor("SHA1", "lane-wise operator impls of the vector type", n_lw, 5)
    # the compression function loads the 16 message words in order into w0..w3, the chaining state into (state[0..4],
    # state[4]), and adds each working variable back into the state word of the same index
    pb_ = prog.body("sha1::Sha1State::process")
    if pb_:
        pix_ = index_of(pb_)
        word_seq = []
        for _bi, _si, st_ in pb_.stmts():
            rv_ = st_.get("rv") or {}
            if st_.get("k") == "assign" and rv_.get("k") == "agg" and str(rv_.get("adt", "")).endswith("u32x4") and len(rv_.get("ops", [])) == 4:
                idxs = []
                for o_ in rv_["ops"]:
                    r_ = pix_.resolve(o_)
                    pl_ = None
                    if r_[0] == "place":
                        pl_ = r_[1]
                    elif r_[0] == "rv" and r_[1].get("k") == "use":
                        pl_ = r_[1]["a"].get("c") or r_[1]["a"].get("m")
                    cix = None
                    for pr_ in (pl_ or {}).get("p", []):
                        if isinstance(pr_, dict) and "i" in pr_:
                            c_ = pix_.resolve({"c": {"l": pr_["i"], "p": []}})
                            cix = c_[1] if c_[0] == "const" else None
                        elif isinstance(pr_, dict) and "ci" in pr_:
                            cix = pr_["ci"]
                    fld_ = {pr_.get("n") for pr_ in (pl_ or {}).get("p", []) if isinstance(pr_, dict) and pr_.get("n")}
                    src_ = "state" if "state" in fld_ else ("words" if pl_ and str(pb_.locals[pl_["l"]].get("ty", "")).replace(" ", "") == "[u32;16]" else "?")
                    idxs.append((src_, cix))
                if all(i_[1] is not None for i_ in idxs):
                    word_seq.append(idxs)
        from_words = [x for x in word_seq if all(s_ == "words" for s_, _i in x)]
        flat_w = [i_ for x in from_words for _s, i_ in x]
        if from_words:
            ctx.ob("SHA1", "message-words-in-order", flat_w == list(range(16)), f"the message words are loaded into the vectors as words{flat_w}; must be words[0..16] in order", pb_.file, pb_.line)
        # the working variables are added back into the state word of the same index
        backs = []
        for bi_, t_ in pb_.calls():
            if not (t_.get("res") or "").endswith("wrapping_add") or len(t_["args"]) != 2:
                continue
            r0 = pix_.resolve(t_["args"][0])
            if r0[0] != "place" or not any(isinstance(pr_, dict) and pr_.get("n") == "state" for pr_ in r0[1].get("p", [])):
                continue
            kin = None
            for pr_ in r0[1]["p"]:
                if isinstance(pr_, dict) and "i" in pr_:
                    c_ = pix_.resolve({"c": {"l": pr_["i"], "p": []}})
                    kin = c_[1] if c_[0] == "const" else None
            if kin is None:
                continue
            kout = None
            dl_ = t_["dest"]["l"]
            for _b2, _s2, st2 in pb_.stmts():
                rv2 = st2.get("rv") or {}
                src2 = ((rv2.get("a") or {}).get("m") or (rv2.get("a") or {}).get("c") or {}) if rv2.get("k") == "use" else {}
                if st2.get("k") == "assign" and src2.get("l") == dl_ and any(isinstance(pr_, dict) and pr_.get("n") == "state" for pr_ in st2["lhs"].get("p", [])):
                    for pr_ in st2["lhs"]["p"]:
                        if isinstance(pr_, dict) and "i" in pr_:
                            c_ = pix_.resolve({"c": {"l": pr_["i"], "p": []}})
                            kout = c_[1] if c_[0] == "const" else None
            if kout is not None:
                backs.append((kin, kout))
        if backs:
            ctx.ob("SHA1", "state-add-back", all(a_ == b2 for a_, b2 in backs) and sorted(b2 for _a, b2 in backs) == [0, 1, 2, 3, 4], f"state words are updated as (read index, written index) {backs}; each of state[0..5] is added to and stored back under its own index", pb_.file, pb_.line)
        from_state = [x for x in word_seq if all(s_ == "state" for s_, _i in x)]
        if from_state:
            ctx.ob("SHA1", "state-words-in-order", [i_ for _s, i_ in from_state[0]] == [0, 1, 2, 3], f"the chaining state is loaded as state{[i_ for _s, i_ in from_state[0]]}; must be state[0..4]", pb_.file, pb_.line)
    dl = prog.const_scalar("sha1::DIGEST_LENGTH")
    ctx.ob("SHA1", "DIGEST_LENGTH", dl == 20, f"DIGEST_LENGTH = {dl}", "src/sha1.rs")
    # round-group dispatch
    rb = prog.body("sha1::sha1_digest_round_x4")
    if not rb:
        ctx.fail_closed("SHA1", "sha1::sha1_digest_round_x4 not found")
    else:
        ex = Explorer(rb)
        table = {}
        for p in ex.explore():
            if p.end != "return":
                continue
            sel = [c for d, c in p.conds if N(d) == ("v", 3) and c[0] == "eq"]
            r = p.env.local(0)
            if len(sel) == 1 and isinstance(r, tuple) and r[0] == "call":
                kv = None
                for t in walk(r):
                    if isinstance(t, tuple) and t[0] == "kz" and t[2]:
                        kv = t[2]
                    if isinstance(t, tuple) and t[0] == "kb":
                        kv = t[1]
                table[sel[0][1]] = (r[1].split("::")[-1], kv)
        want_fn = {0: "sha1rnds4c", 1: "sha1rnds4p", 2: "sha1rnds4m", 3: "sha1rnds4p"}
        for i in range(4):
            got = table.get(i)
            kpath = f"sha1::sha1_digest_round_x4::K{i}V"
            kb = prog.const_bytes(kpath)
            kok = kb is not None and [int.from_bytes(kb[j : j + 4], "little") for j in range(0, 16, 4)] == [Ks[i]] * 4
            fn_ok = got is not None and got[0] == want_fn[i] and (got[1] == kpath or (kb is not None and got[1] == kb.hex()))
            ctx.ob("SHA1", f"round-group-{i}", bool(fn_ok and kok), f"rounds {20*i}..{20*i+19}: dispatch = {got}, K vector ok = {kok}; need {want_fn[i]} with K{i}", rb.file, rb.line, sample=(i == 0))
    # padding layout in digest()
    db = prog.body("sha1::Sha1::digest")
    if not db:
        ctx.fail_closed("SHA1", "sha1::Sha1::digest not found")
    else:
        ex = Explorer(db)
        paths = [p for p in ex.explore() if p.end == "return"]
        marker = set()
        thresh = set()
        ranges = {}
        nproc = {}
        bits_ok = False
        extra_ok = False
        for p in paths:
            side = None
            for d, c in p.conds:
                d = N(d)
                if isinstance(d, tuple) and d[0] == "bin" and d[1] in ("Lt", "Le", "Gt", "Ge") and any(is_const(x) for x in (d[2], d[3])):
                    kk = d[2] if is_const(d[2]) else d[3]
                    thresh.add((d[1], kk[1], "const-right" if is_const(d[3]) else "const-left"))
                    truth = (c == ("eq", 1)) or (c[0] == "ne" and 0 in c[1])
                    side = "short" if truth else "long"
            for lv, v in p.env.mem.items():
                v = N(v)
                if is_const(v) and v[1] == 0x80:
                    marker.add(show(N(lv[2])) if lv[0] == "idx" else "?")
            rs = []
            np_ = 0
            for (_bb, callee, args, res) in p.events:
                if callee.endswith("IndexMut::index_mut") or callee.endswith("::index_mut"):
                    r = args[1]
                    if isinstance(r, tuple) and r[0] == "agg" and "Range" in r[2] and len(r[3]) == 2:
                        lo, hi = N(r[3][0]), N(r[3][1])
                        if is_const(lo) and is_const(hi):
                            rs.append((lo[1], hi[1]))
                if callee.endswith("Sha1State::process"):
                    np_ += 1
            if side:
                ranges[side] = rs
                nproc[side] = np_
            # bits = (len + blocks.len) * 8 and extra = big-endian bytes
            for l, e in p.env.loc.items():
                e = N(e)
                if isinstance(e, tuple) and e[0] == "bin" and e[1] == "Mul" and K(8, "int") in (e[2], e[3]):
                    s = e[2] if e[3] == K(8, "int") else e[3]
                    flds = {t[2] for t in walk(s) if isinstance(t, tuple) and t[0] == "fld"}
                    if isinstance(s, tuple) and s[0] == "bin" and s[1] == "Add" and "len" in flds:
                        bits_ok = True
                if isinstance(e, tuple) and e[0] == "agg" and e[1] == "array" and len(e[3]) == 8:
                    shifts = []
                    for x in e[3]:
                        if isinstance(x, tuple) and x[0] == "bin" and x[1] == "Shr" and is_const(x[3]):
                            shifts.append(x[3][1])
                        else:
                            shifts.append(None)
                    if shifts == [56, 48, 40, 32, 24, 16, 8, 0]:
                        extra_ok = True
        ctx.ob("SHA1", "pad-threshold", thresh == {("Lt", 56, "const-right")}, f"padding branch condition(s): {sorted(thresh)}; must be tail_len < 56", db.file, db.line, sample=True)
        ctx.ob("SHA1", "pad-marker", len(marker) == 1, f"0x80 marker stored at index {sorted(marker)} (the tail length)", db.file, db.line)
        ctx.ob("SHA1", "pad-length-position", ranges.get("short") == [(56, 64)] and ranges.get("long") == [(120, 128)], f"length field ranges: {ranges}; must be [56..64] / [120..128]", db.file, db.line)
        ctx.ob("SHA1", "pad-blocks", nproc.get("short") == 1 and nproc.get("long") == 2, f"blocks processed while finishing: {nproc}; must be 1 / 2", db.file, db.line)
        ctx.ob("SHA1", "bit-length", bits_ok, "bits = (len + buffered) * 8", db.file, db.line)
        ctx.ob("SHA1", "length-big-endian", extra_ok, "length bytes are bits >> 56,48,...,0", db.file, db.line)
    bb_ = prog.body("sha1::Digest::bytes")
    if not bb_:
        ctx.fail_closed("SHA1", "sha1::Digest::bytes not found")
    else:
        ex = Explorer(bb_)
        rets = [p for p in ex.explore() if p.end == "return"]
        ok = False
        got = None
        if len(rets) == 1:
            r = N(rets[0].env.local(0))
            if isinstance(r, tuple) and r[0] == "agg" and r[1] == "array" and len(r[3]) == 20:
                got = []
                for x in r[3]:
                    if isinstance(x, tuple) and x[0] == "bin" and x[1] == "Shr" and is_const(x[3]) and isinstance(x[2], tuple) and x[2][0] == "idx" and is_const(x[2][2]):
                        got.append((x[2][2][1], x[3][1]))
                    else:
                        got.append(None)
                ok = got == [(w, s) for w in range(5) for s in (24, 16, 8, 0)]
        ctx.ob("SHA1", "digest-bytes-big-endian", ok, f"digest byte k = state[k/4] >> (24 - 8*(k%4)): {got}", bb_.file, bb_.line)
    ib = prog.bodies.get("sha1::Blocks::input")
    if not ib:
        ctx.fail_closed("SHA1", "sha1::Blocks::input not found")
    else:
        consts = set()
        from ..panic import BodyIndex as _BI, const_slice_len as _csl
        import re as _re

        iix = _BI(ib)

        def _size(o):
            """a chunk size given as a literal, a named constant, or the length of the fixed-size block array"""
            r_ = iix.resolve(o)
            if r_[0] == "const":
                return r_[1]
            if r_[0] == "call" and iix.callee(r_[1]).split("::")[-1] == "len" and r_[1]["args"]:
                q_ = op_place(r_[1]["args"][0])
                d_ = iix.single_def(q_["l"]) if q_ and not q_["p"] else None
                ty_ = ""
                if d_ and d_[0] == "assign" and d_[3]["rv"]["k"] == "ref":
                    ty_ = d_[3]["rv"]["p"].get("ty", "")
                elif d_ and d_[0] == "assign" and d_[3]["rv"]["k"] in ("cast", "use"):
                    src_ = op_place(d_[3]["rv"]["a"])
                    dd_ = iix.single_def(src_["l"]) if src_ and not src_["p"] else None
                    if dd_ and dd_[0] == "assign" and dd_[3]["rv"]["k"] == "ref":
                        ty_ = dd_[3]["rv"]["p"].get("ty", "")
                m_ = _re.search(r"\[u8; (\d+)\]", ty_ or (q_ or {}).get("ty", ""))
                return int(m_.group(1)) if m_ else None
            return None

        exact = False
        for _bi, t in ib.calls():
            c = t.get("res") or ""
            if c.endswith("::chunks"):
                consts.add(("chunks", _size(t["args"][1])))
            if c.endswith("::chunks_exact"):
                # full blocks by chunks_exact(64), the rest by remainder(): the same split as chunks(64) + `len == 64`
                consts.add(("chunks", _size(t["args"][1])))
                exact = any((t2.get("res") or "").endswith("::remainder") for _b2, t2 in ib.calls())
        if exact:
            consts.add(("Eq", 64))
        for _bi, _si, s in ib.stmts():
            rv = s.get("rv", {})
            if rv.get("k") == "bin" and rv["op"] in ("Eq", "Ne", "Lt", "Le", "Gt", "Ge"):
                for o in (rv["a"], rv["b"]):
                    v = const_int(o)
                    if v is not None and v > 1:
                        consts.add((rv["op"], v))
        ctx.ob("SHA1", "block-size", ("chunks", 64) in consts and ("Eq", 64) in consts and all(v == 64 for _, v in consts), f"block constants in Blocks::input: {sorted(consts, key=str)}; must be chunks(64) and == 64", ib.file, ib.line)


def _in_loop(ex, bb):
    for h, (blocks, _a) in ex.loops().items():
        if bb in blocks:
            return True
    return False


def _argty(fb):
    return fb.locals[1]["ty"] if len(fb.locals) > 1 else "?"
