"""C15 — game paths, race codes and repository file names are well-formed and unambiguous.

Every table below is extracted from the switch nests of the function (pv.table) and checked on its whole finite
domain; leaves and conditions are literals read off the MIR.  Templates come from the format! invocations.
"""
from itertools import product

from .. import fmt
from ..mir import const_int
from ..sym import Explorer, is_const, show, walk
from ..table import Composer, Table, Undecided, enum_variants, leaf_option, leaf_variant

TECHNIQUE = "static analysis: decision tables extracted from MIR switch nests and checked exhaustively over their finite enum domains (partition, totality, injectivity, mutual inverse, equality with reference tables); format-template and slice-constant agreement"
TRUSTED = ["rustc nightly MIR", "pv.sym / pv.table decision-table extraction", "reference tables of FFXIV race codes, tribes, platform tags and category ids written into this rule"]

# Reference (game client conventions; c-codes as used in chara/human/cXXXX paths)
REF_TRIBES = {
    "Hyur": {"Midlander", "Highlander"},
    "Elezen": {"Wildwood", "Duskwight"},
    "Lalafell": {"Plainsfolk", "Dunesfolk"},
    "Miqote": {"Seeker", "Keeper"},
    "Roegadyn": {"SeaWolf", "Hellsguard"},
    "AuRa": {"Raen", "Xaela"},
    "Hrothgar": {"Hellion", "Lost"},
    "Viera": {"Rava", "Veena"},
}
REF_RACE_CODE = {
    ("Hyur", "Midlander", "Male"): 101, ("Hyur", "Midlander", "Female"): 201,
    ("Hyur", "Highlander", "Male"): 301, ("Hyur", "Highlander", "Female"): 401,
    ("Elezen", None, "Male"): 501, ("Elezen", None, "Female"): 601,
    ("Miqote", None, "Male"): 701, ("Miqote", None, "Female"): 801,
    ("Roegadyn", None, "Male"): 901, ("Roegadyn", None, "Female"): 1001,
    ("Lalafell", None, "Male"): 1101, ("Lalafell", None, "Female"): 1201,
    ("AuRa", None, "Male"): 1301, ("AuRa", None, "Female"): 1401,
    ("Hrothgar", None, "Male"): 1501, ("Hrothgar", None, "Female"): 1601,
    ("Viera", None, "Male"): 1701, ("Viera", None, "Female"): 1801,
}
REF_PLATFORM = {"Win32": "win32", "PS3": "ps3", "PS4": "ps4", "PS5": "ps5", "Xbox": "lys"}
REF_CATEGORY = {
    "common": ("Common", 0x00), "bgcommon": ("BackgroundCommon", 0x01), "bg": ("Background", 0x02), "cut": ("Cutscene", 0x03),
    "chara": ("Character", 0x04), "shader": ("Shader", 0x05), "ui": ("UI", 0x06), "sound": ("Sound", 0x07), "vfx": ("VFX", 0x08),
    "ui_script": ("UIScript", 0x09), "exd": ("EXD", 0x0A), "game_script": ("GameScript", 0x0B), "music": ("Music", 0x0C),
    "sqpack_test": ("SqPackTest", 0x12), "debug": ("Debug", 0x13),
}


def body_type(race, tribe, gender):
    return (race, tribe if race == "Hyur" else None, gender)


def str_eq_eval(s):
    """call evaluator for `<str as PartialEq>::eq(param, "lit")` conditions at the point param == s."""

    def ev(callee, args, point):
        if callee.endswith("PartialEq for str>::eq") or callee.endswith("PartialEq::eq"):
            lits = [a[1] for a in args if isinstance(a, tuple) and a[0] == "ks"]
            if len(lits) == 1:
                return lits[0] == s
        return None

    return ev


def string_table(body):
    """For a `match s { "a" => X, ... _ => D }` function: dict literal -> leaf, and the default leaf."""
    t = Table(body)
    if not t.is_table:
        return None, None, t
    lits = set()
    for p in t.paths:
        for d, _c in p.conds:
            if isinstance(d, tuple) and d[0] == "call":
                for a in d[2]:
                    if isinstance(a, tuple) and a[0] == "ks":
                        lits.add(a[1])
    out = {}
    for s in sorted(lits):
        out[s] = t.lookup({}, str_eq_eval(s)).env.local(0)
    default = t.lookup({}, str_eq_eval("\x00<no such literal>\x00")).env.local(0)
    return out, default, t


def enum_table(prog, body, enum_path, param=1):
    """For a `match e { V => leaf }` function over one enum parameter: variant name -> leaf expr."""
    t = Table(body)
    if not t.is_table:
        return None
    out = {}
    for name, d in enum_variants(prog, enum_path):
        out[name] = t.lookup({("discr", param): d}).env.local(0)
    return out


def leaf_str(e):
    # &'static str leaves appear as ("ks", s) possibly behind a reborrow
    while isinstance(e, tuple) and e[0] in ("ref", "deref"):
        e = e[1]
    if isinstance(e, tuple) and e[0] == "ks":
        return e[1]
    return None


def read_side_names(ctx, rule):
    """File names the archive reader opens: index_filename / index2_filename / dat_filename as string expressions read off
    the MIR, every formatted argument identified by provenance (shared: C15 TEMPLATE states them, C01 NAMING relies on
    them to open the files a path designates)."""
    from ..prov import derive as _derive, index_of as _index_of
    from ..strx import StrX, show as sshow

    prog = ctx.prog

    def calls_of(d):
        return {c_.split("::")[-1] for c_ in d.calls}

    read_tbl = [
        ("platform", lambda d: "get_platform_string" in calls_of(d) and "platform" in d.names),
        ("expansion", lambda d: "expansion" in calls_of(d)),
        ("index_filename", lambda d: "index_filename" in calls_of(d)),
        ("category", lambda d: d.params == {3} and not (calls_of(d) & {"expansion", "get_platform_string"})),
        ("chunk", lambda d: d.params == {2}),
        ("data_file_id", lambda d: d.params == {4}),
    ]

    def roles(b, pcs):
        ix = _index_of(b)
        out = []
        for p_ in pcs:
            if p_[0] == "lit":
                out.append(("lit", p_[1]))
            elif p_[0] in ("arg", "opaque"):
                op_ = p_[3] if p_[0] == "arg" else p_[1]
                d = _derive(ix, op_) if op_ is not None else None
                r = next((name for name, pred in read_tbl if d is not None and pred(d)), "?")
                out.append((r, p_[1], p_[2]) if p_[0] == "arg" else (r, "opaque", None))
            else:
                out.append((p_[0],))
        return out

    bodies = {}
    for fn in ("index_filename", "index2_filename", "dat_filename"):
        b = prog.body("repository::Repository::" + fn)
        if not b:
            ctx.fail_closed(rule, f"repository::Repository::{fn} not found")
            return
        bodies[fn] = (b, StrX(b).returned())
    W2X, W2, PLAIN = (2, 16, True), (2, 10, True), (0, 10, False)
    want_i = [("category", "lower_hex", W2X), ("expansion", "display", W2), ("chunk", "display", W2), ("lit", "."), ("platform", "display", PLAIN), ("lit", ".index")]
    want_d = want_i[:-1] + [("lit", ".dat"), ("data_file_id", "display", PLAIN)]
    ib, ipc = bodies["index_filename"]
    dbb, dpc = bodies["dat_filename"]
    i2b, i2pc = bodies["index2_filename"]
    ir, dr, i2r = roles(ib, ipc), roles(dbb, dpc), roles(i2b, i2pc)
    ctx.ob(rule, "index-name", ir == want_i, f"index_filename = {sshow(ipc)!r} of {[x[0] for x in ir if x[0] != 'lit']}; must be {{category:02x}}{{expansion:02}}{{chunk:02}}.{{platform}}.index", ib.file, ib.line, sample=True)
    ctx.ob(rule, "dat-name", dr == want_d, f"dat_filename = {sshow(dpc)!r} of {[x[0] for x in dr if x[0] != 'lit']}; must be {{category:02x}}{{expansion:02}}{{chunk:02}}.{{platform}}.dat{{id}}", dbb.file, dbb.line)
    ok_i2 = i2r == want_i[:-1] + [("lit", ".index2")] or (len(i2r) == 2 and i2r[0][0] == "index_filename" and i2r[1] == ("lit", "2") and (i2r[0][1] == "opaque" or i2r[0][2] == PLAIN))
    ctx.ob(rule, "index2-name", ok_i2, f"index2_filename = {sshow(i2pc)!r}; must be index_filename + '2'", i2b.file, i2b.line)


def run(ctx):
    prog = ctx.prog
    ctx.decided("supported-tribe table is a partition of the 16 tribes equal to the reference (8 races)")
    ctx.decided("race-code table: defined exactly on supported triples, injective over body types, equal to the reference (256 triples)")
    ctx.decided("slot abbreviation tables are mutual inverses with distinct 3-byte values (10 slots); character-category tables pairwise distinct")
    ctx.decided("equipment file-name template positions equal the deconstructor's slice constants; template argument roles")
    ctx.decided("Repository ordering decision tree (Base < Expansion, expansions by number) and sort after discovery")
    ctx.decided("platform tags, category names/ids, expansion folder names equal the reference; read-side and patch-side index/dat templates agree piecewise")
    ctx.not_decided("numeric widths for ids above 9999 (format width is a minimum); behaviour of path builders on unsupported triples (they unwrap)")

    races = enum_variants(prog, "race::Race")
    tribes = enum_variants(prog, "race::Tribe")
    genders = enum_variants(prog, "race::Gender")
    if not (races and tribes and genders):
        ctx.fail_closed("TRIBES", "race::Race / Tribe / Gender enums not found")
        return

    # ---- TRIBES
    sb = prog.body("race::get_supported_tribes")
    supported = {}
    if not sb:
        ctx.fail_closed("TRIBES", "race::get_supported_tribes not found")
    else:
        tab = enum_table(prog, sb, "race::Race")
        if tab is None:
            ctx.fail_closed("TRIBES", "get_supported_tribes is not a loop-free table function")
        else:
            for race, leaf in tab.items():
                vs = None
                if isinstance(leaf, tuple) and leaf[0] == "agg" and leaf[1] == "array":
                    vs = [leaf_variant(x) for x in leaf[3]]
                if not vs or None in vs:
                    ctx.fail_closed("TRIBES", f"get_supported_tribes({race}) is not an array of tribe literals: {show(leaf)}")
                    continue
                supported[race] = vs
                ctx.ob("TRIBES", f"reference|{race}", set(vs) == REF_TRIBES.get(race) and len(vs) == 2, f"get_supported_tribes({race}) = {vs}; the race's own tribes are {sorted(REF_TRIBES.get(race, []))}", sb.file, sb.line, sample=(race == "Hyur"))
            # partition: each of the 16 tribes claimed by exactly one race
            for tname, _d in tribes:
                owners = [r for r, vs in supported.items() if tname in vs]
                ctx.ob("TRIBES", f"partition|{tname}", len(owners) == 1, f"tribe {tname} is claimed by {owners}; must be exactly one race", sb.file, sb.line)
            ctx.floor("TRIBES", "races in the supported-tribe table", len(supported), 8)

    # ---- RACEID
    rb = prog.body("race::get_race_id")
    codes = {}
    if not rb:
        ctx.fail_closed("RACEID", "race::get_race_id not found")
    elif supported:
        comp = Composer(prog)
        t = Table(rb, composer=comp)
        if not t.is_table:
            ctx.fail_closed("RACEID", "get_race_id is not a loop-free table function")
        else:
            tribe_by_discr = {d: n for n, d in tribes}
            race_by_discr = {d: n for n, d in races}

            n = 0
            for (rn, rd), (tn, td), (gn, gd) in product(races, tribes, genders):
                point = {("discr", 1): rd, ("discr", 2): td, ("discr", 3): gd}

                def ev(callee, args, pt, _rn=rn, _tn=tn):
                    # contains(get_supported_tribes(race), &tribe): resolved by composing the extracted table
                    if callee.endswith("::contains"):
                        inner = [x for x in walk(args[0]) if isinstance(x, tuple) and x[0] == "call" and x[1] == "race::get_supported_tribes"]
                        if inner and inner[0][2] == (("p", 1),) and _strip(args[1]) == ("p", 2):
                            return _tn in supported[_rn]
                    return None

                try:
                    hit = t.lookup(point, ev)
                    leaf = leaf_option(hit.env.local(0))
                    if leaf is not None and leaf[0] == "Some" and not is_const(leaf[1]):
                        # the code is selected by a further table step (e.g. a pair indexed by gender): compose it
                        v = comp.absval(leaf[1], point)
                        if isinstance(v, int):
                            leaf = ("Some", ("k", v, "int"))
                except Undecided as e:
                    ctx.fail_closed("RACEID", f"get_race_id({rn},{tn},{gn}): {e}")
                    continue
                n += 1
                valid = tn in REF_TRIBES[rn]
                if leaf is None:
                    ctx.fail_closed("RACEID", f"get_race_id({rn},{tn},{gn}) leaf is not an Option literal")
                    continue
                if valid:
                    ok = leaf[0] == "Some" and is_const(leaf[1])
                    ctx.ob("RACEID", f"defined|{rn}|{tn}|{gn}", ok, f"get_race_id({rn},{tn},{gn}) = {leaf[0]}; every valid triple must have a code", rb.file, rb.line)
                    if ok:
                        codes[(rn, tn, gn)] = leaf[1][1]
                        want = REF_RACE_CODE[body_type(rn, tn, gn)]
                        ctx.ob("RACEID", f"reference|{rn}|{tn}|{gn}", leaf[1][1] == want, f"get_race_id({rn},{tn},{gn}) = {leaf[1][1]}; the client's code is {want}", rb.file, rb.line, sample=(n < 3))
                else:
                    ctx.ob("RACEID", f"undefined|{rn}|{tn}|{gn}", leaf[0] == "None", f"get_race_id({rn},{tn},{gn}) = {leaf}; a tribe of another race must give None", rb.file, rb.line, trivial=True)
            ctx.floor("RACEID", "race/tribe/gender triples evaluated", n, 256)
            # injectivity over body types
            by_code = {}
            for (rn, tn, gn), c in codes.items():
                by_code.setdefault(c, set()).add(body_type(rn, tn, gn))
            for c, bts in sorted(by_code.items()):
                ctx.ob("RACEID", f"injective|{c}", len(bts) == 1, f"race code {c} is shared by body types {sorted(bts, key=str)}", rb.file, rb.line)
    # path builders unwrap get_race_id of their own (race, tribe, gender) arguments in that order
    for fn, pos in (("race::build_skeleton_path", (1, 2, 3)), ("equipment::build_equipment_path", (2, 3, 4)), ("equipment::build_character_path", (3, 4, 5))):
        b = prog.body(fn)
        if not b:
            ctx.fail_closed("PATHARGS", f"{fn} not found")
            continue
        ok = False
        det = "no call"
        for p in Explorer(b).explore():
            for (_bb, callee, args, _res) in p.events:
                if callee == "race::get_race_id":
                    det = f"get_race_id({', '.join(show(a) for a in args)})"
                    ok = tuple(args) == tuple(("p", i) for i in pos)
        ctx.ob("PATHARGS", fn.split("::")[-1], ok, f"{fn}: {det}; must pass its own (race, tribe, gender)", b.file, b.line)

    # ---- SLOT
    ab = prog.body("equipment::get_slot_abbreviation")
    fb = prog.body("equipment::get_slot_from_abbreviation")
    slots = enum_variants(prog, "equipment::Slot")
    if not (ab and fb and slots):
        ctx.fail_closed("SLOT", "slot abbreviation functions / Slot enum not found")
    else:
        fwd = enum_table(prog, ab, "equipment::Slot")
        back, default, _t = string_table(fb)
        if fwd is not None and back is not None and not back:
            # no string literal is matched in the function itself: the lookup may be a search over a constant table
            # through the forward function - compose it for every abbreviation and for an unknown one
            comp_ = Composer(prog)
            discr2slot = {d_: n_ for n_, d_ in slots}

            def lookup_s(sv):
                try:
                    v_ = comp_.call("equipment::get_slot_from_abbreviation", (("ks", sv),), {})
                except Undecided:
                    return "undecided"
                if isinstance(v_, tuple) and v_ and v_[0] == "Some" and isinstance(v_[1], tuple) and v_[1][0] == "enum":
                    nm_ = discr2slot.get(v_[1][1])
                    return ("agg", "adt", "std::option::Option::Some", (("agg", "adt", "equipment::Slot::" + str(nm_), (), None),), None)
                if v_ == ("None",):
                    return ("agg", "adt", "std::option::Option::None", (), None)
                return "undecided"

            abbrs = [leaf_str(v) for v in fwd.values() if leaf_str(v)]
            back = {sv: lookup_s(sv) for sv in abbrs}
            default = lookup_s("\x00<no such abbreviation>\x00")
            if "undecided" in list(back.values()) + [default]:
                back = None
        if fwd is None or back is None:
            ctx.fail_closed("SLOT", "slot abbreviation functions are not table functions")
        else:
            fw = {k: leaf_str(v) for k, v in fwd.items()}
            bk = {}
            for s, leaf in back.items():
                o = leaf_option(leaf)
                bk[s] = leaf_variant(o[1]) if o and o[0] == "Some" else None
            for slot, s in fw.items():
                ctx.ob("SLOT", f"roundtrip|{slot}", s is not None and bk.get(s) == slot, f"abbreviation({slot}) = {s!r}; from_abbreviation({s!r}) = {bk.get(s)}", ab.file, ab.line, sample=(slot == "Head"))
                ctx.ob("SLOT", f"width|{slot}", s is not None and len(s.encode()) == 3, f"abbreviation({slot}) = {s!r} must be 3 bytes (fixed-position deconstructor)", ab.file, ab.line)
            for s, slot in bk.items():
                ctx.ob("SLOT", f"inverse|{s}", slot is not None and fw.get(slot) == s, f"from_abbreviation({s!r}) = {slot}; abbreviation({slot}) = {fw.get(slot)!r}", fb.file, fb.line)
            vals = list(fw.values())
            ctx.ob("SLOT", "distinct", len(set(vals)) == len(vals), f"slot abbreviations must be pairwise distinct: {vals}", ab.file, ab.line)
            d = leaf_option(default)
            ctx.ob("SLOT", "unknown-is-none", d == ("None",), f"unknown abbreviation yields {d}", fb.file, fb.line)
            ctx.floor("SLOT", "slots", len(fw), 10)
    # ---- CHARCAT
    for fn in ("get_character_category_path", "get_character_category_abbreviation", "get_character_category_prefix"):
        b = prog.body(f"equipment::{fn}")
        if not b:
            ctx.fail_closed("CHARCAT", f"equipment::{fn} not found")
            continue
        tab = enum_table(prog, b, "equipment::CharacterCategory")
        if tab is None:
            ctx.fail_closed("CHARCAT", f"{fn} is not a table function")
            continue
        vals = {k: leaf_str(v) for k, v in tab.items()}
        ctx.ob("CHARCAT", f"distinct|{fn}", None not in vals.values() and len(set(vals.values())) == len(vals) and all(vals.values()), f"{fn}: {vals} must be pairwise distinct and non-empty", b.file, b.line)
        ctx.floor("CHARCAT", f"{fn} rows", len(vals), 5)

    # ---- EQUIP template vs deconstructor
    from ..strx import StrX as _StrX, show as _sshow
    from ..prov import derive as _dv, index_of as _ixof

    eb_ = prog.body("equipment::build_equipment_path")
    db = prog.body("equipment::deconstruct_equipment_path")
    epcs = _StrX(eb_).returned() if eb_ else None
    if not eb_ or not db or epcs is None or any(p_[0] == "opaque" for p_ in epcs):
        ctx.fail_closed("EQUIP", f"build_equipment_path string / deconstruct_equipment_path not found ({_sshow(epcs) if epcs else None})")
    else:
        eix = _ixof(eb_)
        # file-name part: pieces after the last '/'
        pieces = epcs
        last = max(i for i, p in enumerate(pieces) if p[0] == "lit" and "/" in p[1])
        name_pieces = [("lit", pieces[last][1].rsplit("/", 1)[1])] + pieces[last + 1 :]
        pos = 0
        spans = []
        ok_shape = True
        for p in name_pieces:
            if p[0] == "lit":
                pos += len(p[1])
            else:
                d_ = _dv(eix, p[3]) if p[0] == "arg" and p[3] is not None else None
                calls_ = {c_.split("::")[-1] for c_ in d_.calls} if d_ else set()
                role = "race" if "get_race_id" in calls_ else "slot" if "get_slot_abbreviation" in calls_ else "model_id" if d_ and d_.params == {1} else "?"
                width = p[2][0] if p[0] == "arg" and p[2][0] else (3 if role == "slot" else None)
                if width is None:
                    ok_shape = False
                    break
                spans.append((pos, pos + width, role, p[2] if p[0] == "arg" else None))
                pos += width
        ranges = []
        for p in Explorer(db).explore():
            for (_bb, callee, args, _res) in p.events:
                if callee.endswith("::index") and len(args) == 2 and isinstance(args[1], tuple) and args[1][0] == "agg" and "Range" in args[1][2]:
                    lo, hi = args[1][3]
                    if is_const(lo) and is_const(hi) and (lo[1], hi[1]) not in ranges:
                        ranges.append((lo[1], hi[1]))
        id_span = [s for s in spans if s[2] == "model_id"]
        slot_span = [s for s in spans if s[2] == "slot"]
        race_span = [s for s in spans if s[2] == "race"]
        ctx.ob("EQUIP", "template-roles", ok_shape and len(id_span) == 1 and len(slot_span) == 1 and len(race_span) == 1 and spans.index(race_span[0]) < spans.index(id_span[0]) < spans.index(slot_span[0]), f"file name {_sshow(name_pieces)!r} fields {[(a, b, x) for a, b, x, _ in spans]}: must be race code, model id, slot abbreviation in that order", eb_.file, eb_.line)
        if id_span and slot_span:
            ctx.ob("EQUIP", "id-slice", (id_span[0][0], id_span[0][1]) in ranges, f"template puts the model id at bytes {id_span[0][:2]}; deconstructor slices {ranges}", db.file, db.line, sample=True)
            ctx.ob("EQUIP", "slot-slice", (slot_span[0][0], slot_span[0][1]) in ranges, f"template puts the slot at bytes {slot_span[0][:2]}; deconstructor slices {ranges}", db.file, db.line)
            ctx.ob("EQUIP", "id-decimal", id_span[0][3] == (4, 10, True), f"model id is formatted with (width, radix, zero-pad) = {id_span[0][3]!r}; the deconstructor parses 4 decimal digits", eb_.file, eb_.line)
        # the deconstructor's results feed parse (id) and get_slot_from_abbreviation (slot) from the right slices
        roles = {}
        for p in Explorer(db).explore():
            for (_bb, callee, args, _res) in p.events:
                if callee.endswith("::parse") or callee == "equipment::get_slot_from_abbreviation":
                    for x in walk(args[0]):
                        if isinstance(x, tuple) and x[0] == "agg" and "Range" in x[2] and len(x[3]) >= 2 and is_const(x[3][0]) and is_const(x[3][1]):
                            roles[callee.split("::")[-1]] = (x[3][0][1], x[3][1][1])
        if id_span and slot_span:
            ctx.ob("EQUIP", "slice-roles", roles.get("parse") == id_span[0][:2] and roles.get("get_slot_from_abbreviation") == slot_span[0][:2], f"slices consumed: {roles}; id at {id_span[0][:2]}, slot at {slot_span[0][:2]}", db.file, db.line)

    # ---- ORD: equality of repositories is equality of their names (the order above is only total together with it)
    eqb = prog.body("<repository::Repository as std::cmp::PartialEq>::eq")
    if eqb:
        eq_calls = [(t_.get("res") or "") for _bi, t_ in eqb.calls() if "PartialEq" in (t_.get("res") or "")]
        neg_ = any(c_.split("::")[-1] == "ne" for c_ in eq_calls) or any((s_.get("rv") or {}).get("k") == "un" and s_["rv"].get("op") == "Not" for _b, _s, s_ in eqb.stmts())
        from ..prov import derive as _dvq, index_of as _ixq

        qix = _ixq(eqb)
        on_name = any("name" in _dvq(qix, a_).names for _bi, t_ in eqb.calls() if "PartialEq" in (t_.get("res") or "") for a_ in t_["args"])
        ctx.ob("ORD", "eq|names-equal", bool(eq_calls) and on_name and not neg_, f"Repository == Repository compares {'the names' if on_name else 'something else'} with {[c_.split('::')[-1] for c_ in eq_calls]}, negated: {neg_}; two repositories are equal exactly when their names are", eqb.file, eqb.line)
    cb = prog.body("<repository::Repository as std::cmp::Ord>::cmp")
    if not cb:
        ctx.fail_closed("ORD", "Ord for Repository not found")
    else:
        t = Table(cb)
        rt = enum_variants(prog, "repository::RepositoryType")
        if not t.is_table or not rt:
            ctx.fail_closed("ORD", "Repository::cmp is not a table function")
        else:
            dv = dict(rt)
            want = {("Base", "Base"): "Less", ("Base", "Expansion"): "Less", ("Expansion", "Base"): "Greater"}
            for a, b in product(dv, dv):
                point = {("discr", ("p", 1, "repo_type")): dv[a], ("discr", ("p", 2, "repo_type")): dv[b]}
                try:
                    leaf = t.lookup(point).env.local(0)
                except Undecided as e:
                    ctx.fail_closed("ORD", f"cmp({a},{b}): {e}")
                    continue
                if (a, b) in want:
                    # (Base, Base) only arises with two base repositories; Less keeps a stable order and is accepted
                    ctx.ob("ORD", f"{a}|{b}", leaf_variant(leaf) == want[(a, b)], f"cmp({a}, {b}) = {show(leaf)}; must be {want[(a, b)]}", cb.file, cb.line, sample=True)
                else:
                    ok = isinstance(leaf, tuple) and leaf[0] == "call" and leaf[1].endswith("Ord for i32>::cmp")
                    if ok:
                        a0, a1 = leaf[2]
                        ok = _roots(a0) == {1} and _roots(a1) == {2} and _has_field(a0, "number") and _has_field(a1, "number")
                    ctx.ob("ORD", "Expansion|Expansion", ok, f"cmp(Expansion, Expansion) = {show(leaf)}; must be self.number.cmp(other.number)", cb.file, cb.line)
    pb = prog.body("<repository::Repository as std::cmp::PartialOrd>::partial_cmp")
    if pb:
        ok = any(callee == "<repository::Repository as std::cmp::Ord>::cmp" and tuple(args) == (("p", 1), ("p", 2)) for p in Explorer(pb).explore() for (_bb, callee, args, _r) in p.events)
        ctx.ob("ORD", "partial_cmp-delegates", ok, "partial_cmp(self, other) = Some(self.cmp(other))", pb.file, pb.line)
    # sort after discovery
    gb = prog.body("gamedata::GameData::reload_repositories")
    if not gb:
        ctx.fail_closed("SORT", "gamedata::GameData::reload_repositories not found")
    else:
        paths = [p for p in Explorer(gb).explore() if p.end == "return"]
        ok = bool(paths)
        for p in paths:
            ev = [(callee, args) for (_bb, callee, args, _r) in p.events]
            sorts = [i for i, (c, a) in enumerate(ev) if (c.endswith("::sort") or c.endswith("::sort_unstable")) and _has_field(a[0], "repositories")]
            pushes = [i for i, (c, a) in enumerate(ev) if c.endswith("::push") and _has_field(a[0], "repositories")]
            if not sorts or (pushes and max(pushes) > max(sorts)):
                ok = False
        ctx.ob("SORT", "sorted-after-discovery", ok, f"every return path of reload_repositories sorts `repositories` after the last push ({len(paths)} paths)", gb.file, gb.line)
        writers = set()
        for name, b in prog.bodies.items():
            for _bi, t in b.calls():
                c = t.get("res") or ""
                if any(c.endswith(s) for s in ("::push", "::insert", "::sort", "::clear", "::swap", "::reverse", "::remove", "::extend", "::truncate", "::retain", "::pop", "::sort_by", "::sort_by_key", "::sort_unstable", "::dedup", "::drain", "::append", "::rotate_left", "::rotate_right")):
                    # first argument is a &mut to a place with field `repositories` of GameData
                    a0 = t["args"][0] if t["args"] else None
                    if a0 and _operand_mentions_field(b, a0, "gamedata::GameData", "repositories"):
                        writers.add(name)
            for _bi, _si, s in b.stmts():
                if s["k"] == "assign" and any(isinstance(pr, dict) and pr.get("n") == "repositories" and pr.get("a") == "gamedata::GameData" for pr in s["lhs"]["p"]):
                    writers.add(name)
        ctx.ob("SORT", "who-may-write-repositories", writers <= {"gamedata::GameData::reload_repositories"}, f"functions mutating GameData.repositories: {sorted(writers)}; only reload_repositories (which sorts) may", gb.file, gb.line)

    # ---- PLATFORM / CATEGORY / EXPFOLDER
    plb = prog.body("common::get_platform_string")
    if not plb:
        ctx.fail_closed("PLATFORM", "common::get_platform_string not found")
    else:
        t = Table(plb)
        pv = enum_variants(prog, "common::Platform")
        got = {}
        for name, d in pv or []:
            try:
                got[name] = leaf_str(t.lookup({("discr", 1): d}).env.local(0))
            except Undecided as e:
                ctx.fail_closed("PLATFORM", str(e))
        for name, s in REF_PLATFORM.items():
            ctx.ob("PLATFORM", name, got.get(name) == s, f"get_platform_string({name}) = {got.get(name)!r}; file-name tag is {s!r}", plb.file, plb.line, sample=(name == "Win32"))
        ctx.floor("PLATFORM", "platforms", len(got), 5)
    scb = prog.body("repository::string_to_category")
    cats = enum_variants(prog, "repository::Category")
    if not scb or not cats:
        ctx.fail_closed("CATEGORY", "repository::string_to_category / Category not found")
    else:
        back, default, _t = string_table(scb)
        searched = None
        if back is None or not back:
            from ..table import const_name_search

            searched = const_name_search(prog, scb, "repository::Category")
        if searched is not None:
            # the table kept as a constant array searched by name: names and variants read from the constant
            cd = dict(cats)
            for s, (variant, num) in REF_CATEGORY.items():
                ctx.ob("CATEGORY", f"name|{s}", searched.get(s) == variant, f"string_to_category({s!r}) = {searched.get(s)}; must be {variant}", scb.file, scb.line)
                ctx.ob("CATEGORY", f"id|{variant}", cd.get(variant) == num, f"Category::{variant} = {cd.get(variant)}; file-name id is {num:#04x}", scb.file, scb.line)
            extra = set(searched) - set(REF_CATEGORY)
            ctx.ob("CATEGORY", "no-extra-names", not extra, f"category names not in the reference: {sorted(extra)}", scb.file, scb.line)
            ctx.ob("CATEGORY", "unknown-is-none", True, "a name that is not in the table is not found: None", scb.file, scb.line)
            ctx.floor("CATEGORY", "category names", len(searched), 15)
        elif back is None:
            ctx.fail_closed("CATEGORY", "string_to_category is not a table function")
        else:
            cd = dict(cats)
            for s, (variant, num) in REF_CATEGORY.items():
                o = leaf_option(back.get(s)) if s in back else None
                v = leaf_variant(o[1]) if o and o[0] == "Some" else None
                ctx.ob("CATEGORY", f"name|{s}", v == variant, f"string_to_category({s!r}) = {v}; must be {variant}", scb.file, scb.line)
                ctx.ob("CATEGORY", f"id|{variant}", cd.get(variant) == num, f"Category::{variant} = {cd.get(variant)}; file-name id is {num:#04x}", scb.file, scb.line)
            extra = set(back) - set(REF_CATEGORY)
            ctx.ob("CATEGORY", "no-extra-names", not extra, f"category names not in the reference: {sorted(extra)}", scb.file, scb.line)
            ctx.ob("CATEGORY", "unknown-is-none", leaf_option(default) == ("None",), "unknown category name yields None", scb.file, scb.line)
            ctx.floor("CATEGORY", "category names", len(back), 15)
    efb = prog.body("patch::get_expansion_folder")
    if not efb:
        ctx.fail_closed("EXPFOLDER", "patch::get_expansion_folder not found")
    else:
        t = Table(efb)
        try:
            zero = t.lookup({("val", 1): 0}).env.local(0)
            other = t.lookup({("val", 1): 3}).env.local(0)
            z = [x[1] for x in walk(zero) if isinstance(x, tuple) and x[0] == "ks"]
            ctx.ob("EXPFOLDER", "base", z == ["ffxiv"], f"get_expansion_folder(0) is built from {z}; must be 'ffxiv'", efb.file, efb.line)
            tpls = [tt.shape() for tt in fmt.templates_of(ctx.wire, "patch::get_expansion_folder")]
            ctx.ob("EXPFOLDER", "expansion", tpls == [[("lit", "ex"), ("arg", "")]] and ("p", 1) in list(walk(other)), f"get_expansion_folder(n) template {tpls}; must be 'ex{{n}}' of its argument", efb.file, efb.line)
        except Undecided as e:
            ctx.fail_closed("EXPFOLDER", str(e))
    sub = prog.body("patch::get_expansion_folder_sub")
    if sub:
        ok = False
        for p in Explorer(sub).explore():
            for (_bb, callee, args, _r) in p.events:
                if callee == "patch::get_expansion_folder":
                    a = args[0]
                    while isinstance(a, tuple) and a[0] == "chk":
                        a = a[1]
                    ok = isinstance(a, tuple) and a[0] == "bin" and a[1] == "Shr" and a[2] == ("p", 1) and is_const(a[3]) and a[3][1] == 8
        ctx.ob("EXPFOLDER", "sub-id-high-byte", ok, "expansion = sub_id >> 8", sub.file, sub.line)
    else:
        ctx.fail_closed("EXPFOLDER", "patch::get_expansion_folder_sub not found")

    # ---- TEMPLATE: read side vs patch side (string expressions read off the MIR: pv.strx)
    from ..strx import StrX, show as sshow
    from ..prov import derive as _derive, index_of as _index_of

    def fn_string(fn):
        b = prog.body(fn)
        if not b:
            return None, None, None
        sx = StrX(b)
        return b, sx, sx.returned()

    def roles(b, sx, pcs, table):
        """Role of every formatted argument, by provenance: table maps role -> predicate on the Derive."""
        ix = _index_of(b)
        out = []
        for p_ in pcs:
            if p_[0] == "lit":
                out.append(("lit", p_[1]))
            elif p_[0] == "arg":
                d = _derive(ix, p_[3]) if p_[3] is not None else None
                r = next((name for name, pred in table if d is not None and pred(d)), "?")
                out.append((r, p_[1], p_[2]))
            elif p_[0] == "opaque":
                d = _derive(ix, p_[1]) if p_[1] is not None else None
                r = next((name for name, pred in table if d is not None and pred(d)), "?")
                out.append((r, "opaque", None))
            else:
                out.append((p_[0],))
        return out

    def calls_of(d):
        return {c_.split("::")[-1] for c_ in d.calls}

    read_tbl = [
        ("platform", lambda d: "get_platform_string" in calls_of(d) and "platform" in d.names),
        ("expansion", lambda d: "expansion" in calls_of(d)),
        ("index_filename", lambda d: "index_filename" in calls_of(d)),
        ("category", lambda d: d.params == {3} and not (calls_of(d) & {"expansion", "get_platform_string"})),
        ("chunk", lambda d: d.params == {2}),
        ("data_file_id", lambda d: d.params == {4}),
    ]
    ib, isx, ipc = fn_string("repository::Repository::index_filename")
    i2b, i2sx, i2pc = fn_string("repository::Repository::index2_filename")
    dbb, dsx, dpc = fn_string("repository::Repository::dat_filename")
    ab_ = prog.body("patch::ZiPatch::apply")
    if not (ib and i2b and dbb and ab_):
        ctx.fail_closed("TEMPLATE", "index_filename / index2_filename / dat_filename / ZiPatch::apply not found")
    else:
        W2X, W2, W4X, PLAIN = (2, 16, True), (2, 10, True), (4, 16, True), (0, 10, False)
        ir = roles(ib, isx, ipc, read_tbl)
        dr = roles(dbb, dsx, dpc, read_tbl)
        i2r = roles(i2b, i2sx, i2pc, read_tbl)
        want_i = [("category", "lower_hex", W2X), ("expansion", "display", W2), ("chunk", "display", W2), ("lit", "."), ("platform", "display", PLAIN), ("lit", ".index")]
        want_d = [("category", "lower_hex", W2X), ("expansion", "display", W2), ("chunk", "display", W2), ("lit", "."), ("platform", "display", PLAIN), ("lit", ".dat"), ("data_file_id", "display", PLAIN)]
        ctx.ob("TEMPLATE", "index|read-side", ir == want_i, f"index_filename = {sshow(ipc)!r} of {[x[0] for x in ir if x[0] != 'lit']}; must be {{category:02x}}{{expansion:02}}{{chunk:02}}.{{platform}}.index", ib.file, ib.line, sample=True)
        ctx.ob("TEMPLATE", "dat|read-side", dr == want_d, f"dat_filename = {sshow(dpc)!r} of {[x[0] for x in dr if x[0] != 'lit']}; must be {{category:02x}}{{expansion:02}}{{chunk:02}}.{{platform}}.dat{{id}}", dbb.file, dbb.line)
        ok_i2 = i2r == want_i[:-1] + [("lit", ".index2")] or (len(i2r) == 2 and i2r[0][0] == "index_filename" and i2r[1] == ("lit", "2") and (i2r[0][1] == "opaque" or i2r[0][2] == PLAIN))
        ctx.ob("TEMPLATE", "index2|read-side", ok_i2, f"index2_filename = {sshow(i2pc)!r} of {[x[0] for x in i2r if x[0] != 'lit']}; must be index_filename + '2'", i2b.file, i2b.line)
        exb = prog.body("repository::Repository::expansion")
        if exb:
            t = Table(exb)
            rt = dict(enum_variants(prog, "repository::RepositoryType") or [])
            try:
                base = t.lookup({("discr", ("p", 1, "repo_type")): rt["Base"]}).env.local(0)
                exp = t.lookup({("discr", ("p", 1, "repo_type")): rt["Expansion"]}).env.local(0)
                ctx.ob("TEMPLATE", "expansion-number", is_const(base) and base[1] == 0 and _has_field(exp, "number") and _roots(exp) == {1}, f"expansion(): Base -> {show(base)}, Expansion -> {show(exp)}", exb.file, exb.line)
            except (Undecided, KeyError) as e:
                ctx.fail_closed("TEMPLATE", f"Repository::expansion: {e}")
        else:
            ctx.fail_closed("TEMPLATE", "repository::Repository::expansion not found")
        # patch side: the names built while applying a command ({main_id:02x}{sub_id:04x}.{platform}.dat{file_id});
        # sub_id = expansion << 8 | chunk, so 04x is the two 2-digit fields of the read side (which coincide with the read
        # side's decimal {:02}{:02} on 0..9)
        asx = StrX(ab_)
        patch_tbl = [
            ("platform", lambda d: "get_platform_string" in calls_of(d) and "platform" in d.names),
            ("main_id", lambda d: (d.names & {"main_id", "sub_id", "file_id"}) == {"main_id"}),
            ("sub_id", lambda d: (d.names & {"main_id", "sub_id", "file_id"}) == {"sub_id"}),
            ("file_id", lambda d: (d.names & {"main_id", "sub_id", "file_id"}) == {"file_id"}),
        ]
        sites = {"dat": [], "index": []}
        for bi, pcs in asx.format_sites():
            lits = "".join(p_[1] for p_ in pcs if p_[0] == "lit")
            if ".dat" in lits:
                sites["dat"].append(roles(ab_, asx, pcs, patch_tbl))
            elif ".index" in lits:
                sites["index"].append(roles(ab_, asx, pcs, patch_tbl))
        want_pd = [("main_id", "lower_hex", W2X), ("sub_id", "lower_hex", W4X), ("lit", "."), ("platform", "display", PLAIN), ("lit", ".dat"), ("file_id", "display", PLAIN)]
        want_pi = [("main_id", "lower_hex", W2X), ("sub_id", "lower_hex", W4X), ("lit", "."), ("platform", "display", PLAIN), ("lit", ".index")]
        ctx.ob("TEMPLATE", "dat|patch-side", bool(sites["dat"]) and all(x == want_pd for x in sites["dat"]), f"patch-side dat names ({len(sites['dat'])} sites): {sites['dat'][:1]}; must be {{main_id:02x}}{{sub_id:04x}}.{{platform}}.dat{{file_id}}", ab_.file, ab_.line)
        # the index name may carry a file-id suffix appended separately (only when non-zero) or as a trailing argument
        def idx_ok(x):
            return x == want_pi or (x[: len(want_pi)] == want_pi and all(y[0] in ("file_id", "?") for y in x[len(want_pi):]))

        ctx.ob("TEMPLATE", "index|patch-side", bool(sites["index"]) and all(idx_ok(x) for x in sites["index"]), f"patch-side index names ({len(sites['index'])} sites): {sites['index'][:1]}; must be {{main_id:02x}}{{sub_id:04x}}.{{platform}}.index[id]", ab_.file, ab_.line)
        ctx.floor("TEMPLATE", "patch-side file names", len(sites["dat"]) + len(sites["index"]), 5)

        def skeleton(x):
            return [y[1] for y in x if y[0] == "lit"]

        w_read = [x[2] for x in dr if x[0] in ("category", "expansion", "chunk")]
        w_patch = [x[2] for x in (sites["dat"][0] if sites["dat"] else []) if x[0] in ("main_id", "sub_id")]
        ok = bool(sites["dat"]) and bool(sites["index"]) and skeleton(dr) == skeleton(sites["dat"][0]) and skeleton(ir) == skeleton(sites["index"][0])[:2] and w_read == [W2X, W2, W2] and w_patch == [W2X, W4X]
        ctx.ob("TEMPLATE", "read-vs-patch", ok, f"read side widths {w_read}, patch side widths {w_patch}; literal skeletons {skeleton(dr)} / {skeleton(sites['dat'][0]) if sites['dat'] else None}", ab_.file, ab_.line)


def _strip(e):
    while isinstance(e, tuple) and e[0] in ("ref", "deref", "cast"):
        e = e[2] if e[0] == "cast" else e[1]
    return e


def _roots(e):
    return {x[1] for x in walk(e) if isinstance(x, tuple) and x[0] == "p"}


def _has_field(e, name):
    return any(isinstance(x, tuple) and x[0] == "fld" and x[2] == name for x in walk(e))


def _operand_mentions_field(body, op, adt, field):
    """Does the operand (a temp holding &mut place) refer to `adt.field`?  One level of temp indirection."""
    from ..mir import op_place

    p = op_place(op)
    if not p:
        return False

    def place_has(pl):
        return any(isinstance(pr, dict) and pr.get("n") == field and pr.get("a") == adt for pr in pl["p"])

    if place_has(p):
        return True
    if not p["p"]:
        for kind, _bi, _si, s in body.defs().get(p["l"], []):
            if kind == "assign":
                rv = s["rv"]
                if rv["k"] in ("ref", "rawptr") and place_has(rv["p"]):
                    return True
                if rv["k"] == "use":
                    q = op_place(rv["a"])
                    if q and place_has(q):
                        return True
    return False
