"""C04 — a created patch turns the old tree into the new tree.

Decided:
  READONLY  no filesystem-mutating call is reachable from ZiPatch::create (creating never modifies A or B)
  ROOTS     values listed under one root are only compared with values of the same root or after strip_prefix of
            their own root (root-provenance tags over the expression trees); strip_prefix(r) is applied to paths of r;
            the bytes of an AddFile chunk are read from a path of the new tree and the chunk path is relative
  CHUNKS    AddFile: file_size = data.len(), offset 0; DeleteFile chunks for the removed set; every path to Some(buffer)
            writes the EndOfFile chunk after all others; adds precede deletes
  W2        read/write symmetry of the records create() writes (PatchHeader, PatchChunk, SqpkChunk,
            SqpkFileOperationData, BlockHeader); block writer and reader agree on the 143 / 0xFFFFFF80 rounding and on
            the raw marker
Not decided: content equality after apply (execution), the empty-file convention, sizes around 128 / 32000.
"""
from .. import wire as W
from ..mir import const_int
from ..sym import Explorer, N, is_const, show, walk
from ..wrules import model, w2
from .c03 import EFFECTS, MUTATING, effect_kind

TECHNIQUE = "static analysis: effect set of ZiPatch::create over the call graph; root-provenance tags on reconstructed expressions; ordered call events on all return paths; read/write symmetry of the written records; constant agreement of the block writer/reader pair; must-pass-through of the AddFile write on the apply side"
TRUSTED = ["rustc nightly MIR and call graph", "pv.sym expression reconstruction", "pv/wire.py binrw model"]


def roots(e, param_root={1: "A", 2: "B"}):
    """Set of roots a value was listed under: recurse(p) results carry p's root; strip_prefix yields 'rel'."""
    out = set()
    for t in walk(e):
        if isinstance(t, tuple) and t[0] == "call" and t[1].endswith("patch::recurse") or (isinstance(t, tuple) and t[0] == "call" and "patch::recurse::<" in t[1]):
            for a in walk(t[2]):
                if isinstance(a, tuple) and a[0] == "p" and a[1] in param_root:
                    out.add(param_root[a[1]])
    return out


def run(ctx):
    prog = ctx.prog
    wm = model(ctx)
    ctx.decided("ZiPatch::create reaches no filesystem-mutating call (READONLY)")
    ctx.decided("path comparisons and strip_prefix respect the tree each path was listed under (ROOTS)")
    ctx.decided("applying an AddFile chunk writes its data whenever the target opens (APPLY)")
    ctx.decided("AddFile/DeleteFile chunk contents, order, and the EndOfFile chunk on every successful path (CHUNKS)")
    ctx.decided("symmetry of the written records and of the block writer/reader constants (W2)")
    ctx.not_decided("content equality after apply; zero-byte files; block sizes around 128 and 32000")

    cb = prog.body("patch::ZiPatch::create")
    if not cb:
        ctx.fail_closed("READONLY", "patch::ZiPatch::create not found")
        return
    # ---- READONLY
    ids, parent = prog.reach(["patch::ZiPatch::create"])
    hits = {}
    for i in ids:
        inst = prog.instances[i]
        k = effect_kind(inst["def"])
        # writes into the in-memory buffer go through io::Write for Cursor/BufWriter: only fs-level effects count here
        if k in MUTATING and k not in ("write_all", "seek"):
            hits.setdefault(k, prog.chain(parent, i)[-3:])
    ctx.ob("READONLY", "no-fs-mutation", not hits, f"filesystem-mutating calls reachable from ZiPatch::create: {hits}", cb.file, cb.line, sample=True)
    fs_reads = sorted({prog.instances[i]["def"].split("::")[-1] for i in ids if prog.instances[i]["def"].startswith("std::fs::")})
    ctx.ob("READONLY", "fs-vocabulary", set(fs_reads) <= {"read_dir", "metadata", "read", "inner", "open", "file_type", "path", "len", "is_dir", "is_file"} | {x for x in fs_reads if not x.islower() or x in ("next", "fmt", "drop", "from", "as_inner")}, f"std::fs functions reachable from create: {fs_reads}", cb.file, cb.line, trivial=True)
    ctx.floor("READONLY", "instances reachable from ZiPatch::create", len(ids), 50)

    # ---- ROOTS: comparisons inside the two filter closures
    clos = prog.closures_of("patch::ZiPatch::create")
    n_cmp = 0
    parent_paths = Explorer(cb).explore()
    # capture map: closure -> captured expressions (by position) from the parent's closure aggregate
    caps = {}
    for p in parent_paths:
        for l, e in p.env.loc.items():
            for t in walk(e):
                if isinstance(t, tuple) and t[0] == "agg" and t[1] == "closure":
                    caps.setdefault(t[2], t[3])
        for ev in p.events:
            for t in walk(ev[2]):
                if isinstance(t, tuple) and t[0] == "agg" and t[1] == "closure":
                    caps.setdefault(t[2], t[3])

    def cap_roots(c):
        """root tags of each captured variable of closure c (position -> roots / 'dirA' / 'dirB')."""
        out = {}
        for i, e in enumerate(caps.get(c.name, ())):
            r = roots(e)
            # a captured directory parameter itself
            for a in walk(e):
                if isinstance(a, tuple) and a[0] == "p" and a[1] in (1, 2) and not r:
                    r = {"dirA" if a[1] == 1 else "dirB"}
            out[i] = r
        return out

    # which iterator is each filter closure applied to?  events: filter(iter(&X), closure)
    iter_root = {}
    for p in parent_paths:
        for (_bb, callee, args, _res) in p.events:
            if callee.endswith("Iterator::filter") or callee.endswith("::filter"):
                cl = [t for t in walk(args[1]) if isinstance(t, tuple) and t[0] == "agg" and t[1] == "closure"] if len(args) > 1 else []
                if cl:
                    iter_root[cl[0][2]] = roots(args[0])

    def is_strip(e):
        return any(isinstance(t, tuple) and t[0] == "call" and t[1].endswith("strip_prefix") for t in walk(e))

    def analyse(body_, param_tags, upvars, which, depth=0):
        """param_tags: tags of the closure's item parameter; upvars: position -> (tags, relative?)."""
        nonlocal n_cmp
        paths_ = Explorer(body_).explore()

        def tags_of(e):
            tg, rel = set(), is_strip(e)
            for t in walk(e):
                if isinstance(t, tuple) and t[0] == "p" and t[1] == 2:
                    tg |= param_tags[0]
                    rel = rel or param_tags[1]
                if isinstance(t, tuple) and t[0] == "fld" and isinstance(t[2], int) and t[2] in upvars and _rooted_at(t[1], 1):
                    tg |= {x for x in upvars[t[2]][0] if x in ("A", "B")}
                    rel = rel or upvars[t[2]][1]
            return frozenset(tg), rel

        for p in paths_:
            for (_bb, callee, args, _res) in p.events:
                last = callee.split("::")[-1]
                if (last == "contains" or "PartialEq" in callee and last in ("eq", "ne")) and len(args) >= 2:
                    (ta, sa), (tb, sb) = tags_of(args[0]), tags_of(args[1])
                    if not ta or not tb:
                        continue
                    n_cmp += 1
                    matchable = (ta == tb) or (sa and sb)
                    if which == "removed":
                        ctx.ob("ROOTS", f"removed-set|{last}", matchable, f"{body_.name}: the removed set is computed by {last} between a path of tree {sorted(ta)}{' (relative)' if sa else ''} and a path of tree {sorted(tb)}{' (relative)' if sb else ''}; absolute paths of different roots never match, so files present in both trees would be deleted", body_.file, body_.line, sample=True)
                    else:
                        reads = any((t_.get("res") or "").endswith("fs::read") for _b2, t_ in body_.calls())
                        ctx.ob("ROOTS", f"added-set|{last}", (not matchable) or reads, f"{body_.name}: the added set excludes paths that also exist in the old tree ({last} on {'relative' if sa and sb else 'same-root'} paths) without comparing contents, so files changed between the trees would keep their old content", body_.file, body_.line)
                elif last in ("ends_with", "starts_with", "contains", "eq_ignore_ascii_case", "cmp", "partial_cmp", "lt", "le", "gt", "ge") and len(args) >= 2:
                    (ta, _sa), (tb, _sb) = tags_of(args[0]), tags_of(args[1])
                    if ta and tb and ta != tb:
                        n_cmp += 1
                        ctx.ob("ROOTS", f"{which}-set|{last}", False, f"{body_.name}: membership across the two trees is decided by {callee.split('::', 2)[-1]}, which is not equality of relative paths (a path of tree {sorted(ta)} is matched against tree {sorted(tb)} by {last})", body_.file, body_.line)
                # nested closures passed to any/all/find/position over some collection
                if last in ("any", "all", "find", "position", "filter") and len(args) >= 2 and depth < 3:
                    cl = [t for t in walk(args[1]) if isinstance(t, tuple) and t[0] == "agg" and t[1] == "closure"]
                    if cl and cl[0][2] in prog.bodies:
                        inner_up = {i: tags_of(e) for i, e in enumerate(cl[0][3])}
                        analyse(prog.bodies[cl[0][2]], tags_of(args[0]), inner_up, which, depth + 1)

    for c in clos:
        if c.name not in iter_root:
            continue
        item_root = iter_root[c.name]
        cr = cap_roots(c)
        which = "removed" if item_root == {"A"} else "added"
        analyse(c, (item_root, False), {i: (r, False) for i, r in cr.items()}, which)
    ctx.floor("ROOTS", "cross-collection comparisons examined", n_cmp, 2)
    # strip_prefix(r) applied to values of root r (inside create and its closures)
    n_sp = 0
    for p in parent_paths:
        for (_bb, callee, args, _res) in p.events:
            if callee.endswith("Path::strip_prefix") and len(args) == 2:
                val_r = roots(args[0])
                # loop variables over added/removed sets: derive root from the collection they iterate
                dir_r = {("A" if a[1] == 1 else "B") for a in walk(args[1]) if isinstance(a, tuple) and a[0] == "p" and a[1] in (1, 2)}
                if val_r and dir_r:
                    n_sp += 1
                    ctx.ob("ROOTS", f"strip|{sorted(dir_r)}", val_r == dir_r, f"strip_prefix(dir of tree {sorted(dir_r)}) is applied to a path listed under tree {sorted(val_r)}", cb.file, cb.line)

    # ---- APPLY: the apply side of the round trip writes every AddFile it is given (shared with C03 MUSTDO)
    from .c03 import addfile_region, addfile_writes_when_opened

    ab_ = prog.body("patch::ZiPatch::apply")
    reg_ = addfile_region(prog, ab_) if ab_ else None
    if not reg_:
        ctx.fail_closed("APPLY", "AddFile arm of ZiPatch::apply not found")
    else:
        ok_, det_ = addfile_writes_when_opened(prog, ab_, reg_)
        ctx.ob("APPLY", "AddFile|writes-when-opened", ok_, det_, ab_.file, ab_.line, sample=True)
        # ... and creates the directory chain of the new file itself: B may add files under directories A lacks, at any
        # depth (nothing else in a created patch makes them)
        from .c03 import UNAVOIDABLE as _UNAV, unavoidable_calls as _unav

        tgt_ = min(reg_, key=lambda b_: (not all(ab_.dominates(b_, x) for x in reg_), b_))
        got_ = _unav(ab_, tgt_, reg_)
        if got_ is None:
            ctx.fail_closed("APPLY", "AddFile arm: no success path found")
        else:
            want_ = _UNAV[("Sqpk", "FileOperation", "AddFile")]
            short_ = {k: (got_.get(k, 0), n_) for k, n_ in want_.items() if got_.get(k, 0) < n_}
            ctx.ob("APPLY", "AddFile|creates-parent-chain-and-writes", not short_, f"AddFile arm: effects on every successful path {dict(got_)}; required at least {want_}" + (f"; AVOIDABLE {short_}" if short_ else ""), ab_.file, ab_.line)

    # ---- CHUNKS
    adds = dels = 0
    eof_last = True
    order_ok = True
    rets = [p for p in parent_paths if p.end == "return"]
    some_rets = [p for p in rets if isinstance(p.env.local(0), tuple) and p.env.local(0)[0] == "agg" and p.env.local(0)[2].endswith("Option::Some")]
    chunk_events = {}
    for p in parent_paths:
        seq = []
        for (bb, callee, args, _res) in p.events:
            if "BinWrite" in callee and callee.split("::")[-1].startswith("write") and args:
                chunk = args[0]
                kind = None
                for t in walk(chunk):
                    if isinstance(t, tuple) and t[0] == "agg" and t[1] == "adt":
                        if t[2].endswith("SqpkFileOperation::AddFile"):
                            kind = "AddFile"
                        elif t[2].endswith("SqpkFileOperation::DeleteFile"):
                            kind = "DeleteFile"
                        elif t[2].endswith("ChunkType::EndOfFile") and kind is None:
                            kind = "EndOfFile"
                        elif t[2].startswith("patch::PatchHeader") and kind is None:
                            kind = "Header"
                if kind:
                    seq.append((kind, bb, chunk))
                    chunk_events.setdefault(kind, (bb, chunk))
            if callee.endswith("sqpack::write_data_block_patch") or "write_data_block_patch::<" in callee:
                seq.append(("Block", bb, args))
                chunk_events.setdefault("Block", (bb, args))
        if p in some_rets:
            kinds = [k for k, _b, _c in seq]
            if not kinds or kinds[-1] != "EndOfFile":
                eof_last = False
    ctx.ob("CHUNKS", "eof-on-every-success", bool(some_rets) and eof_last, f"{len(some_rets)} path(s) return Some(buffer); each must write the EndOfFile chunk last", cb.file, cb.line, sample=True)
    for kind in ("Header", "AddFile", "Block", "DeleteFile", "EndOfFile"):
        ctx.ob("CHUNKS", f"writes|{kind}", kind in chunk_events, f"create writes a {kind} record", cb.file, cb.line, trivial=True)
    # order: header < adds < deletes < eof by reachability of their blocks
    def reaches(a, b):
        seen, work = {a}, [a]
        while work:
            x = work.pop()
            for s_ in cb.succ(x):
                if s_ == b:
                    return True
                if s_ not in seen:
                    seen.add(s_)
                    work.append(s_)
        return False

    if all(k in chunk_events for k in ("Header", "AddFile", "DeleteFile", "EndOfFile")):
        h, a, d, e = (chunk_events[k][0] for k in ("Header", "AddFile", "DeleteFile", "EndOfFile"))
        ok = reaches(h, a) and reaches(a, d) and not reaches(d, a) and reaches(d, e) and not reaches(e, d) and not reaches(e, a)
        ctx.ob("CHUNKS", "order", ok, "chunk order is header, AddFile*, DeleteFile*, EndOfFile (deletes never precede the adds they could undo)", cb.file, cb.line)
    if "AddFile" in chunk_events:
        _bb, chunk = chunk_events["AddFile"]
        fod = [t for t in walk(chunk) if isinstance(t, tuple) and t[0] == "agg" and t[2].startswith("patch::SqpkFileOperationData")]
        if fod:
            adt = prog.adts["patch::SqpkFileOperationData"]
            names = [f["name"] for f in adt["variants"][0]["fields"]]
            vals = dict(zip(names, fod[0][3]))
            fs_ = vals.get("file_size")
            size_ok = any(isinstance(t, tuple) and (t[0] == "len" or (t[0] == "call" and t[1].endswith("::len"))) for t in walk(fs_)) and any(isinstance(t, tuple) and t[0] == "call" and t[1].endswith("fs::read") for t in walk(fs_))
            ctx.ob("CHUNKS", "AddFile|file_size", size_ok, f"AddFile.file_size = {show(fs_)[:100]}; must be the length of the bytes read from the file", cb.file, cb.line)
            ctx.ob("CHUNKS", "AddFile|offset", N(vals.get("offset")) == ("k", 0, "int"), f"AddFile.offset = {show(vals.get('offset'))}; whole files are written from offset 0", cb.file, cb.line, trivial=True)
            pth = vals.get("path")
            rel = any(isinstance(t, tuple) and t[0] == "call" and t[1].endswith("strip_prefix") for t in walk(pth))
            dirs = {a[1] for a in walk(pth) if isinstance(a, tuple) and a[0] == "p"}
            ctx.ob("CHUNKS", "AddFile|relative-path", rel and dirs == {2}, f"AddFile.path = {show(pth)[:110]}; must be the path relative to the new tree", cb.file, cb.line)
            # block payload = the same bytes
            if "Block" in chunk_events:
                bargs = chunk_events["Block"][1]
                same = any(isinstance(t, tuple) and t[0] == "call" and t[1].endswith("fs::read") for t in walk(bargs[1])) if len(bargs) > 1 else False
                ctx.ob("CHUNKS", "AddFile|payload", same, "the data block written after the AddFile chunk is the file's content", cb.file, cb.line)
    if "DeleteFile" in chunk_events:
        _bb, chunk = chunk_events["DeleteFile"]
        fod = [t for t in walk(chunk) if isinstance(t, tuple) and t[0] == "agg" and t[2].startswith("patch::SqpkFileOperationData")]
        if fod:
            adt = prog.adts["patch::SqpkFileOperationData"]
            names = [f["name"] for f in adt["variants"][0]["fields"]]
            pth = dict(zip(names, fod[0][3])).get("path")
            rel = any(isinstance(t, tuple) and t[0] == "call" and t[1].endswith("strip_prefix") for t in walk(pth))
            dirs = {a[1] for a in walk(pth) if isinstance(a, tuple) and a[0] == "p"}
            ctx.ob("CHUNKS", "DeleteFile|relative-path", rel and dirs == {1}, f"DeleteFile.path = {show(pth)[:110]}; must be the path relative to the old tree", cb.file, cb.line)
    # crc32 rewind/forward around the data block: seek(-4) then seek(+4)
    seeks = []
    for p in parent_paths:
        for (_bb, callee, args, _res) in p.events:
            if callee.endswith("Seek>::seek") or callee.endswith("::seek"):
                for t in walk(args[1]) if len(args) > 1 else []:
                    if isinstance(t, tuple) and t[0] == "agg" and t[2].endswith("SeekFrom::Current"):
                        v = N(t[3][0])
                        # -(CONST) spelled as a negation of a (named) constant
                        if isinstance(v, tuple) and v[0] == "un" and v[1] == "Neg" and is_const(N(v[2])):
                            v = ("k", -N(v[2])[1], "int")
                        if is_const(v) and v[1] not in seeks:
                            seeks.append(v[1])
    ctx.ob("CHUNKS", "crc-rewind", sorted(seeks) == [-4, 4], f"relative seeks around the data block: {seeks}; the 4-byte crc slot is rewound before and skipped after the block (mirrors apply)", cb.file, cb.line)

    # ---- W2 and block constants
    floors = {"patch::PatchHeader": 3, "patch::PatchChunk": 2, "patch::SqpkChunk": 1, "patch::SqpkFileOperationData": 8, "sqpack::data::BlockHeader": 4}
    for t, fl in floors.items():
        d = w2(ctx, [t])
        ctx.floor("W2", f"field comparisons decided for {t}", d, fl)
    wbp = next((b for n, b in prog.bodies.items() if n.endswith("sqpack::write_data_block_patch")), None)
    rbp = next((b for n, b in prog.bodies.items() if n.endswith("sqpack::read_data_block_patch")), None)
    if not wbp or not rbp:
        ctx.fail_closed("W2", "sqpack::write_data_block_patch / read_data_block_patch not found")
    else:
        def consts(b):
            out = set()
            for _bi, _si, s in b.stmts():
                rv = s.get("rv", {})
                if rv.get("k") == "bin" and rv["op"].replace("WithOverflow", "") in ("Add", "BitAnd"):
                    for o in (rv["a"], rv["b"]):
                        v = const_int(o)
                        if v is not None:
                            out.add((rv["op"].replace("WithOverflow", ""), v))
            return out

        cw, cr = consts(wbp), consts(rbp)
        ctx.ob("W2", "block-rounding", cw == {("Add", 143), ("BitAnd", 0xFFFFFF80)} and cw <= cr, f"block writer rounds with {sorted(cw)}, block reader with {sorted(cr)}; both must use (len + 143) & 0xFFFFFF80", wbp.file, wbp.line)
    bh = wm.items.by_path.get("sqpack::data::BlockHeader")
    cm = wm.items.by_path.get("sqpack::data::CompressionMode")
    if bh and cm:
        xcalc = [d.text.replace(" ", "") for f in bh["fields"] if f["name"] == "x" for d in W.directives(f["attrs"]) if d.name == "calc"]
        cmap = [d.text.replace(" ", "") for d in W.directives(cm["attrs"]) if d.name == "map"]
        ctx.ob("W2", "raw-marker", bool(xcalc) and "{32000}" in xcalc[0] and bool(cmap) and "ifx<32000{" in cmap[0], f"raw blocks are written with x = 32000 and read as raw when x >= 32000 (writer {'ok' if xcalc and '{32000}' in xcalc[0] else xcalc}, reader {'ok' if cmap and 'ifx<32000{' in cmap[0] else cmap})", bh["file"], bh["line"])


def _rooted_at(e, param):
    while isinstance(e, tuple) and e[0] in ("deref", "ref", "fld", "cast"):
        e = e[2] if e[0] == "cast" else e[1]
    return e == ("p", param)
