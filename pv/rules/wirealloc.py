"""WIREALLOC: binrw 0.14 reads `Vec<u8>` with `count = n` by `reserve_exact(n)` up front (helpers.rs, count_with);
other element types are read in bounded chunks.  A count expression that is not a literal and not a field of at
most 16 bits therefore requests memory unrelated to the input size."""
from .. import wire as W

NARROW = {"u8", "u16", "i8", "i16", "bool"}


def wire_alloc(ctx, defs):
    items = W.Items(ctx.wire)
    n = 0
    for it in items.binrw_items():
        reader = f"<{it['path']} as binrw::BinRead>::read_options"
        if reader not in defs:
            continue
        fields = []
        if it["kind"] == "struct":
            fields = [(it["name"], f, it["fields"]) for f in it["fields"]]
        else:
            for v in it["variants"]:
                fields += [(f"{it['name']}::{v['name']}", f, v["fields"]) for f in v["fields"]]
        for owner, f, sibs in fields:
            if f["ty"].replace(" ", "") != "Vec<u8>":
                continue
            ds = [d for d in W.directives(f["attrs"]) if d.name == "count" and "r" in d.side]
            if not ds:
                continue
            n += 1
            d = ds[0]
            key = f"{owner}.{f['name']}"
            if len(d.value) == 1 and W.int_lit(d.value[0]) is not None:
                ctx.ob("WIREALLOC", key, True, f"count = {d.text} is a literal", it["file"], f["line"], trivial=True)
                continue
            # a bare sibling field of narrow type
            ty = None
            if len(d.value) == 1 and isinstance(d.value[0], str):
                ty = next((s["ty"] for s in sibs if s["name"] == d.value[0]), None)
            # `sibling.field` where the sibling is another binrw struct of this crate
            if ty is None and len(d.value) == 3 and d.value[1] == "." and all(isinstance(x, str) for x in d.value):
                sty = next((s_["ty"] for s_ in sibs if s_["name"] == d.value[0]), None)
                sit = next((i for i in items.items if sty and i["name"] == sty.split("::")[-1] and i["kind"] == "struct"), None)
                if sit:
                    ty = next((s_["ty"] for s_ in sit["fields"] if s_["name"] == d.value[2]), None)
            if ty in NARROW:
                ctx.ob("WIREALLOC", key, True, f"count = {d.text}: {ty} (at most 65535 bytes)", it["file"], f["line"])
                continue
            ctx.ob("WIREALLOC", key + "|count=" + d.text.replace(" ", ""), False, f"{owner}.{f['name']}: Vec<u8> with count = {d.text} ({ty or 'expression'}): binrw reserves the whole count before reading, so a corrupted header requests up to 4 GiB or more", it["file"], f["line"])
    return n
