"""C14 — materials and shader packages decode to what their files store.

Decided:
  OWN      every half-float tuple unpacker builds component k from element k (read_half1/2/3 and the Half2/Half3 -> [f32; n]
           map closures of the colour rows), no element used twice
  W1/W3    material headers, colour rows (32 B x 16, 64 B x 32), dye rows, shader-package records; shader_values / 4
  MASKS    dye-row bit fields are single-bit, pairwise disjoint and at the reference positions; template/channel shifts;
           table flag bits (0x4 / 0x8, width/height logs) and colour-table dispatch codes (0|0x42 legacy, 0x53 Dawntrail)
  CONSTS   constant k's values are shader_values[value_offset / 4 + i] for i < value_size / 4
  SELECTOR SELECTOR_MULTIPLER = 31; build_selector is sum(key_i * 31^i) in wrapping arithmetic; the combined selector
           is built from the four per-list selectors in the order system, scene, material, sub-view
  NODES    node_selectors is filled from nodes (index) then aliases (alias.node) and only in from_existing; find_node
           returns nodes[entry.1] for the matching selector
Not decided: string extraction, shader bytecode slices, key hash values.
"""
import re

from .. import panic as P
from .. import wire as W
from ..mir import const_int, op_place
from ..sym import Explorer, N, is_const, show, walk
from ..wrules import model, w1, w3

TECHNIQUE = "static analysis: per-component provenance of the tuple unpackers (operator trees over MIR), binrw layout rules vs reference, bit-mask tables parsed from the declarations, expression provenance of constant slicing and selector arithmetic, who-may-write of the selector table; path-condition evaluation of the table-kind dispatch for all 256 byte values; declaration-order rule for the variable-length shader-package records"
TRUSTED = ["pv/wire.py binrw model", "spec/layouts.txt (Lumina MtrlStructs / Penumbra colour tables)", "reference bit positions embedded in this rule (Penumbra)", "rustc nightly MIR"]

REF_LEGACY_DYE = {"diffuse": 0x01, "specular": 0x02, "emissive": 0x04, "gloss": 0x08, "specular_strength": 0x10}
REF_DT_DYE = {"diffuse": 0x1, "specular": 0x2, "emissive": 0x4, "scalar3": 0x8, "metalness": 0x10, "roughness": 0x20, "sheen_rate": 0x40, "sheen_tint_rate": 0x80,
              "sheen_aperture": 0x100, "anisotropy": 0x200, "sphere_map_index": 0x400, "sphere_map_mask": 0x800}


def calc_masks(prog, path):
    """field -> ('mask', m) | ('shift', s, m) of a dye row, read off the MIR of its derived reader (the expressions
    written in #[br(calc = ..)] are compiled into it; helpers and named constants are inlined / folded first)."""
    from ..bits import bitfield, word_of

    out = {}
    words = set()
    for name in (f"<{path} as binrw::BinRead>::read_options::{{closure#0}}", f"<{path} as binrw::BinRead>::read_options"):
        b = prog.body(name)
        if not b:
            continue
        adt = prog.adts.get(path)
        names = [f["name"] for f in adt["variants"][0]["fields"]] if adt else []
        for p in Explorer(b, max_paths=4000).explore():
            if p.end != "return":
                continue
            for t in walk(p.env.local(0)):
                if isinstance(t, tuple) and t[0] == "agg" and t[1] == "adt" and t[2].startswith(path + "::") and len(t[3]) == len(names):
                    for nm, e in zip(names, t[3]):
                        bf = bitfield(N(e))
                        out[nm] = bf
                        w = word_of(N(e))
                        if bf[0] != "?" and w is not None:
                            words.add(repr(w))
                    return out, words
    return None, words


def _is_get(callee):
    """slice element access spelled .get(i) (turbofish of a generic instance stripped)."""
    import re

    return re.sub(r"::<[^<>]*>$", "", callee).endswith("<impl [T]>::get")


def unmap(e):
    """`[a, b].map(f)` is `[f(a), f(b)]` and `arr.map(f)[i]` is `f(arr[i])`: array::map applies f to each element in place."""
    if not isinstance(e, tuple) or not e:
        return e
    e = tuple(unmap(x) if isinstance(x, tuple) else x for x in e)

    def is_map(c):
        return isinstance(c, tuple) and c[0] == "call" and c[1].endswith("array::<impl [T; N]>::map") and len(c[2]) == 2 and isinstance(c[2][1], tuple) and c[2][1][0] == "kfn"

    if e[0] == "idx" and is_map(e[1]):
        arr, fn_ = e[1][2]
        if isinstance(arr, tuple) and arr[0] == "agg" and arr[1] == "array" and is_const(e[2]) and isinstance(e[2][1], int) and e[2][1] < len(arr[3]):
            return ("call", fn_[1], (arr[3][e[2][1]],))
        return ("call", fn_[1], (("idx", arr, e[2]),))
    if is_map(e):
        arr, fn_ = e[2]
        if isinstance(arr, tuple) and arr[0] == "agg" and arr[1] == "array":
            return ("agg", "array", arr[2], tuple(("call", fn_[1], (x,)) for x in arr[3]), arr[4] if len(arr) > 4 else None)
    return e


def dispatch_by_byte(body, reader_tag):
    """value (0..255) of the parser's argument -> the `*Data` reader type(s) reached: every loop-free path's conditions
    on the argument (equalities, range comparisons) are evaluated for each byte value; conditions on read results are
    ignored (they decide success, not which table kind is read)."""
    V = ("fld", ("p", 3), 0)

    def ev(e, v):
        if e == V:
            return v
        if is_const(e):
            return e[1]
        if isinstance(e, tuple) and e[0] == "cast":
            return ev(e[2], v)
        if isinstance(e, tuple) and e[0] in ("ref", "deref"):
            return ev(e[1], v)
        if isinstance(e, tuple) and e[0] == "call" and e[1].split("::")[-1] == "contains" and "Range" in e[1] and len(e[2]) == 2:
            rg = e[2][0]
            while isinstance(rg, tuple) and rg[0] in ("ref", "deref"):
                rg = rg[1]
            x = ev(e[2][1], v)
            if isinstance(rg, tuple) and rg[0] == "agg" and x is not None:
                els = [ev(y, v) for y in rg[3]]
                if "RangeInclusive" in rg[2] and len(els) >= 2 and None not in els[:2]:
                    return els[0] <= x <= els[1]
                if rg[2].endswith("ops::Range") and len(els) == 2 and None not in els:
                    return els[0] <= x < els[1]
            if isinstance(rg, tuple) and rg[0] == "kb" and len(rg) > 3 and x is not None:
                # promoted range constant: decoded with the compiler's field offsets
                raw = bytes.fromhex(rg[1])
                fv = {n_: int.from_bytes(raw[o_:o_ + z_], "little") for (n_, o_, z_) in rg[3]}
                if "RangeInclusive<" in rg[2] and {"start", "end"} <= set(fv) and not fv.get("exhausted"):
                    return fv["start"] <= x <= fv["end"]
                if "ops::Range<" in rg[2] and {"start", "end"} <= set(fv):
                    return fv["start"] <= x < fv["end"]
            if isinstance(rg, tuple) and rg[0] == "call" and rg[1].endswith("RangeInclusive::<Idx>::new") and x is not None:
                els = [ev(y, v) for y in rg[2]]
                if len(els) == 2 and None not in els:
                    return els[0] <= x <= els[1]
            return None
        if isinstance(e, tuple) and e[0] == "bin":
            a, b = ev(e[2], v), ev(e[3], v)
            if a is None or b is None:
                return None
            return {"Le": a <= b, "Lt": a < b, "Ge": a >= b, "Gt": a > b, "Eq": a == b, "Ne": a != b, "BitAnd": a & b, "BitOr": a | b, "Shr": a >> b if b < 64 else 0, "Sub": a - b, "Add": a + b}.get(e[1])
        return None

    paths = []
    for p in Explorer(body).explore():
        readers = [callee.split("mtrl::")[1].split(" ")[0] for (_b, callee, _a, _r) in p.events if "BinRead>::read_options" in callee and reader_tag in callee and "mtrl::" in callee]
        if not readers:
            continue
        conds = []
        for d, c in p.conds:
            if any(t == V for t in walk(d)) and not any(isinstance(t, tuple) and (t[0] == "discr" or (t[0] == "call" and t[1].split("::")[-1] != "contains")) for t in walk(d)):
                conds.append((d, c))
        paths.append((readers[0], conds))
    out = {}
    for v in range(256):
        hit = set()
        for rd, conds in paths:
            ok = True
            for d, c in conds:
                x = ev(d, v)
                if x is None:
                    ok = False
                    break
                x = int(x)
                if c[0] == "eq":
                    ok = ok and x == c[1]
                elif c[0] == "ne":
                    ok = ok and x not in (c[1] if isinstance(c[1], tuple) else (c[1],))
                elif c[0] == "not":
                    ok = ok and x not in (c[1] if isinstance(c[1], tuple) else (c[1],))
                else:
                    ok = False
            if ok:
                hit.add(rd)
        out[v] = hit
    return out


def run(ctx):
    prog = ctx.prog
    wm = model(ctx)
    ctx.decided("each component of Half1/2/3 and of the colour-row tuples comes from its own stored half (OWN)")
    ctx.decided("material / colour-table / dye-table / shader-package record layouts and shader_values divisor (W1/W3)")
    ctx.decided("dye bit fields, table flag bits and colour-table dispatch codes (MASKS)")
    ctx.decided("constant value slicing (CONSTS)")
    ctx.decided("selector polynomial base 31 with wrapping arithmetic, key-list order (SELECTOR)")
    ctx.decided("selector table = nodes then aliases, written only in from_existing; find_node indexing (NODES)")
    ctx.decided("string-heap offsets advance by bytes consumed, not by decoded text length (HEAP)")
    ctx.not_decided("string-table contents; bytecode slices; hash values; dye-table dispatch for legacy 0x42 files")

    # ---- OWN
    n_own = 0
    for fn, fields in (("read_half1", ["value"]), ("read_half2", ["x", "y"]), ("read_half3", ["r", "g", "b"])):
        b = prog.body(f"common_file_operations::{fn}")
        if not b:
            ctx.fail_closed("OWN", f"common_file_operations::{fn} not found")
            continue
        rets = [p for p in Explorer(b).explore() if p.end == "return"]
        r = rets[0].env.local(0) if len(rets) == 1 else None
        if not (isinstance(r, tuple) and r[0] == "agg" and r[1] == "adt"):
            ctx.fail_closed("OWN", f"{fn}: return value is not a struct literal")
            continue
        adt = prog.adts.get(r[2].rsplit("::", 1)[0])
        names = [f["name"] for f in adt["variants"][0]["fields"]] if adt else []
        idxs = []
        for op in r[3]:
            ci = [t[2][1] for t in walk(unmap(op)) if isinstance(t, tuple) and t[0] == "idx" and is_const(t[2]) and t[1] in (("p", 1), ("deref", ("p", 1)))]
            idxs.append(ci[0] if len(ci) == 1 else None)
        n_own += 1
        ctx.ob("OWN", fn, names == fields and idxs == list(range(len(fields))), f"{fn}: fields {names} are built from elements {idxs}; must be {list(range(len(fields)))}", b.file, b.line, sample=True)
    # map closures |x: HalfN| [x.a.to_f32(), ...]
    order = {"common_file_operations::Half2": ["x", "y"], "common_file_operations::Half3": ["r", "g", "b"]}
    n_cl = 0
    # ... or named functions used as the field's `map` (counted once per field that names them)
    row_maps = [d.text.replace(" ", "") for ty_ in ("mtrl::LegacyColorTableRow", "mtrl::DawntrailColorTableRow") for f_ in (wm.items.by_path.get(ty_) or {"fields": []})["fields"]
                for d in W.directives(f_["attrs"]) if d.name == "map"]
    for name, b in sorted(prog.bodies.items()):
        if b.j["kind"] == "Closure" and name.startswith("<mtrl::") and b.argc >= 2:
            par, uses = 2, 1
        elif b.j["kind"] != "Closure" and name.startswith("mtrl::") and b.argc == 1 and row_maps.count(name.split("::")[-1]):
            par, uses = 1, row_maps.count(name.split("::")[-1])
        else:
            continue
        pty = b.locals[par]["ty"]
        if pty not in order:
            continue
        rets = [p for p in Explorer(b).explore() if p.end == "return"]
        if len(rets) != 1:
            continue
        r = unmap(rets[0].env.local(0))
        if not (isinstance(r, tuple) and r[0] == "agg" and r[1] == "array"):
            continue
        n_cl += uses
        got = []
        for op in r[3]:
            fl = [t[2] for t in walk(op) if isinstance(t, tuple) and t[0] == "fld" and t[1] in (("p", par), ("deref", ("p", par)))]
            got.append(fl[0] if len(fl) == 1 else None)
        owner = name.split(" as ")[0].lstrip("<")
        ctx.ob("OWN", f"closure|{owner}|{pty.split('::')[-1]}", got == order[pty], f"{owner}: {pty.split('::')[-1]} -> array built from fields {got}; must be {order[pty]}", b.file, b.line, sample=(n_cl == 1))
    ctx.floor("OWN", "tuple unpackers (functions + colour-row closures)", n_own + n_cl, 3 + 10)

    # ---- HEAP: the texture paths sit back to back in the string heap; the running offset must advance by the *bytes*
    # consumed. The paths are decoded byte by byte with `as char` (one char per byte, two UTF-8 bytes for 0x80..), so
    # the decoded String's len() is not the stored length
    mfb = prog.body("mtrl::Material::from_existing")
    if not mfb:
        ctx.fail_closed("HEAP", "mtrl::Material::from_existing not found")
    else:
        from ..prov import derive as _derive, index_of as _index_of

        hix = _index_of(mfb)
        def _bytes_as_chars(b_):
            if any(st_.get("rv", {}).get("k") == "cast" and (st_["lhs"].get("ty") or b_.locals[st_["lhs"]["l"]]["ty"]) == "char" for _b, _s, st_ in b_.stmts() if st_["k"] == "assign"):
                return True
            return any("<char as std::convert::From<u8>>::from" in (t__.get("resn") or t__.get("res") or "") for _bi, t__ in b_.calls())

        # the decode may sit in a closure handed to an iterator adaptor (`bytes.iter().map(|&c| c as char).collect()`),
        # also inside an inlined helper: follow the closures constructed in the (inlined) body
        cl_names = {st_["rv"].get("closure") for _b, _s, st_ in mfb.stmts() if st_["k"] == "assign" and st_["rv"].get("k") == "agg" and st_["rv"].get("closure")}
        for _bi, t__ in mfb.calls():
            for o_ in t__["args"]:
                k_ = o_.get("k") if isinstance(o_, dict) else None
                if isinstance(k_, dict) and k_.get("closure"):
                    cl_names.add(k_["closure"])
        latin1 = _bytes_as_chars(mfb) or any(_bytes_as_chars(prog.raw_bodies[c_]) for c_ in cl_names if c_ in prog.raw_bodies)
        n_heap, textlen = 0, []
        for bi_, t_ in mfb.calls():
            if hix.callee(t_).split("::")[-1] == "get" and len(t_["args"]) == 2 and "strings" in _derive(hix, t_["args"][0]).names:
                n_heap += 1
                d1_ = _derive(hix, t_["args"][1])
                textlen += [c_ for c_ in d1_.calls if c_.endswith(("String::len", "str::len", "Chars<'a> as std::iter::Iterator>::count", "str::chars"))]
        # the walk over the texture paths starts at heap offset 0 and, read byte by byte, keeps every byte it reads
        byte_gets = [t_ for _bi, t_ in mfb.calls() if hix.callee(t_).split("::")[-1] == "get" and len(t_["args"]) == 2 and "strings" in _derive(hix, t_["args"][0]).names and str((t_["args"][1].get("c") or t_["args"][1].get("m") or {}).get("ty", "usize")) == "usize"]
        if byte_gets:
            idx_consts = set()
            for t_ in byte_gets:
                idx_consts |= _derive(hix, t_["args"][1]).consts
            ctx.ob("HEAP", "walk-starts-at-0", 0 in idx_consts and idx_consts <= {0, 1}, f"the byte index into the string heap is built from the constants {sorted(idx_consts)}; the first texture path starts at heap offset 0 and the index advances by 1", mfb.file, mfb.line)
            pushes_ = [t_ for _bi, t_ in mfb.calls() if hix.callee(t_).split("::")[-1] == "push" and "String" in hix.callee(t_) and len(t_["args"]) == 2 and any(c_.split("::")[-1] == "get" for c_ in _derive(hix, t_["args"][1]).calls)]
            # every String the byte-wise walk starts (String::new) receives characters
            news_ = [t_["dest"]["l"] for _bi, t_ in mfb.calls() if hix.callee(t_).endswith("String::new")]
            appends_ = [t_ for _bi, t_ in mfb.calls() if hix.callee(t_).split("::")[-1] in ("push", "push_str", "extend", "add_assign") and "String" in hix.callee(t_)]
            starved = [l_ for l_ in news_ if not any(l_ in _derive(hix, t_["args"][0]).locals for t_ in appends_)]
            ctx.ob("HEAP", "every-string-fed", not starved, f"{len(news_)} strings are started with String::new in the heap walk; {len(starved)} of them never receive a character", mfb.file, mfb.line)
            ctx.ob("HEAP", "bytes-kept", bool(pushes_), f"{len(byte_gets)} byte reads from the string heap, {len(pushes_)} of the decoded characters pushed onto the path / name being built (a read byte that is not kept yields empty names)", mfb.file, mfb.line)
        ctx.ob("HEAP", "offset-advances-by-bytes", not (latin1 and textlen), f"{n_heap} string-heap accesses; their offsets derive from text lengths {sorted(set(textlen))} while the text is decoded one char per byte ({latin1}); the next path starts after the bytes consumed, not after the decoded String's UTF-8 length", mfb.file, mfb.line, sample=True)

    # ---- W1 / W3
    n = w1(ctx, ["mtrl::MaterialFileHeader", "mtrl::MaterialHeader", "mtrl::ColorSet", "mtrl::ShaderKey", "mtrl::ConstantStruct", "mtrl::Sampler", "mtrl::LegacyColorTableRow",
                 "mtrl::DawntrailColorTableRow", "mtrl::LegacyColorDyeTableRow", "mtrl::DawntrailColorDyeTableRow", "mtrl::LegacyColorDyeTableData", "mtrl::DawntrailColorDyeTableData",
                 "mtrl::MaterialData", "shpk::MaterialParameter", "shpk::Key", "shpk::Pass", "shpk::NodeAlias"])
    ctx.floor("W1", "material / shader-package types", n, 17)
    k = w3(ctx, ["mtrl::MaterialData"])
    ctx.floor("W3", "divisors in MaterialData", k, 1)
    for path, rows, rowsz in (("mtrl::LegacyColorTableData", 16, 32), ("mtrl::DawntrailColorTableData", 32, 64)):
        it = wm.items.by_path.get(path)
        if not it:
            ctx.fail_closed("W1", f"{path} not found")
            continue
        st = wm.stream(it, "r")
        ok = len(st) == 1 and st[0].count == rows and st[0].elem == rowsz
        ctx.ob("W1", f"rows|{path}", ok, f"{path}: {st[0].count if st else None} rows of {st[0].elem if st else None} bytes; reference {rows} x {rowsz}", it["file"], it["line"])

    # ---- MASKS
    for path, ref, shifts in (("mtrl::LegacyColorDyeTableRow", REF_LEGACY_DYE, {"template": ("shift", 5, None)}), ("mtrl::DawntrailColorDyeTableRow", REF_DT_DYE, {"template": ("shift", 16, 0x7FF), "channel": ("shift", 27, 0x3)})):
        it = wm.items.by_path.get(path)
        if not it:
            ctx.fail_closed("MASKS", f"{path} not found")
            continue
        got, words = calc_masks(prog, path)
        if got is None:
            ctx.fail_closed("MASKS", f"{path}: no row literal found in its derived reader")
            continue
        ctx.ob("MASKS", f"{path}|one-word", len(words) == 1, f"{path}: all bit fields are decoded from one stored word ({len(words)} distinct source expressions)", it["file"], it["line"], trivial=True)
        for fld, m in ref.items():
            g = got.get(fld)
            ctx.ob("MASKS", f"{path}.{fld}", g == ("mask", m), f"{path}.{fld} is decoded as {g}; reference bit {m:#x}", it["file"], it["line"], sample=(fld == "diffuse"))
        for fld, s in shifts.items():
            ctx.ob("MASKS", f"{path}.{fld}", got.get(fld) == s, f"{path}.{fld} is decoded as {got.get(fld)}; reference {s}", it["file"], it["line"])
        masks = [v[1] for v in got.values() if v[0] == "mask"]
        single = all(m and (m & (m - 1)) == 0 for m in masks)
        disjoint = len(set(masks)) == len(masks)
        # flag bits must not overlap the template / channel fields
        overlap = False
        for v in got.values():
            if v[0] == "shift":
                width_mask = ((v[2] if v[2] is not None else 0xFFFF) << v[1])
                overlap |= any(m & width_mask for m in masks)
        ctx.ob("MASKS", f"{path}|single-bit-disjoint", single and disjoint and not overlap, f"{path}: flag masks {[hex(m) for m in masks]} single-bit={single} pairwise-distinct={disjoint} overlap-with-shifted-fields={overlap}", it["file"], it["line"])
        extra = set(got) - set(ref) - set(shifts)
        ctx.ob("MASKS", f"{path}|no-extra", not extra, f"{path}: decoded fields without a reference: {sorted(extra)}", it["file"], it["line"], trivial=True)
    md = wm.items.by_path.get("mtrl::MaterialData")
    if md:
        # the flag word's fields, read off the MIR of the derived reader (locals carry the field names)
        from ..bits import bitfield

        want = {"has_table": ("mask", 0x4), "has_dye_table": ("mask", 0x8), "table_width_log": ("shift", 4, 0xF), "table_height_log": ("shift", 8, 0xF), "table_dimension_logs": ("shift", 4, None)}
        mb_ = prog.body("<mtrl::MaterialData as binrw::BinRead>::read_options::{closure#0}")
        calcs = {}
        if mb_:
            by_name = {nm: l for l, nm in mb_.local_names().items() if nm in want}
            for p in Explorer(mb_, max_paths=6000).explore():
                if p.end != "return":
                    continue
                for nm, l in by_name.items():
                    if nm not in calcs and l in p.env.loc:
                        bf = bitfield(N(p.env.local(l)))
                        if bf[0] != "?":
                            calcs[nm] = bf
                if len(calcs) == len(want):
                    break
        for fld, w_ in want.items():
            ctx.ob("MASKS", f"MaterialData.{fld}", calcs.get(fld) == w_, f"MaterialData.{fld} is decoded as {calcs.get(fld)}; reference {w_}", md["file"], md["line"])
        conds = {f["name"]: d.text.replace(" ", "") for f in md["fields"] for d in W.directives(f["attrs"]) if d.name == "if"}
        ctx.ob("MASKS", "MaterialData.color_table|presence", conds.get("color_table") == "has_table" and conds.get("color_dye_table") == "has_dye_table", f"table presence conditions {conds}", md["file"], md["line"])
    pb = prog.body("mtrl::parse_color_table")
    if not pb:
        ctx.fail_closed("MASKS", "mtrl::parse_color_table not found")
    else:
        codes = {}
        for p in Explorer(pb).explore():
            readers = [callee for (_b, callee, _a, _r) in p.events if "BinRead>::read_options" in callee and "ColorTableData" in callee]
            for d, c in p.conds:
                if c[0] == "eq" and readers:
                    nd = N(d)
                    # the parser's argument tuple is parameter 3 (reader, endian, args)
                    if ("v", 3) in list(walk(nd)) and not any(isinstance(t, tuple) and t[0] in ("discr", "call") for t in walk(nd)):
                        codes.setdefault(readers[0].split("mtrl::")[1].split(" ")[0], set()).add(c[1])
        # (the per-value obligation below, over all 256 bytes, subsumes the point-wise codes collected here)

    # ---- ORDER: the variable-length shader-package records (per-shader resource lists, package-level lists, nodes)
    from ..wrules import w_order

    w_order(ctx, "shpk::Shader", ["data_offset", "data_size", "scalar_parameter_count", "resource_parameter_count", "uav_parameter_count", "texture_count", "scalar_parameters", "resource_parameters", "uav_parameters", "texture_parameters", "additional_data", "bytecode"],
            {"scalar_parameters": "scalar_parameter_count", "resource_parameters": "resource_parameter_count", "uav_parameters": "uav_parameter_count", "texture_parameters": "texture_count"})
    w_order(ctx, "shpk::ShaderPackage", ["version", "format", "file_length", "shader_data_offset", "strings_offset", "vertex_shader_count", "pixel_shader_count", "material_parameters_size", "material_parameter_count", "has_mat_param_defaults", "scalar_parameter_count", "unknown1", "sampler_count", "texture_count", "uav_count", "unknown2", "system_key_count", "scene_key_count", "material_key_count", "node_count", "node_alias_count", "vertex_shaders", "pixel_shaders", "material_parameters", "mat_param_defaults", "scalar_parameters", "sampler_parameters", "texture_parameters", "uav_parameters", "system_keys", "scene_keys", "material_keys", "sub_view_key1_default", "sub_view_key2_default", "nodes", "node_selectors", "node_aliases"],
            {"vertex_shaders": "vertex_shader_count", "pixel_shaders": "pixel_shader_count", "material_parameters": "material_parameter_count", "scalar_parameters": "scalar_parameter_count", "sampler_parameters": "sampler_count", "texture_parameters": "texture_count", "uav_parameters": "uav_count", "system_keys": "system_key_count", "scene_keys": "scene_key_count", "material_keys": "material_key_count", "nodes": "node_count", "node_aliases": "node_alias_count"})
    w_order(ctx, "shpk::Node", ["selector", "pass_count", "pass_indices", "system_keys", "scene_keys", "material_keys", "subview_keys", "passes"], {"passes": "pass_count"})
    w_order(ctx, "shpk::ResourceParameter", ["id", "local_string_offset", "string_length", "unknown", "slot", "size", "name"], {"name": "string_length"})

    # ---- the dye-table dispatch, for every value of the dimension byte
    pdb = prog.body("mtrl::parse_color_dye_table")
    if not pdb:
        ctx.fail_closed("MASKS", "mtrl::parse_color_dye_table not found")
    else:
        got = dispatch_by_byte(pdb, "ColorDyeTableData")

        def want_dye(v):
            return "LegacyColorDyeTableData" if v == 0 else "DawntrailColorDyeTableData" if 0x50 <= v <= 0x5F else "OpaqueColorDyeTableData"

        wrong = [v for v in range(256) if got.get(v) != {want_dye(v)}]
        ctx.ob("MASKS", "dye-table-dispatch", not wrong, f"dye-table kind per dimension byte: legacy for 0, Dawntrail for 0x50..=0x5F, none otherwise; differs at {[hex(v) for v in wrong[:8]]}" if wrong else "dye-table kind per dimension byte: legacy for 0, Dawntrail for 0x50..=0x5F, none otherwise (all 256 values)", pdb.file, pdb.line, sample=True)
    if pb:
        gotc = dispatch_by_byte(pb, "ColorTableData")

        def want_col(v):
            return "LegacyColorTableData" if v in (0, 0x42) else "DawntrailColorTableData" if v == 0x53 else "OpaqueColorTableData"

        wrongc = [v for v in range(256) if gotc.get(v) != {want_col(v)}]
        ctx.ob("MASKS", "color-table-dispatch|all-values", not wrongc, f"colour-table kind per dimension byte differs from the reference at {[hex(v) for v in wrongc[:8]]}" if wrongc else "colour-table kind per dimension byte: legacy for 0 / 0x42, Dawntrail for 0x53, opaque otherwise (all 256 values)", pb.file, pb.line)

    # ---- CONSTS
    mb = prog.body("mtrl::Material::from_existing")
    if not mb:
        ctx.fail_closed("CONSTS", "mtrl::Material::from_existing not found")
    else:
        ok_idx = ok_n = False
        det = ""
        for p in Explorer(mb, max_paths=3000).explore():
            for (_b, callee, args, _r) in p.events:
                # element access spelled [..] or .get(..) (the same element either way)
                if (callee.endswith("Index<I>>::index") or _is_get(callee)) and len(args) == 2:
                    base = args[0]
                    if any(isinstance(t, tuple) and t[0] == "fld" and t[2] == "shader_values" for t in walk(base)):
                        ix = N(args[1])
                        det = show(ix)
                        if isinstance(ix, tuple) and ix[0] == "bin" and ix[1] == "Add":
                            parts = (ix[2], ix[3])
                            div = [x for x in parts if isinstance(x, tuple) and x[0] == "bin" and x[1] == "Div" and is_const(x[3]) and x[3][1] == 4 and any(isinstance(t, tuple) and t[0] == "fld" and t[2] == "value_offset" for t in walk(x))]
                            other = [x for x in parts if x not in div]
                            if div and other and not is_const(other[0]):
                                ok_idx = True
            for l, e in p.env.loc.items():
                if mb.local_names().get(l) == "num_floats":
                    e = N(e)
                    if isinstance(e, tuple) and e[0] == "bin" and e[1] == "Div" and is_const(e[3]) and e[3][1] == 4 and any(isinstance(t, tuple) and t[0] == "fld" and t[2] == "value_size" for t in walk(e)):
                        ok_n = True
        if not (ok_idx and ok_n):
            # the same computation in a helper called from a closure (`constants.iter().map(|c| read_constant(c, ..))`):
            # look at the body that builds the Constant literal, helpers inlined
            from .c16 import _find_literal
            from ..prov import derive as _derive, index_of as _index_of

            hits_ = _find_literal(prog, "mtrl::Material::from_existing", "mtrl::Constant")
            if len(hits_) == 1:
                lb_, lst_ = hits_[0]
                lix_ = _index_of(lb_)

                def _bin(op_):
                    r_ = lix_.resolve(op_)
                    if r_[0] == "rv" and r_[1]["k"] == "bin":
                        return r_[1]["op"].replace("WithOverflow", ""), r_[1]["a"], r_[1]["b"]
                    if r_[0] == "place" and len(r_[1]["p"]) == 1 and isinstance(r_[1]["p"][0], dict) and r_[1]["p"][0].get("f") == 0:
                        d_ = lix_.single_def(r_[1]["l"])
                        if d_ and d_[0] == "assign" and d_[3]["rv"]["k"] == "bin":
                            return d_[3]["rv"]["op"].replace("WithOverflow", ""), d_[3]["rv"]["a"], d_[3]["rv"]["b"]
                    if r_[0] == "cast":
                        return _bin(r_[1]["a"])
                    if r_[0] == "call" and lix_.callee(r_[1]).split("::")[-1] in ("from", "into") and r_[1]["args"]:
                        return _bin(r_[1]["args"][0])
                    return None

                def _div4_of(op_, field):
                    b_ = _bin(op_)
                    if not b_ or b_[0] != "Div":
                        return False
                    c_ = lix_.resolve(b_[2])
                    for _hop in range(3):
                        # usize::from(SIZE) / SIZE as usize of a constant
                        if c_[0] == "call" and lix_.callee(c_[1]).split("::")[-1] in ("from", "into") and len(c_[1]["args"]) == 1:
                            c_ = lix_.resolve(c_[1]["args"][0])
                        elif c_[0] == "cast":
                            c_ = lix_.resolve(c_[1]["a"])
                        else:
                            break
                    return c_[0] == "const" and c_[1] == 4 and field in _derive(lix_, b_[1]).names

                for _b, t_ in lb_.calls():
                    c_ = t_.get("res") or ""
                    if (c_.endswith("Index<I>>::index") or _is_get(c_)) and len(t_["args"]) == 2 and P.source_name(lix_, t_["args"][0]) == "shader_values":
                        b_ = _bin(t_["args"][1])
                        if b_ and b_[0] == "Add":
                            for x_, y_ in ((b_[1], b_[2]), (b_[2], b_[1])):
                                if _div4_of(x_, "value_offset") and lix_.resolve(y_)[0] != "const" and "value_offset" not in _derive(lix_, y_).names:
                                    ok_idx = True
                                    det = "value_offset / 4 + i (in " + lb_.name.split("::")[-1] + ")"
                ops_ = dict(zip(lst_["rv"]["fields"], lst_["rv"]["ops"]))
                if "num_values" in ops_ and _div4_of(ops_["num_values"], "value_size"):
                    ok_n = True
        ctx.ob("CONSTS", "value-index", ok_idx, f"constant values are read at shader_values[{det}]; must be value_offset / 4 + i", mb.file, mb.line, sample=True)
        ctx.ob("CONSTS", "value-count", ok_n, "number of floats per constant = value_size / 4", mb.file, mb.line)
        # constant id
        ok_id = False
        for p in Explorer(mb, max_paths=3000).explore():
            for (_b, callee, args, _r) in p.events:
                if callee.endswith("::push") and len(args) == 2 and isinstance(args[1], tuple) and args[1][0] == "agg" and args[1][2].startswith("mtrl::Constant"):
                    ops = args[1][3]
                    if any(isinstance(t, tuple) and t[0] == "fld" and t[2] == "constant_id" for t in walk(ops[0])):
                        ok_id = True
        if not ok_id:
            from .c16 import _find_literal
            from ..prov import derive as _derive, index_of as _index_of

            hits_ = _find_literal(prog, "mtrl::Material::from_existing", "mtrl::Constant")
            if len(hits_) == 1:
                lb_, lst_ = hits_[0]
                ops_ = dict(zip(lst_["rv"]["fields"], lst_["rv"]["ops"]))
                d_ = _derive(_index_of(lb_), ops_["id"]) if "id" in ops_ else None
                ok_id = d_ is not None and "constant_id" in d_.names and not d_.ops
        ctx.ob("CONSTS", "id", ok_id, "Constant.id is the stored constant_id", mb.file, mb.line, trivial=True)

    # ---- SELECTOR
    # the private multiplier constant, whatever it is called (it is spelled SELECTOR_MULTIPLER on the pinned tree)
    mult_consts = {p_: prog.const_scalar(p_) for p_ in prog.consts if p_.startswith("shpk::") and "MULTIPL" in p_.upper()}
    v = next(iter(mult_consts.values()), None) if len(mult_consts) == 1 else None
    ctx.ob("SELECTOR", "multiplier", v == 31, f"selector multiplier constant(s) {mult_consts}; the selector is a base-31 polynomial", "src/shpk.rs")
    sb = prog.body("shpk::ShaderPackage::build_selector")
    if not sb:
        ctx.fail_closed("SELECTOR", "shpk::ShaderPackage::build_selector not found")
    else:
        n_ovf = sum(1 for blk in sb.blocks if blk["t"]["k"] == "assert" and blk["t"]["msg"].startswith("Overflow"))
        ctx.ob("SELECTOR", "wrapping", n_ovf == 0, f"build_selector contains {n_ovf} overflow-checked operations; arithmetic is modulo 2^32", sb.file, sb.line)
        paths = Explorer(sb).explore()
        loops = [p for p in paths if p.end == "loop"]
        rets = [p for p in paths if p.end == "return"]
        ok = False
        det = ""
        if len(loops) == 1 and len(rets) == 1:
            names = {v_: k_ for k_, v_ in sb.local_names().items()}
            sel, mul = names.get("selector"), names.get("multiplier")
            r = N(rets[0].env.local(0))
            if sel is not None and mul is not None:
                s1, m1 = N(loops[0].env.local(sel)), N(loops[0].env.local(mul))
                det = f"selector' = {show(s1)}, multiplier' = {show(m1)}"
                key_term = None
                if isinstance(s1, tuple) and s1[0] == "bin" and s1[1] == "WAdd" and ("v", sel) in (s1[2], s1[3]):
                    key_term = s1[2] if s1[3] == ("v", sel) else s1[3]
                mul_ok = isinstance(m1, tuple) and m1[0] == "bin" and m1[1] == "WMul" and ("v", mul) in (m1[2], m1[3]) and any(is_const(x) and x[1] == 31 or (isinstance(x, tuple) and x[0] == "kz") for x in (m1[2], m1[3]))
                key_ok = isinstance(key_term, tuple) and key_term[0] == "bin" and key_term[1] == "WMul" and ("v", mul) in (key_term[2], key_term[3])
                ok = mul_ok and key_ok and r == ("v", sel)
        fold_inits = None
        if not ok and len(loops) == 0 and len(rets) == 1:
            # the same recurrence as a fold over the pair (selector, multiplier): the closure is the loop body, the fold's
            # initial pair the initial values, field 0 of the result the selector
            r_raw = rets[0].env.local(0)
            if isinstance(r_raw, tuple) and r_raw[0] == "fld" and r_raw[2] in (0, "0") and isinstance(r_raw[1], tuple) and r_raw[1][0] == "call" and r_raw[1][1].split("::")[-1].split("<")[0] == "fold" and len(r_raw[1][2]) == 3:
                recv_, init_, clo_ = r_raw[1][2]
                cbf = prog.body(clo_[2]) if isinstance(clo_, tuple) and clo_[0] == "agg" and clo_[1] == "closure" else None
                forward = not any(isinstance(t_, tuple) and t_[0] == "call" and t_[1].split("::")[-1] in ("rev", "skip", "step_by", "take", "filter") for t_ in walk(recv_))
                if cbf is not None and forward:
                    crs = [q for q in Explorer(cbf).explore() if q.end == "return"]
                    if len(crs) == 1:
                        e = N(crs[0].env.local(0))
                        # closure parameters: 2 = the pair, 3 = &key
                        SEL, MUL = ("fld", ("v", 2), 0), ("fld", ("v", 2), 1)
                        if isinstance(e, tuple) and e[0] == "agg" and len(e[3]) == 2:
                            s1, m1 = e[3]
                            det = f"selector' = {show(s1)}, multiplier' = {show(m1)}"
                            key_term = None
                            if isinstance(s1, tuple) and s1[0] == "bin" and s1[1] == "WAdd" and SEL in (s1[2], s1[3]):
                                key_term = s1[2] if s1[3] == SEL else s1[3]
                            mul_ok = isinstance(m1, tuple) and m1[0] == "bin" and m1[1] == "WMul" and MUL in (m1[2], m1[3]) and any(is_const(x) and x[1] == 31 for x in (m1[2], m1[3]))
                            key_ok = isinstance(key_term, tuple) and key_term[0] == "bin" and key_term[1] == "WMul" and MUL in (key_term[2], key_term[3]) and any(t_ == ("v", 3) for x in (key_term[2], key_term[3]) for t_ in walk(x))
                            ok = mul_ok and key_ok
                            ini = N(init_)
                            if isinstance(ini, tuple) and ini[0] == "agg" and len(ini[3]) == 2 and all(is_const(x) for x in ini[3]):
                                fold_inits = {"selector": ini[3][0][1], "multiplier": ini[3][1][1]}
        ctx.ob("SELECTOR", "polynomial", ok, f"build_selector loop: {det}; must be selector += key * multiplier; multiplier *= 31, starting from (0, 1)", sb.file, sb.line, sample=True)
        inits = dict(fold_inits) if fold_inits else {}
        for _bi, _si, s in sb.stmts():
            if s["k"] == "assign" and s["rv"]["k"] == "use" and const_int(s["rv"]["a"]) is not None:
                nm = sb.local_names().get(s["lhs"]["l"])
                if nm in ("selector", "multiplier"):
                    inits.setdefault(nm, const_int(s["rv"]["a"]))
        ctx.ob("SELECTOR", "initial-values", inits == {"selector": 0, "multiplier": 1}, f"initial (selector, multiplier) = {inits}", sb.file, sb.line)
    kb = prog.body("shpk::ShaderPackage::build_selector_from_all_keys")
    if kb:
        ok = False
        for p in Explorer(kb).explore():
            for (_b, callee, args, _r) in p.events:
                if callee.endswith("build_selector_from_keys"):
                    srcs = []
                    for a in args:
                        inner = [t for t in walk(a) if isinstance(t, tuple) and t[0] == "call" and t[1].endswith("::build_selector")]
                        src = inner[0][2][0] if inner else None
                        na = N(a)
                        # `[system, scene, material, subview].map(build_selector)` destructured in order
                        if src is None and isinstance(na, tuple) and na[0] == "idx" and is_const(na[2]) and isinstance(na[1], tuple) and na[1][0] == "call" and na[1][1].endswith("array::<impl [T; N]>::map") and len(na[1][2]) == 2:
                            arr, fn_ = na[1][2]
                            if isinstance(arr, tuple) and arr[0] == "agg" and arr[1] == "array" and isinstance(fn_, tuple) and fn_[0] == "kfn" and fn_[1].endswith("::build_selector") and na[2][1] < len(arr[3]):
                                src = arr[3][na[2][1]]
                        if isinstance(src, tuple) and src[0] == "v":
                            src = ("p", src[1])
                        srcs.append(src)
                    ok = srcs == [("p", 1), ("p", 2), ("p", 3), ("p", 4)]
        ctx.ob("SELECTOR", "key-list-order", ok, "combined selector = build_selector_from_keys(sel(system), sel(scene), sel(material), sel(subview))", kb.file, kb.line)
    else:
        ctx.fail_closed("SELECTOR", "build_selector_from_all_keys not found")
    k2 = prog.body("shpk::ShaderPackage::build_selector_from_keys")
    if k2:
        ok = False
        for p in Explorer(k2).explore():
            for (_b, callee, args, _r) in p.events:
                if callee.endswith("::build_selector"):
                    arr = [t for t in walk(args[0]) if isinstance(t, tuple) and t[0] == "agg" and t[1] == "array"]
                    ok = bool(arr) and tuple(arr[0][3]) == (("p", 1), ("p", 2), ("p", 3), ("p", 4))
        ctx.ob("SELECTOR", "four-key-order", ok, "build_selector_from_keys hashes [system, scene, material, subview] in that order", k2.file, k2.line)

    # ---- NODES
    fb = prog.body("shpk::ShaderPackage::from_existing")
    if not fb:
        ctx.fail_closed("NODES", "shpk::ShaderPackage::from_existing not found")
    else:
        by_bb = {}
        for p in Explorer(fb).explore():
            for (bb_, callee, args, _r) in p.events:
                if callee.endswith("::push") and any(isinstance(t, tuple) and t[0] == "fld" and t[2] == "node_selectors" for t in walk(args[0])):
                    tup = args[1]
                    if isinstance(tup, tuple) and tup[0] == "agg" and tup[1] == "tuple":
                        f0 = {t[2] for t in walk(tup[3][0]) if isinstance(t, tuple) and t[0] == "fld"}
                        f1 = {t[2] for t in walk(tup[3][1]) if isinstance(t, tuple) and t[0] == "fld"}
                        by_bb[bb_] = (tuple(sorted(f0 & {"selector", "node"})), tuple(sorted(f1 & {"selector", "node"})), "enumerate-index" if not (f1 & {"node", "selector"}) else "field")

        # the same table filled with extend(iter.map(closure)) / extend(a.map(..).chain(b.map(..))): one entry shape per
        # mapped closure, in chain order
        from ..prov import derive as _derive, index_of as _index_of

        fix_ = _index_of(fb)

        def closure_seq(op_, depth=0):
            if depth > 8:
                return None
            r_ = fix_.resolve(op_)
            if r_[0] != "call":
                return None
            c_ = fix_.callee(r_[1]).split("::")[-1]
            a_ = r_[1]["args"]
            if c_ == "map" and len(a_) == 2:
                k_ = fix_.resolve(a_[1])
                if k_[0] == "rv" and k_[1]["k"] == "agg" and k_[1].get("ak") == "closure":
                    return [k_[1]["closure"]]
                return None
            if c_ == "chain" and len(a_) == 2:
                x_, y_ = closure_seq(a_[0], depth + 1), closure_seq(a_[1], depth + 1)
                return x_ + y_ if x_ is not None and y_ is not None else None
            if c_ in ("into_iter", "by_ref", "fuse") and a_:
                return closure_seq(a_[0], depth + 1)
            return None

        def closure_entry(name):
            cb_ = prog.body(name)
            if cb_ is None:
                return None
            cix_ = _index_of(cb_)
            for _b, _s, st_ in cb_.stmts():
                rv_ = st_.get("rv") or {}
                if st_["k"] == "assign" and st_["lhs"]["l"] == 0 and not st_["lhs"]["p"] and rv_.get("k") == "agg" and rv_.get("ak") == "tuple" and len(rv_["ops"]) == 2:
                    d0_, d1_ = _derive(cix_, rv_["ops"][0]), _derive(cix_, rv_["ops"][1])
                    f0 = d0_.names & {"selector", "node"}
                    f1 = d1_.names & {"selector", "node"}
                    return (tuple(sorted(f0)), tuple(sorted(f1)), "enumerate-index" if not f1 and any(pth and pth[0] == "#0" for pth in d1_.paths) and 2 in d1_.params else "field")
            return None

        ext = {}
        for bb_, t_ in fb.calls():
            if fix_.callee(t_).split("::")[-1] == "extend" and len(t_["args"]) == 2 and "node_selectors" in _derive(fix_, t_["args"][0]).names:
                seq = closure_seq(t_["args"][1])
                ents = [closure_entry(n_) for n_ in seq] if seq else None
                if ents and all(ents):
                    ext[bb_] = ents
                    # the enumerate() index only counts when the closure is mapped over nodes.iter().enumerate()
        multi = []  # (bb, position inside the call, entry)
        for bb_, v_ in by_bb.items():
            multi.append((bb_, 0, v_))
        for bb_, ents in ext.items():
            for i_, e_ in enumerate(ents):
                multi.append((bb_, i_, e_))

        def reaches(a, b_):
            seen, work = {a}, [a]
            while work:
                x = work.pop()
                for s_ in fb.succ(x):
                    if s_ == b_:
                        return True
                    if s_ not in seen:
                        seen.add(s_)
                        work.append(s_)
            return False

        # order the push sites: the nodes push must precede (reach, and not be reached from) the alias push
        bbs_ = {m_[0] for m_ in multi}
        rank = {b_: sum(1 for o in bbs_ if o != b_ and reaches(o, b_) and not reaches(b_, o)) for b_ in bbs_}
        multi.sort(key=lambda m_: (rank[m_[0]], m_[1]))
        sites = [(m_[0], m_[2]) for m_ in multi]
        pushes = [v for _k, v in sites]
        ok = len(pushes) == 2 and pushes[0][0] == ("selector",) and pushes[0][2] == "enumerate-index" and pushes[1][0] == ("selector",) and pushes[1][1] == ("node",) and (sites[0][0] == sites[1][0] or (reaches(sites[0][0], sites[1][0]) and not reaches(sites[1][0], sites[0][0])))
        ctx.ob("NODES", "table-construction", ok, f"node_selectors pushes: {pushes}; must be (node.selector, index) for nodes, then (alias.selector, alias.node) for aliases", fb.file, fb.line, sample=True)
    writers = set()
    for name, b in prog.bodies.items():
        for _bi, t in b.calls():
            c = t.get("res") or ""
            if c.split("::")[-1] in ("push", "insert", "clear", "remove", "extend", "truncate", "retain", "pop", "sort", "swap", "append", "drain"):
                a0 = t["args"][0] if t["args"] else None
                p = op_place(a0) if a0 else None
                if p is None:
                    continue
                pl = [p]
                if not p["p"]:
                    for kind, _b2, _s2, st in b.defs().get(p["l"], []):
                        if kind == "assign" and st["rv"]["k"] in ("ref", "rawptr"):
                            pl.append(st["rv"]["p"])
                if any(isinstance(pr, dict) and pr.get("n") == "node_selectors" for q in pl for pr in q["p"]):
                    writers.add(name)
    ctx.ob("NODES", "who-may-write", writers == {"shpk::ShaderPackage::from_existing"}, f"functions mutating node_selectors: {sorted(writers)}; only from_existing may", "src/shpk.rs")
    nb = prog.body("shpk::ShaderPackage::find_node")
    if nb:
        ok = False
        for p in Explorer(nb).explore():
            if p.end != "return":
                continue
            r = p.env.local(0)
            if isinstance(r, tuple) and r[0] == "agg" and r[2].endswith("Option::Some"):
                ix = [t for t in walk(r) if isinstance(t, tuple) and t[0] == "idx" and any(isinstance(x, tuple) and x[0] == "fld" and x[2] == "nodes" for x in walk(t[1]))]
                cmp_ = [d for d, c in p.conds if isinstance(N(d), tuple) and N(d)[0] == "bin" and N(d)[1] in ("Eq", "Ne") and ("v", 2) in list(walk(N(d)))]
                if ix and cmp_:
                    # index derives from tuple field 1, comparison from tuple field 0
                    i_f = {t[2] for t in walk(ix[0][2]) if isinstance(t, tuple) and t[0] == "fld"}
                    c_f = {t[2] for t in walk(N(cmp_[0])) if isinstance(t, tuple) and t[0] == "fld"}
                    ok = 1 in i_f and 0 in c_f
            elif isinstance(r, tuple) and r[0] == "call" and _is_get(r[1]) and len(r[2]) == 2:
                # the same lookup spelled nodes.get(entry.1)
                cmp_ = [d for d, c in p.conds if isinstance(N(d), tuple) and N(d)[0] == "bin" and N(d)[1] in ("Eq", "Ne") and ("v", 2) in list(walk(N(d)))]
                if cmp_ and any(isinstance(x, tuple) and x[0] == "fld" and x[2] == "nodes" for x in walk(r[2][0])):
                    i_f = {t[2] for t in walk(r[2][1]) if isinstance(t, tuple) and t[0] == "fld"}
                    c_f = {t[2] for t in walk(N(cmp_[0])) if isinstance(t, tuple) and t[0] == "fld"}
                    ok = ok or (1 in i_f and 0 in c_f)
        if not ok:
            # the same search spelled node_selectors.iter().find(|(sel, _)| *sel == selector) followed by
            # nodes.get(entry.1): forward find = first match, the closure compares element field 0 with the captured
            # selector, the index handed to nodes is field 1 of what find returned
            from ..prov import derive as _derive, index_of as _index_of

            nix_ = _index_of(nb)
            for _b, t_ in nb.calls():
                c_ = nix_.callee(t_)
                if (c_.endswith("Index<I>>::index") or _is_get(c_)) and len(t_["args"]) == 2 and P.source_name(nix_, t_["args"][0]) == "nodes":
                    di_ = _derive(nix_, t_["args"][1])
                    cl_ = {x_.split("::")[-1] for x_ in di_.calls}
                    via_find = "find" in cl_ and "node_selectors" in di_.names and not ({"rfind", "rev", "last", "rposition", "max_by_key", "min_by_key"} & cl_)
                    idx_f1 = any(pth and pth[-1] == "#1" for pth in di_.paths) and not any(pth and pth[-1] == "#0" for pth in di_.paths)
                    cmp_ok = False
                    for cb_ in prog.closures_of(nb.name):
                        cix_ = _index_of(cb_)
                        for _b2, _s2, st_ in cb_.stmts():
                            rv_ = st_.get("rv") or {}
                            if st_["k"] == "assign" and rv_.get("k") == "bin" and rv_["op"] in ("Eq", "Ne"):
                                da_, db_ = _derive(cix_, rv_["a"]), _derive(cix_, rv_["b"])
                                for el_, cap_ in ((da_, db_), (db_, da_)):
                                    if 2 in el_.params and any(pth and pth[-1] == "#0" for pth in el_.paths) and not any(pth and pth[-1] == "#1" for pth in el_.paths) and cap_.outer_params == {2} and rv_["op"] == "Eq":
                                        cmp_ok = True
                    ok = via_find and idx_f1 and cmp_ok
        ctx.ob("NODES", "find_node", ok, "find_node compares entry.0 with the selector and returns nodes[entry.1]", nb.file, nb.line)
    else:
        ctx.fail_closed("NODES", "shpk::ShaderPackage::find_node not found")
