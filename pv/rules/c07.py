"""C07 — written models re-read as the same model, including after edits.

Decided:
  W2       read/write stream symmetry of the whole ModelData tree (sizes, pads, endianness, presence conditions:
           a scalar read under if(version) must be written under the same condition)
  W4       ModelData::calculate_runtime_size: every (field, multiplier) pair equals the wire size of the element type
           that field is read with; fixed addends equal the wire sizes of the fixed parts (terrain-shadow tables are
           outside this property's scope and are not compared)
  SIBLING  for every (usage, type) pair the reader decodes, the writer has an arm that calls the paired encoder
           (read_X <-> write_X) on the same Vertex fields; typed writers emit the width their reader consumes
  SEEK     the writer's element and index seeks derive from the same terms as the reader's
  DECL     the declaration writer pads each declaration to 17 slots and terminates with stream = 0xFF
Not decided: inverse-ness of the float/half/byte codecs on all values, update_headers arithmetic, edit histories.
"""
import re

from .. import wire as W
from ..mir import const_int
from ..prov import derive, index_of
from ..sym import Explorer, N, is_const, show, walk
from ..wrules import model, w2
from .c06 import REF_READ, REF_WIDTH, arms_table

ANCHOR_RE = [r"model_file_operations::.*::(read|write)_(byte_float4|byte_float42|tangent|half4|half2|byte4|single3|single4|unsigned_short4)$"]  # typed codecs are paired by computed name (read_X <-> write_X)
TECHNIQUE = "static analysis: read/write symmetry of the binrw declarations; size-formula terms read off the MIR vs wire sizes; sibling agreement of the reader's and writer's (usage, type) switch nests; derives-from obligations on the writer's seeks; constant evaluation of the encoder scale factors; must-pass-through of update_headers"
TRUSTED = ["pv/wire.py binrw model", "rustc nightly MIR", "encoder/decoder pairing table embedded in this rule"]

TREE = ["model::ModelFileHeader", "model::ModelHeader", "model::MeshLod", "model::Mesh", "model::Submesh", "model::BoneTable", "model::ShapeStruct", "model::ShapeMesh", "model::ShapeValue",
        "model::ElementId", "model::BoundingBox", "model_vertex_declarations::VertexElement", "model::ModelData"]
W2_FLOORS = {"model::ModelFileHeader": 13, "model::ModelHeader": 30, "model::MeshLod": 20, "model::Mesh": 11, "model::Submesh": 5, "model::BoneTable": 3, "model::ShapeStruct": 3, "model::ShapeMesh": 3,
             "model::ShapeValue": 2, "model::ElementId": 4, "model::BoundingBox": 2, "model_vertex_declarations::VertexElement": 6, "model::ModelData": 9}
PAIR = {"read_half4": "write_half4", "read_half2": "write_half2", "read_single3": "write_single3", "read_single4": "write_single4", "read_byte_float4": "write_byte_float4",
        "read_byte4": "write_byte4", "read_tangent": "write_tangent", "read_unsigned_short4": "write_unsigned_short4"}
WRITE_WIDTH = {"write_half4": "[u16; 4]", "write_half2": "[u16; 2]", "write_single3": "[f32; 3]", "write_single4": "[f32; 4]", "write_byte_float4": "[u8; 4]", "write_byte4": "[u8; 4]", "write_tangent": "[u8; 4]"}


def run(ctx):
    prog = ctx.prog
    wm = model(ctx)
    ctx.decided("read/write symmetry of the ModelData tree incl. version-conditional scalars (W2)")
    ctx.decided("runtime-size formula terms vs wire sizes (W4)")
    ctx.decided("writer arm and paired encoder for every (usage, type) pair the reader decodes; writer widths (SIBLING)")
    ctx.decided("writer seek provenance (SEEK); declaration padding to 17 slots with 0xFF terminator (DECL)")
    ctx.decided("attribute encoders round before every float to integer cast (ENCODE)")
    ctx.decided("edit operations store the geometry supplied by the caller; update_headers derives every header field from the model (EDIT)")
    ctx.not_decided("inverse-ness of the attribute codecs on all values; update_headers arithmetic beyond its order and operands; edit histories; terrain-shadow tables")

    for t in TREE:
        d = w2(ctx, [t])
        ctx.floor("W2", f"field comparisons decided for {t}", d, W2_FLOORS[t])

    # ---- W4(b)
    rb = prog.body("model::ModelData::calculate_runtime_size")
    md = wm.items.by_path.get("model::ModelData")
    if not rb or not md:
        ctx.fail_closed("W4", "ModelData::calculate_runtime_size / ModelData not found")
    else:
        rets = [p for p in Explorer(rb).explore() if p.end == "return"]
        if len(rets) != 1:
            ctx.fail_closed("W4", "calculate_runtime_size is not straight-line")
        else:
            terms = []

            def flat(e):
                e2 = e
                while isinstance(e2, tuple) and e2[0] == "chk":
                    e2 = e2[1]
                if isinstance(e2, tuple) and e2[0] == "bin" and e2[1] == "Add":
                    flat(e2[2])
                    flat(e2[3])
                else:
                    terms.append(e2)

            flat(N(rets[0].env.local(0)))
            # element sizes by ModelData field / by header count
            by_field = {}
            by_count = {}
            for f in md["fields"]:
                inner = wm.generic_inner(f["tyt"], "Vec")
                if inner is None:
                    continue
                es = wm.type_size(inner, md)
                by_field[f["name"]] = es
                for d_ in W.directives(f["attrs"]):
                    if d_.name == "count" and "r" in d_.side:
                        m = re.match(r"^header\.(\w+)$", d_.text.replace(" ", ""))
                        if m:
                            by_count[m.group(1)] = (f["name"], es)
            const_sum = 0
            n_pairs = 0
            for t in terms:
                if is_const(t):
                    const_sum += t[1]
                    continue
                mult = None
                src = t
                if isinstance(t, tuple) and t[0] == "bin" and t[1] == "Mul":
                    a, b = t[2], t[3]
                    if is_const(a):
                        mult, src = a[1], b
                    elif is_const(b):
                        mult, src = b[1], a
                    else:
                        # len * size_of::<u32>() : treat the size_of call as its constant
                        for x, y in ((a, b), (b, a)):
                            if any(isinstance(z, tuple) and z[0] == "call" and z[1].endswith("size_of") for z in walk(x)):
                                mult, src = 4, y
                flds = [z[2] for z in walk(src) if isinstance(z, tuple) and z[0] == "fld" and isinstance(z[2], str)]
                lens = any(isinstance(z, tuple) and (z[0] == "len" or (z[0] == "call" and z[1].endswith("::len"))) for z in walk(src))
                fld = flds[-1] if flds else None
                flds_set = set(flds)
                name = next((f_ for f_ in flds if f_ in by_field), None) if lens else None
                if name is not None:
                    want = by_field[name]
                    label = f"{name}.len()"
                else:
                    cnt = next((f_ for f_ in flds if f_ in by_count), None)
                    if cnt is not None:
                        name, want = by_count[cnt]
                        label = f"header.{cnt}"
                    elif "string_size" in flds_set or "padding_amount" in flds_set:
                        ctx.ob("W4", f"term|{sorted(flds_set)[-1]}", mult in (None, 1), f"{show(t)[:80]}: counted in bytes", rb.file, rb.line, trivial=True)
                        continue
                    else:
                        ctx.fail_closed("W4", f"calculate_runtime_size: unrecognised term {show(t)[:100]}")
                        continue
                if "terrain_shadow" in name:
                    ctx.note(f"W4: {label} * {mult} not compared (terrain-shadow tables are outside C07's scope); wire size is {want}")
                    continue
                n_pairs += 1
                ctx.ob("W4", f"pair|{name}", mult == want, f"calculate_runtime_size counts {label} * {mult}; {name}'s elements serialise to {want} bytes", rb.file, rb.line, sample=(name == "meshes"))
            ctx.floor("W4", "(field, multiplier) pairs", n_pairs, 12)
            # fixed addends: 2+2+4 (string block header) + 56 (header tail) + 3*60 (lods) + 4 (bone map size, v5) + 1 (padding amount) + 4*32 (boxes)
            lod = wm.item_size(wm.items.by_path["model::MeshLod"])
            bb = wm.item_size(wm.items.by_path["model::BoundingBox"])
            hdr = wm.items.by_path["model::ModelHeader"]
            sig = W.signature(wm, hdr)
            # fixed bytes of ModelHeader apart from the two variable fields
            hdr_fixed = sum(t_[1] for t_ in sig if t_[0] in ("f", "gap") and t_[1] is not None)
            want_const = hdr_fixed + 3 * lod + 4 + 1 + 4 * bb
            ctx.ob("W4", "fixed-addends", const_sum == want_const, f"constant addends sum to {const_sum}; fixed parts serialise to {want_const} (header {hdr_fixed} + 3 LODs {3*lod} + bone-map size 4 + padding count 1 + 4 boxes {4*bb})", rb.file, rb.line)

    # ---- SIBLING
    rbody, rarms = arms_table(prog, "model::MDL::from_existing")
    wbody, warms = arms_table(prog, "model::MDL::write_to_buffer")
    if not rarms or not warms:
        ctx.fail_closed("SIBLING", "element switches of from_existing / write_to_buffer not found")
    else:
        n_pairs = 0
        for (u, t), (rnames, rfields, _rb) in sorted(rarms.items(), key=str):
            if t in ("else", None):
                continue
            readers = [n_ for n_ in rnames if n_.startswith("read_")]
            n_pairs += 1
            w_ = warms.get((u, t))
            if w_ is None or (not [n_ for n_ in w_[0] if n_.startswith("write_")] and readers):
                ctx.ob("SIBLING", f"{u}|{t}|writer-arm", False, f"the reader decodes ({u}, {t}) with {readers} but write_to_buffer has no encoding arm for it (it panics): a parsed model with this element cannot be written", wbody.file, wbody.line)
                continue
            wnames, wfields, _wb = w_
            # the encoded value may be assembled before the inner match (hoisted): add the Vertex fields the
            # encoder's data argument derives from
            wfields = set(wfields)
            wix_ = index_of(wbody)
            for bi_ in _wb:
                t_ = wbody.blocks[bi_]["t"]
                if t_["k"] == "call" and (t_.get("res") or "").split("::")[-1].startswith("write_") and "MDL" in (t_.get("res") or "") and len(t_["args"]) >= 2:
                    for adt_, nm_ in derive(wix_, t_["args"][1]).fields:
                        if adt_ == "model::Vertex":
                            wfields.add(nm_)
            writers = [n_ for n_ in wnames if n_.startswith("write_")]
            if not readers and not writers:
                ctx.ob("SIBLING", f"{u}|{t}|writer-arm", True, f"({u}, {t}) is skipped by both sides", wbody.file, wbody.line, trivial=True)
                continue
            want = [PAIR.get(r) for r in readers]
            ctx.ob("SIBLING", f"{u}|{t}|encoder", writers == want, f"({u}, {t}): reader uses {readers}, writer uses {writers}; the paired encoder is {want}", wbody.file, wbody.line, sample=(u == "Normal" and t == "Half4"))
            ctx.ob("SIBLING", f"{u}|{t}|field", wfields == rfields, f"({u}, {t}): reader fills Vertex.{sorted(rfields)}, writer encodes Vertex.{sorted(wfields)}", wbody.file, wbody.line)
        ctx.floor("SIBLING", "(usage, type) pairs decoded by the reader", n_pairs, 17)
        # typed writer widths
        for fn, ty in WRITE_WIDTH.items():
            b = next((x for nme, x in prog.bodies.items() if nme.endswith("::" + fn) and "MDL" in nme), None)
            if not b:
                ctx.fail_closed("SIBLING", f"MDL::{fn} not found")
                continue
            ws = []
            for _bi, t_ in b.calls():
                c = t_.get("res") or (t_["f"].get("k") or {}).get("fn") or ""
                if c.endswith("BinWriterExt::write_le") or c.endswith("BinWriterExt::write_be") or c.endswith("::write_le"):
                    ga = (t_["f"].get("k") or {}).get("ga", [])
                    ws.append((c.split("::")[-1], ga[-1] if ga else "?"))
            rfn = {v: k for k, v in PAIR.items()}[fn]
            ctx.ob("SIBLING", f"width|{fn}", ws == [("write_le", ty)], f"{fn} emits {ws}; its reader {rfn} consumes {REF_WIDTH[rfn][2]} bytes, so it must write one little-endian {ty}", b.file, b.line)
        # uv arms of the writer combine [uv0[0], uv0[1], uv1[0], uv1[1]]
        for t in ("Half4", "Single4"):
            w_ = warms.get(("UV", t))
            if not w_:
                continue
            order = uv_combine_order(wbody, w_[2])
            ctx.ob("SIBLING", f"UV|{t}|combine-order", order == [("uv0", 0), ("uv0", 1), ("uv1", 0), ("uv1", 1)], f"(UV, {t}) writer combines {order}; must be [uv0[0], uv0[1], uv1[0], uv1[1]]", wbody.file, wbody.line)

    # ---- SEEK (writer)
    if wbody:
        ix = index_of(wbody)
        seeks = []
        seek_bbs = {}
        for bi, t_ in wbody.calls():
            c = t_.get("res") or ""
            if c.endswith("Seek>::seek") and len(t_["args"]) == 2:
                seeks.append(derive(ix, t_["args"][1]))
                seek_bbs[id(seeks[-1])] = bi
        elem = [d for d in seeks if {"vertex_data_offset", "vertex_buffer_offsets", "vertex_buffer_strides", "stream", "offset"} <= d.names]
        if len(elem) == 1:
            # the reader positions itself for every element (C06 SEEK element|unconditional); so must the writer: a seek
            # skipped while "the stream has not changed" puts elements listed out of offset order in the wrong bytes
            from ..loops import on_every_cycle

            oc = on_every_cycle(wbody, seek_bbs[id(elem[0])])
            ctx.ob("SEEK", "element|every-element", oc is True, f"the element seek is passed on every iteration of the element loop: {oc}; each element must be written at its own computed position", wbody.file, wbody.line)
        from ..posrule import seeks_from_start_sum_only

        seeks_from_start_sum_only(ctx, "SEEK", wbody, "write_to_buffer", allow_ops=("Mul", "MulWithOverflow"))
        ctx.ob("SEEK", "element", len(elem) == 1 and "Mul" in elem[0].ops, f"writer element seek derives from {sorted(elem[0].names) if elem else None}; must include the same five terms as the reader", wbody.file, wbody.line, sample=True)
        idx = [d for d in seeks if {"index_offsets", "start_index"} <= d.names]
        ctx.ob("SEEK", "indices", len(idx) == 1 and "Mul" in idx[0].ops and (2 in idx[0].consts or any(c.endswith("size_of") for c in idx[0].calls)), f"writer index seek derives from {sorted(idx[0].names) if idx else None}", wbody.file, wbody.line)

    # ---- ENCODE: no float -> integer truncation in the attribute encoders (every such cast is preceded by round())
    enc_bodies = [b_ for n_, b_ in prog.bodies.items() if n_.startswith("model_file_operations::") and b_.j["kind"] in ("Fn", "AssocFn", "Closure")]
    n_casts = 0
    for b_ in enc_bodies:
        eix = index_of(b_)
        for _bi, _si, s_ in b_.stmts():
            rv = s_.get("rv", {})
            if rv.get("k") == "cast" and rv.get("ck") == "FloatToInt":
                n_casts += 1
                d_ = derive(eix, rv["a"])
                rounded = any(c_.endswith("::round") for c_ in d_.calls)
                ctx.ob("ENCODE", f"{b_.name.split('::')[-1]}|round-before-cast", rounded, f"{b_.name}: a float is converted to {rv.get('to')} " + ("after round()" if rounded else "by truncation (no round() on the way): bytes decoded to values just below an integer step are written one lower"), b_.file, int(s_["sp"]["at"].split(":")[-2]), sample=(n_casts == 1))
    ctx.floor("ENCODE", "float-to-integer casts in the attribute encoders", n_casts, 2)
    # the scale of the normalised-byte encoders: value * 255 (unsigned), (value + 1) * 127.5 (signed): the factor is
    # evaluated from the constants it is written with (255.0, MAX_BYTE_FLOAT / 2.0, a named constant ...)
    import struct as _struct

    def _fconst(ix_, o, depth=0):
        if depth > 8 or not isinstance(o, dict):
            return None
        k = o.get("k")
        if isinstance(k, dict) and k.get("ty") == "f32" and "bits" in k:
            return _struct.unpack("<f", _struct.pack("<I", int(k["bits"]) & 0xFFFFFFFF))[0]
        if isinstance(k, dict) and "bits" in k and k.get("ty") in ("u8", "u16", "u32", "i32", "usize"):
            return None
        r = ix_.resolve(o)
        if r[0] == "rv" and r[1]["k"] == "bin" and r[1]["op"] in ("Div", "Mul", "Add", "Sub"):
            a, b = _fconst(ix_, r[1]["a"], depth + 1), _fconst(ix_, r[1]["b"], depth + 1)
            if a is None or b is None:
                return None
            try:
                return {"Div": a / b, "Mul": a * b, "Add": a + b, "Sub": a - b}[r[1]["op"]]
            except ZeroDivisionError:
                return None
        if r[0] == "rv" and r[1]["k"] == "use":
            return _fconst(ix_, r[1]["a"], depth + 1)
        if r[0] == "cast" and r[1].get("ck") == "IntToFloat":
            ri = ix_.resolve(r[1]["a"])
            return float(ri[1]) if ri[0] == "const" else None
        return None

    for fn, want_scale, bias in (("write_byte_float4", 255.0, None), ("write_tangent", 127.5, 1.0)):
        b_ = next((prog.body(nme) for nme in prog.bodies.keys() if nme.endswith("::" + fn) and "MDL" in nme), None)
        if not b_:
            ctx.fail_closed("ENCODE", f"MDL::{fn} not found")
            continue
        scales = []
        for xb in prog.deep_bodies(b_.name):
            eix = index_of(xb)
            for _bi, _si, s_ in xb.stmts():
                rv = s_.get("rv", {})
                if not (rv.get("k") == "cast" and rv.get("ck") == "FloatToInt"):
                    continue
                # round(X) with X = A * S (either order)
                r0 = eix.resolve(rv["a"])
                x_op = r0[1]["args"][0] if r0[0] == "call" and eix.callee(r0[1]).endswith("::round") and r0[1]["args"] else rv["a"]
                rx = eix.resolve(x_op)
                sc = None
                if rx[0] == "rv" and rx[1]["k"] == "bin" and rx[1]["op"] == "Mul":
                    for s_side, a_side in ((rx[1]["b"], rx[1]["a"]), (rx[1]["a"], rx[1]["b"])):
                        v = _fconst(eix, s_side)
                        if v is not None:
                            sc = v
                            if bias is not None:
                                ra = eix.resolve(a_side)
                                if not (ra[0] == "rv" and ra[1]["k"] == "bin" and ra[1]["op"] == "Add" and bias in (_fconst(eix, ra[1]["a"]), _fconst(eix, ra[1]["b"]))):
                                    sc = ("no-bias", v)
                            break
                scales.append(sc)
        ctx.ob("ENCODE", f"{fn}|scale", bool(scales) and all(sc == want_scale for sc in scales), f"{fn} scales its components by {scales}; must be {'(v + 1) * ' if bias else 'v * '}{want_scale}", b_.file, b_.line, sample=(fn == "write_tangent"))
    for fn, (n_from, n_bits) in (("write_half4", (4, 4)), ("write_half2", (2, 2))):
        b_ = next((x for nme, x in prog.bodies.items() if nme.endswith("::" + fn) and "MDL" in nme), None)
        if b_:
            b_ = prog.body(b_.name)  # helpers and nested fns inlined
            calls = [((t_.get("res") or (t_["f"].get("k") or {}).get("fn") or "")).split("::")[-1] for _bi, t_ in b_.calls()]
            ok_h = calls.count("from_f32") == n_from and calls.count("to_bits") == n_bits
            det_h = f"{calls.count('from_f32')} x f16::from_f32 and {calls.count('to_bits')} x to_bits"
            if not ok_h and calls.count("from_f32") == 0:
                # the per-component encoding may sit in a closure mapped over the fixed-size array: once, applied N times
                import re as _re

                for cb_ in [x_ for x_ in prog.deep_bodies(b_.name) if x_.name != b_.name]:  # closure or local fn handed to map()
                    cc = [((t_.get("res") or (t_["f"].get("k") or {}).get("fn") or "")).split("::")[-1] for _bi, t_ in prog.body(cb_.name).calls()]
                    if cc.count("from_f32") == 1 and cc.count("to_bits") == 1:
                        for _bi, t_ in b_.calls():
                            gal = (t_["f"].get("k") or {}).get("ga", [])
                            cal = (t_.get("res") or (t_["f"].get("k") or {}).get("fn") or "")
                            if cal.endswith("array::<impl [T; N]>::map") and len(gal) >= 3 and gal[0] == "f32" and gal[1].isdigit() and ("closure" in gal[2] or cb_.name.split("::")[-1] in gal[2]):
                                if int(gal[1]) == n_from:
                                    ok_h = True
                                    det_h = f"f16::from_f32(..).to_bits() mapped over [f32; {gal[1]}]"
            ctx.ob("ENCODE", f"{fn}|half", ok_h, f"{fn} encodes with {det_h}", b_.file, b_.line)

    # ---- EDIT: edit operations store what the caller supplied; header recomputation derives from the model's own fields
    def field_assigns(body_):
        eix = index_of(body_)
        out = []
        for _bi, _si, s_ in body_.stmts():
            if s_["k"] != "assign":
                continue
            names_ = [pr.get("n") for pr in s_["lhs"]["p"] if isinstance(pr, dict) and "n" in pr]
            # writes through a &mut temp: (*_x).field with _x = &mut a.b[c]
            base = derive(eix, {"c": {"l": s_["lhs"]["l"], "p": [], "ty": ""}}) if s_["lhs"]["p"] and s_["lhs"]["p"][0] == "*" else None
            if not names_:
                continue
            rv = s_["rv"]
            d_ = None
            if rv["k"] in ("use", "cast"):
                d_ = derive(eix, rv["a"])
            elif rv["k"] == "bin":
                d_ = derive(eix, rv["a"])
                d2 = derive(eix, rv["b"])
                d_.names |= d2.names
                d_.calls |= d2.calls
                d_.params |= d2.params
                d_.consts |= d2.consts
                d_.ops |= d2.ops | {rv["op"].replace("WithOverflow", "")}
            if d_ is not None:
                out.append((names_, d_, s_, (base.names if base else set())))
        return out, eix

    rvb = prog.body("model::MDL::replace_vertices")
    if not rvb:
        ctx.fail_closed("EDIT", "model::MDL::replace_vertices not found")
    else:
        fa, eix = field_assigns(rvb)

        def has(target, need_names=(), need_params=(), need_calls=()):
            for names_, d_, _s, _b in fa:
                if names_[-1] == target and set(need_names) <= d_.names and set(need_params) <= d_.params and all(any(c_.endswith(nc) for c_ in d_.calls) for nc in need_calls):
                    return True
            return False

        ctx.ob("EDIT", "replace|submesh-offset", has("index_offset", {"index_offset"}, {6}), "replace_vertices stores submeshes[i].index_offset of the caller's sub-mesh list (parameter `submeshes`)", rvb.file, rvb.line, sample=True)
        ctx.ob("EDIT", "replace|submesh-count", has("index_count", {"index_count"}, {6}), "replace_vertices stores submeshes[i].index_count of the caller's sub-mesh list", rvb.file, rvb.line)
        # the rows of the header's sub-mesh table are addressed by the part's own hidden submesh_index: nothing in the
        # edit may overwrite that index (whole-struct copies of a caller-supplied SubMesh carry the caller's index)
        idx_writes = []
        for bi_, _si, st_ in rvb.stmts():
            if st_["k"] != "assign" or rvb.blocks[bi_]["cleanup"]:
                continue
            l_ = st_["lhs"]
            whole = (l_.get("ty") or "").endswith("model::SubMesh") and bool(l_["p"])
            fld = any(isinstance(pr, dict) and pr.get("n") == "submesh_index" for pr in l_["p"])
            if whole or fld:
                idx_writes.append(f"bb{bi_}")
        # ... and the row that receives the new range is addressed through the *edited part's* submesh_index, never
        # through the index carried by a caller-supplied SubMesh (which may come from another part or LOD)
        rows = []
        for _bi, t_ in rvb.calls():
            if (t_.get("res") or "").endswith("IndexMut<I>>::index_mut") and len(t_["args"]) == 2:
                d0_ = derive(eix, t_["args"][0])
                if {"model_data", "submeshes"} <= d0_.names:
                    d1_ = derive(eix, t_["args"][1])
                    names_, params_ = set(d1_.names), set(d1_.params)
                    if any("Zip<" in c_ or c_.endswith("Iterator::zip") for c_ in d1_.calls) and len({"#0", "#1"} & names_) == 1:
                        # the index comes from one side of a zip(part's sub-meshes, caller's list): only that side counts
                        side = 0 if "#0" in names_ else 1
                        zips = [z_ for _zb, z_ in rvb.calls() if (z_.get("res") or "").endswith("Iterator::zip") and len(z_["args"]) == 2]
                        if len(zips) == 1:
                            dz_ = derive(eix, zips[0]["args"][side])
                            names_, params_ = set(dz_.names) | {"submesh_index"} & names_, set(dz_.params)
                    rows.append("submesh_index" in d1_.names and {"lods", "parts"} <= names_ and 1 in params_ and 6 not in params_)
        ctx.ob("EDIT", "replace|row-of-edited-part", bool(rows) and all(rows), f"replace_vertices addresses model_data.submeshes by the edited part's own submesh_index at {sum(rows)} of {len(rows)} store(s) (not by the index inside the caller's SubMesh values)", rvb.file, rvb.line)
        ctx.ob("EDIT", "replace|keeps-submesh-index", not idx_writes, f"replace_vertices overwrites a SubMesh (or its submesh_index) {len(idx_writes)} time(s); the index addressing the header's sub-mesh table must stay the part's own", rvb.file, rvb.line)
        ctx.ob("EDIT", "replace|vertex-count", has("vertex_count", {"vertices"}, (), ("::len",)), "mesh.vertex_count = part.vertices.len()", rvb.file, rvb.line)
        ctx.ob("EDIT", "replace|index-count", has("index_count", {"indices"}, (), ("::len",)), "mesh.index_count = part.indices.len()", rvb.file, rvb.line)
        ctx.ob("EDIT", "replace|copies-input", has("vertices", (), {4}) and has("indices", (), {5}), "part.vertices / part.indices are copied from the caller's slices", rvb.file, rvb.line)
        # ... on every path: no return of the edit avoids the header recomputation
        uh_blocks = {bi_ for bi_, t_ in rvb.calls() if (t_.get("res") or "").endswith("MDL::update_headers")}

        def _returns_without(skip):
            seen, todo = set(), [0]
            while todo:
                x = todo.pop()
                if x in seen or x in skip or rvb.blocks[x]["cleanup"]:
                    continue
                seen.add(x)
                if rvb.blocks[x]["t"]["k"] == "return":
                    return True
                todo += list(rvb.succ(x))
            return False

        ctx.ob("EDIT", "replace|updates-headers", bool(uh_blocks) and not _returns_without(uh_blocks), "replace_vertices recomputes the headers on every path to its return (start indices depend on the sub-mesh ranges just stored, not only on the counts)", rvb.file, rvb.line)
    for fn in ("model::MDL::remove_shape_meshes", "model::MDL::add_shape_mesh"):
        b_ = prog.body(fn)
        ctx.ob("EDIT", f"{fn.split('::')[-1]}|updates-headers", bool(b_) and any((t_.get("res") or "").endswith("MDL::update_headers") for _bi, t_ in b_.calls()), f"{fn} recomputes the headers", b_.file if b_ else None, b_.line if b_ else None, trivial=True)
    # every edit that changes how many vertices a part holds stores the new count in the mesh record before the headers
    # are recomputed (update_headers sizes every vertex section as vertex_count x stride)
    for efn in ("model::MDL::add_shape_mesh",):
        ab2 = prog.body(efn)
        if not ab2:
            ctx.fail_closed("EDIT", f"{efn} not found")
            continue
        aix2 = index_of(ab2)
        grows = [bi_ for bi_, t_ in ab2.calls() if (t_.get("res") or "").split("::")[-1] in ("push", "extend", "extend_from_slice", "append", "insert", "resize") and "vertices" in derive(aix2, t_["args"][0]).names]
        fa2, _e2 = field_assigns(ab2)
        stores = [(n_, d_) for n_, d_, _s, _b in fa2 if n_[-1] == "vertex_count"]
        okc = bool(stores) and all("vertices" in d_.names and any(c_.endswith("::len") for c_ in d_.calls) for _n, d_ in stores)
        ctx.ob("EDIT", f"{efn.split('::')[-1]}|vertex-count", (not grows) or okc, f"{efn} appends to part.vertices at {len(grows)} site(s) and stores mesh.vertex_count {len(stores)} time(s) from {[sorted(d_.names & {'vertices', 'vertex_count'}) for _n, d_ in stores]}; the count must become part.vertices.len()", ab2.file, ab2.line)
    # ENCODE lanes: component k of every typed encoder's output array is computed from element k of its input
    n_lane = 0
    for en_, eb2 in sorted(prog.raw_bodies.items()):
        if not en_.startswith("model_file_operations::") or "::write_" not in en_ or "{closure" in en_:
            continue
        eix2 = index_of(eb2)
        for _bi, _si, st_ in eb2.stmts():
            rv_ = st_.get("rv") or {}
            if st_.get("k") != "assign" or rv_.get("k") != "agg" or rv_.get("ak") != "array" or not (2 <= len(rv_.get("ops", [])) <= 4):
                continue
            lanes_ = []
            for o_ in rv_["ops"]:
                d_ = derive(eix2, o_)
                idxs = set()
                for l_ in d_.locals:
                    for dd_ in eix2.defs.get(l_, []):
                        if dd_[0] != "assign":
                            continue
                        r2 = dd_[3]["rv"]
                        pl2 = (r2.get("a") or {}).get("c") or (r2.get("a") or {}).get("m") or r2.get("p") or {}
                        for pr_ in (pl2.get("p", []) if isinstance(pl2, dict) else []):
                            if isinstance(pr_, dict) and "i" in pr_:
                                c_ = eix2.resolve({"c": {"l": pr_["i"], "p": []}})
                                idxs.add(c_[1] if c_[0] == "const" else "?")
                            elif isinstance(pr_, dict) and "ci" in pr_:
                                idxs.add(pr_["ci"])
                lanes_.append(sorted(idxs, key=str))
            if all(len(l_) == 1 for l_ in lanes_):
                n_lane += 1
                ctx.ob("ENCODE", f"{en_.split('::')[-1]}|lanes", [l_[0] for l_ in lanes_] == list(range(len(lanes_))), f"{en_.split('::')[-1]}: output component k is computed from input element {[l_[0] for l_ in lanes_]}; must be {list(range(len(lanes_)))}", eb2.file, eb2.line, sample=(n_lane == 1))
    # (no floor: an encoder written with `vec.map(..)` has no such array and nothing to mis-index)

    uhb = prog.body("model::MDL::update_headers")
    if not uhb:
        ctx.fail_closed("EDIT", "model::MDL::update_headers not found")
    else:
        fa, eix = field_assigns(uhb)

        def has2(target, need_names=(), need_ops=(), need_calls=(), need_consts=()):
            for names_, d_, _s, _b in fa:
                if names_[-1] == target and set(need_names) <= d_.names and set(need_ops) <= d_.ops and set(need_consts) <= d_.consts and all(any(c_.endswith(nc) for c_ in d_.calls) for nc in need_calls):
                    return True
            return False

        ctx.ob("EDIT", "headers|start_index", has2("start_index", {"submeshes", "submesh_index", "index_offset"}), "mesh.start_index = submeshes[mesh.submesh_index].index_offset", uhb.file, uhb.line, sample=True)
        # order inside update_headers: a header field that the size formulas read (calculate_runtime_size /
        # calculate_stack_size) and that update_headers itself refreshes is refreshed BEFORE the formula runs — the
        # runtime size feeds every LOD data offset, so a count refreshed afterwards leaves them one edit behind
        size_calls = [(bi_, t_) for bi_, t_ in uhb.calls() if (t_.get("res") or "").split("::")[-1] in ("calculate_runtime_size", "calculate_stack_size")]
        if not size_calls:
            ctx.fail_closed("EDIT", "update_headers: no call of calculate_runtime_size / calculate_stack_size found")
        read_by_formula = set()
        for _bi, t_ in size_calls:
            fb_ = prog.body(t_.get("res"))
            if fb_:
                for _b, _s, st_ in fb_.stmts():
                    rv_ = st_.get("rv") or {}
                    for o_ in (rv_.get("a"), rv_.get("b")):
                        pl_ = (o_ or {}).get("c") or (o_ or {}).get("m") if isinstance(o_, dict) else None
                        for pr_ in (pl_ or {}).get("p", []):
                            if isinstance(pr_, dict) and pr_.get("n") and str(pr_.get("a", "")).endswith(("ModelHeader", "ModelFileHeader")):
                                read_by_formula.add(pr_["n"])
        n_ord = 0
        for bi_, si_, st_ in uhb.stmts():
            if st_.get("k") != "assign":
                continue
            prj = [pr_ for pr_ in st_["lhs"].get("p", []) if isinstance(pr_, dict) and pr_.get("n")]
            if not prj or not str(prj[-1].get("a", "")).endswith(("ModelHeader", "ModelFileHeader")) or prj[-1]["n"] not in read_by_formula:
                continue
            n_ord += 1
            late = [cb_ for cb_, ct_ in size_calls if not uhb.dominates(bi_, cb_)]  # a statement precedes its own block's call
            ctx.ob("EDIT", f"headers|refreshed-before-sizes|{prj[-1]['n']}", not late, f"update_headers refreshes header.{prj[-1]['n']}, which the size formulas read; the store must dominate the size computation (it does not for {len(late)} of {len(size_calls)} formula call(s))", uhb.file, uhb.line, sample=(n_ord == 1))
        ctx.floor("EDIT", "header counts refreshed by update_headers that its size formulas read", n_ord, 3)
        acc_ok = False
        for _bi, _si, s_ in uhb.stmts():
            rv = s_.get("rv", {})
            if rv.get("k") == "bin" and rv["op"].startswith("Mul"):
                d_ = derive(eix, rv["a"])
                d2 = derive(eix, rv["b"])
                if "vertex_count" in (d_.names | d2.names) and "vertex_buffer_strides" in (d_.names | d2.names):
                    acc_ok = True
        ctx.ob("EDIT", "headers|stream-size", acc_ok and has2("vertex_buffer_offsets"), "vertex_buffer_offsets[i] = running offset, advanced by vertex_count * vertex_buffer_strides[i]", uhb.file, uhb.line)
        ctx.ob("EDIT", "headers|lod-vertex-size", has2("vertex_buffer_size"), "lod.vertex_buffer_size is recomputed", uhb.file, uhb.line, trivial=True)
        pad_consts = set()
        for _bi, _si, s_ in uhb.stmts():
            rv = s_.get("rv", {})
            if rv.get("k") == "bin" and rv["op"].replace("WithOverflow", "") in ("Rem", "Sub"):
                for o in (rv["a"], rv["b"]):
                    v = const_int(o)
                    if v is not None and v > 1:
                        pad_consts.add((rv["op"].replace("WithOverflow", ""), v))
        ctx.ob("EDIT", "headers|index-padding-16", ("Rem", 16) in pad_consts and ("Sub", 16) in pad_consts and all(v == 16 for _o, v in pad_consts), f"index padding arithmetic constants {sorted(pad_consts)}; sections are padded to 16 bytes", uhb.file, uhb.line)
        ctx.ob("EDIT", "headers|vertex-data-offset", has2("vertex_data_offset", (), {"Add"}), "lod.vertex_data_offset = data_offset + running offset", uhb.file, uhb.line)
        ctx.ob("EDIT", "headers|index-data-offset", has2("index_data_offset", (), {"Add"}), "lod.index_data_offset = data_offset + running offset (after the vertex section)", uhb.file, uhb.line)
        ctx.ob("EDIT", "headers|sizes", has2("stack_size", (), (), ("::calculate_stack_size",)) and has2("runtime_size", (), (), ("::calculate_runtime_size",)), "stack_size / runtime_size come from their calculators", uhb.file, uhb.line)
        do_ok = False
        names_l = {v_: k_ for k_, v_ in uhb.local_names().items()}
        if "data_offset" in names_l:
            d_ = derive(eix, {"c": {"l": names_l["data_offset"], "p": [], "ty": "u32"}})
            do_ok = {"runtime_size", "stack_size"} <= d_.names and (0x44 in d_.consts or any(c_.endswith("size_of") for c_ in d_.calls))
        ctx.ob("EDIT", "headers|data-offset", do_ok, "data_offset = runtime_size + size_of::<ModelFileHeader>() + stack_size", uhb.file, uhb.line)
        for tgt, src in (("vertex_buffer_size", "vertex_buffer_size"), ("vertex_offsets", "vertex_data_offset"), ("index_buffer_size", "index_buffer_size"), ("index_offsets", "index_data_offset")):
            ok = any(n_[-1] == tgt and "file_header" in n_ and src in d_.names and "lods" in d_.names for n_, d_, _s, _b in fa)
            ctx.ob("EDIT", f"headers|file-header.{tgt}", ok, f"file_header.{tgt}[i] = model_data.lods[i].{src}", uhb.file, uhb.line)
        for tgt, src in (("shape_count", "shapes"), ("shape_mesh_count", "shape_meshes"), ("shape_value_count", "shape_values")):
            ok = any(n_[-1] == tgt and src in d_.names and any(c_.endswith("::len") for c_ in d_.calls) for n_, d_, _s, _b in fa)
            ctx.ob("EDIT", f"headers|{tgt}", ok, f"header.{tgt} = {src}.len()", uhb.file, uhb.line)

    # ---- DECL
    vw = prog.body("model_vertex_declarations::vertex_element_writer")
    if not vw:
        ctx.fail_closed("DECL", "vertex_element_writer not found")
    else:
        consts = set()
        for _bi, _si, s in vw.stmts():
            rv = s.get("rv", {})
            if rv.get("k") == "bin" and rv["op"].replace("WithOverflow", "") in ("Mul", "Add", "Sub"):
                for o in (rv["a"], rv["b"]):
                    v = const_int(o)
                    if v is not None:
                        consts.add((rv["op"].replace("WithOverflow", ""), v))
        ctx.ob("DECL", "padding", ("Mul", 8) in consts and ("Sub", 1) in consts and all(v in (8, 1, 17) for _o, v in consts), f"vertex_element_writer arithmetic constants {sorted(consts)}; must skip (17 - 1 - elements) * 8", vw.file, vw.line)
        term = None
        for _bi, _si, s in vw.stmts():
            rv = s.get("rv", {})
            if rv.get("k") == "agg" and rv.get("adt") == "model_vertex_declarations::VertexElement":
                ops = dict(zip(rv["fields"], rv["ops"]))
                k = ops["stream"].get("k") or {}
                term = k.get("uneval") or const_int(ops["stream"])
                if term is None:
                    from ..panic import BodyIndex

                    r = BodyIndex(vw).resolve(ops["stream"])
                    term = r[1] if r[0] == "const" else None
        if term is None:
            # the literal may have been promoted to a constant: &VertexElement with bytes ff 00 00 00 00
            for _bi, _si, s in vw.stmts():
                rv = s.get("rv", {})
                k = (rv.get("a") or {}).get("k") if rv.get("k") == "use" else None
                if k and k.get("ty", "").endswith("model_vertex_declarations::VertexElement") and "bytes" in k:
                    term = int(k["bytes"][:2], 16)
        ctx.ob("DECL", "terminator", term in ("model_vertex_declarations::END_OF_STREAM", 0xFF), f"terminator element has stream = {term}", vw.file, vw.line)


def uv_combine_order(body, blocks):
    """[(field, index)] of the array literal built in a UV writer arm."""
    from ..mir import op_place
    from ..panic import BodyIndex

    ix = BodyIndex(body)
    cands = []
    for bi in sorted(blocks):
        for s in body.blocks[bi]["s"]:
            rv = s.get("rv", {})
            if rv.get("k") == "agg" and rv.get("ak") == "array" and len(rv["ops"]) == 4:
                cands.append(rv)
    if not cands:
        # the array may be built before the inner match: follow the encoder's data argument back to its literal
        for bi in sorted(blocks):
            t = body.blocks[bi]["t"]
            if t["k"] == "call" and (t.get("res") or "").split("::")[-1].startswith("write_") and len(t["args"]) >= 2:
                p = op_place(t["args"][1])
                for _ in range(6):
                    if p is None:
                        break
                    d = ix.single_def(p["l"])
                    if not d or d[0] != "assign":
                        break
                    rv = d[3]["rv"]
                    if rv["k"] == "agg" and rv.get("ak") == "array" and len(rv["ops"]) == 4:
                        cands.append(rv)
                        break
                    p = rv["p"] if rv["k"] == "ref" else op_place(rv["a"]) if rv["k"] in ("use", "cast") else None
    for rv in cands:
        if True:
            if True:
                out = []
                for o in rv["ops"]:
                    r = ix.resolve(o)
                    p = r[1] if r[0] == "place" else op_place(o)
                    fld = None
                    idx = None
                    if p:
                        for pr in p["p"]:
                            if isinstance(pr, dict) and pr.get("n") in ("uv0", "uv1"):
                                fld = pr["n"]
                            if isinstance(pr, dict) and "ci" in pr:
                                idx = pr["ci"]
                            if isinstance(pr, dict) and "i" in pr:
                                rr = ix.resolve({"c": {"l": pr["i"], "p": [], "ty": "usize"}})
                                idx = rr[1] if rr[0] == "const" else None
                    out.append((fld, idx))
                if any(f for f, _i in out):
                    return out
    return None
