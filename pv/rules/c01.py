"""C01 — archive lookup finds every stored game path, and only stored paths.

Decided:
  LOWER    every byte string hashed by calculate_partial_hash / calculate_hash passes through lower-casing
  SPLIT    index1 hash: name = hash of the part after the LAST '/', path = hash of the part before it
  DECODE   entry word decode: synonym = w & 1, dat id = (w & 0b1110) >> 1, offset = (w & !0xF) * 8
  W1/W3    SqPack header, index header (index type @300), segment descriptors, 16-/8-byte entries, folder entries;
           entry/data/folder table counts divide by the element's serialised size for every index type
  MEMO     the index cache is a pure memo: only cache_index_file inserts, with key == the file name it parsed;
           nothing reachable from exists/find_offset/extract writes repositories or game_directory; SqPackIndex has no
           interior mutability and its lookups take &self  => answers cannot depend on earlier queries
  REPO     the token compared with a repository name is a single path component (not the rest of the path)
  CATEGORY the 15 category directory names map to their Category variants and the variants carry the category ids
           that index/dat file names are numbered with (compiler-evaluated discriminants against the reference table)
  PROV     extract reads at the offset / dat id / chunk of the matched entry; find_entry copies dat id and offset
           unswapped; both index and index2 candidates are enumerated for a chunk range covering 0..=9
Not decided: CRC values (C12 decides the table and algorithm shape), behaviour across real chunk sets (execution).
"""
import re

from .. import wire as W
from ..mir import const_int, op_place
from ..prov import derive, index_of
from ..sym import Explorer, N, is_const, show, walk
from ..wrules import model, w1
from .c12 import LOWER, contains_call

TECHNIQUE = "static analysis: must-pass-through (lower-casing) and string-shape tags on reconstructed expressions; operator-tree match of the entry-word decode; binrw layout/divisor rules per index type; who-may-write and freeze facts for the memo; derives-from obligations on the lookup chain; decision table of string_to_category and compiler-evaluated Category discriminants against the game's category list"
TRUSTED = ["rustc nightly MIR, layout and freeze facts", "pv.sym expression reconstruction", "pv/wire.py binrw model", "spec/layouts.txt (Lumina SqPack structs)"]

# top-level directory of a game path -> (Category variant, id in the archive file names); SqPack category list of the game
CATEGORIES = {
    "common": ("Common", 0x00), "bgcommon": ("BackgroundCommon", 0x01), "bg": ("Background", 0x02), "cut": ("Cutscene", 0x03),
    "chara": ("Character", 0x04), "shader": ("Shader", 0x05), "ui": ("UI", 0x06), "sound": ("Sound", 0x07), "vfx": ("VFX", 0x08),
    "ui_script": ("UIScript", 0x09), "exd": ("EXD", 0x0A), "game_script": ("GameScript", 0x0B), "music": ("Music", 0x0C),
    "sqpack_test": ("SqPackTest", 0x12), "debug": ("Debug", 0x13),
}


def strip_refs(e):
    while isinstance(e, tuple) and e[0] in ("ref", "deref") and isinstance(e[1], tuple):
        e = e[1]
    return e


TYPES = ["sqpack::SqPackHeader", "sqpack::index::SqPackIndexHeader", "sqpack::index::SegementDescriptor", "sqpack::index::FileEntry", "sqpack::index::FolderEntry", "sqpack::index::DataEntry"]


def shape(e, depth=0):
    """String-shape tag of an expression built from the path parameter: whole / suffix / component / top."""
    if depth > 12 or not isinstance(e, tuple):
        return "top"
    while e[0] in ("ref", "deref") and isinstance(e[1], tuple):
        e = e[1]
    if e[0] == "p":
        return "whole"
    if e[0] == "fld" and isinstance(e[1], tuple) and e[1][0] == "fld" and isinstance(e[1][1], tuple) and e[1][1][0] == "down":
        # ((x as Some).0).k  with x = split_once(..) / rsplit_once(..)
        inner = e[1][1][1]
        inner = _through_try(inner)
        if isinstance(inner, tuple) and inner[0] == "call" and inner[1].endswith("::split_once"):
            return "component" if e[2] == 0 else "suffix"
        if isinstance(inner, tuple) and inner[0] == "call" and inner[1].endswith("::rsplit_once"):
            return "prefix" if e[2] == 0 else "component"
    if e[0] == "fld" and isinstance(e[1], tuple) and e[1][0] == "down":
        inner = _through_try(e[1][1])
        # (next(split(x, '/')) as Some).0 : first component of x
        if isinstance(inner, tuple) and inner[0] == "call" and inner[1].endswith("::next"):
            it = inner[2][0] if inner[2] else None
            if any(isinstance(t, tuple) and t[0] == "call" and (t[1].endswith("::split") or t[1].endswith("::splitn")) for t in walk(it)):
                return "component"
        if isinstance(inner, tuple) and inner[0] == "fld":
            return shape(inner, depth + 1)
        # (branch(x) as Continue).0 -> x
        return shape(inner, depth + 1) if isinstance(inner, tuple) else "top"
    if e[0] == "fld" and isinstance(e[2], int) and isinstance(e[1], tuple) and e[1][0] in ("u", "h", "fld", "call"):
        # tokens.1 where tokens = (split_once(..) as Some).0
        base = e[1]
        if base[0] == "fld" and isinstance(base[1], tuple) and base[1][0] == "down":
            inner = _through_try(base[1][1])
            if isinstance(inner, tuple) and inner[0] == "call" and inner[1].endswith("::split_once"):
                return "component" if e[2] == 0 else "suffix"
    return "top"


def _through_try(e):
    """x? : (branch(x) as Continue).0 is handled by the caller; here unwrap `branch(x)` to x."""
    while isinstance(e, tuple) and e[0] == "call" and (e[1].endswith("Try>::branch") or e[1].endswith("::ok_or") or e[1].endswith("Option::<T>::ok")):
        e = e[2][0]
    return e


def run(ctx):
    prog = ctx.prog
    wm = model(ctx)
    ctx.decided("lower-casing before every path hash (LOWER); last-separator split for index1 (SPLIT)")
    ctx.decided("entry word decode masks/shift/scale (DECODE)")
    ctx.decided("SqPack/index header and entry layouts; table counts per index type (W1/W3)")
    ctx.decided("index cache is a pure memo; lookups cannot depend on query history (MEMO)")
    ctx.decided("repository token is one path component (REPO)")
    ctx.decided("category directory names and category ids equal the reference table (CATEGORY)")
    ctx.decided("index / index2 / dat file-name templates and the provenance of each formatted field (NAMING)")
    ctx.decided("lookup chain provenance: offset, dat id, chunk, both index kinds per chunk (PROV)")
    ctx.not_decided("CRC values; which chunk files exist at run time; behaviour of synonym entries")

    # ---- LOWER + SPLIT
    n_sinks = 0
    for fn in ("sqpack::index::SqPackIndex::calculate_partial_hash", "sqpack::index::SqPackIndex::calculate_hash"):
        fb = prog.body(fn)
        if not fb:
            ctx.fail_closed("LOWER", f"{fn} not found")
            continue
        seen = set()
        for p in Explorer(fb).explore():
            for (bb, callee, args, _res) in p.events:
                if callee == "crc::Jamcrc::checksum" and bb not in seen:
                    seen.add(bb)
                    n_sinks += 1
                    ctx.ob("LOWER", f"{fn.split('::')[-1]}|checksum-input", contains_call(args[1], LOWER), f"{fn}: hashed bytes = {show(args[1])[:140]}; must derive from a lower-casing call", fb.file, fb.line, sample=(n_sinks == 1))
    ctx.floor("LOWER", "Jamcrc::checksum call sites in the hash functions", n_sinks, 4)
    hb = prog.body("sqpack::index::SqPackIndex::calculate_hash")
    if hb:
        split_ok = False
        det = ""
        for p in Explorer(hb).explore():
            if p.end != "return":
                continue
            r = p.env.local(0)
            if isinstance(r, tuple) and r[0] == "agg" and r[2].endswith("Hash::SplitPath"):
                adt = prog.adts["sqpack::index::Hash"]
                names = [f["name"] for v in adt["variants"] if v["name"] == "SplitPath" for f in v["fields"]]
                vals = dict(zip(names, r[3]))

                def part(e):
                    # split_at(lower, rfind(lower,'/')) -> .0 directory, .1 file name (sliced [1..])
                    # rsplit_once(lower, '/')            -> .0 directory, .1 file name (separator already dropped)
                    k = None
                    for t in walk(e):
                        if isinstance(t, tuple) and t[0] == "fld" and isinstance(t[1], tuple) and t[1][0] == "call" and t[1][1].endswith("::split_at"):
                            k = t[2]
                        if isinstance(t, tuple) and t[0] == "fld" and isinstance(t[2], int) and isinstance(t[1], tuple) and t[1][0] == "fld" and isinstance(t[1][1], tuple) and t[1][1][0] == "down":
                            inner = t[1][1][1]
                            if isinstance(inner, tuple) and inner[0] == "call" and inner[1].endswith("::rsplit_once") and any(is_const(a) and a[1] == 47 for a in inner[2]):
                                k = t[2]
                    return k

                has = lambda suffix, e: any(isinstance(t, tuple) and t[0] == "call" and t[1].endswith(suffix) for t in walk(e))
                by_rsplit = has("::rsplit_once", r)
                last_sep = (has("::rfind", r) or by_rsplit) and not has("str>::find", r) and not has("str>::split_once", r)
                skip1 = by_rsplit or any(isinstance(t, tuple) and t[0] == "agg" and "Range" in t[2] and is_const(N(t[3][0])) and N(t[3][0])[1] == 1 for t in walk(vals.get("name")))
                det = f"name <- split part {part(vals.get('name'))}, path <- split part {part(vals.get('path'))}, last separator {last_sep}, separator skipped {skip1}"
                split_ok = part(vals.get("name")) == 1 and part(vals.get("path")) == 0 and last_sep and skip1
        ctx.ob("SPLIT", "index1-name-path", split_ok, f"index1 hash: {det}; name must hash the text after the last '/', path the text before it", hb.file, hb.line, sample=True)
        # index type dispatch: Index1 -> SplitPath, Index2 -> FullPath(whole lower-cased path)
        kinds = {}
        for p in Explorer(hb).explore():
            if p.end != "return":
                continue
            r = p.env.local(0)
            sel = [c for d, c in p.conds if isinstance(d, tuple) and d[0] == "discr" and any(isinstance(t, tuple) and t[0] == "fld" and t[2] == "index_type" for t in walk(d))]
            if sel and isinstance(r, tuple) and r[0] == "agg":
                kinds[sel[0][1]] = r[2].split("::")[-1]
            # `index_type == IndexType::X` (derived PartialEq against a constant variant)
            for d, c in p.conds:
                if isinstance(d, tuple) and d[0] == "call" and "IndexType as std::cmp::PartialEq>::" in d[1] and isinstance(r, tuple) and r[0] == "agg":
                    kb = [a for a in d[2] if isinstance(a, tuple) and a[0] == "kb" and "IndexType" in a[2]]
                    if kb and any(isinstance(t, tuple) and t[0] == "fld" and t[2] == "index_type" for a in d[2] for t in walk(a)):
                        cv = int.from_bytes(bytes.fromhex(kb[0][1]), "little")
                        is_eq = d[1].endswith("::eq")
                        holds = (c[0] == "ne" and 0 in c[1]) or (c[0] == "eq" and c[1] == 1)
                        all_v = [int(v["discr"]) for v in prog.adts["sqpack::index::IndexType"]["variants"]]
                        vs = [cv] if holds == is_eq else [v for v in all_v if v != cv]
                        for v in vs:
                            kinds[v] = r[2].split("::")[-1]
        it_vals = {v["name"]: int(v["discr"]) for v in prog.adts["sqpack::index::IndexType"]["variants"]}
        ctx.ob("SPLIT", "hash-kind-per-index-type", kinds.get(it_vals.get("Index1")) == "SplitPath" and kinds.get(it_vals.get("Index2")) == "FullPath", f"hash kind by index type: {kinds} (Index1={it_vals.get('Index1')}, Index2={it_vals.get('Index2')})", hb.file, hb.line)

    # ---- DECODE
    db = next((b for n, b in prog.bodies.items() if n.startswith("<sqpack::index::FileEntryData as binrw::BinRead>::read_options")), None)
    if not db:
        ctx.fail_closed("DECODE", "BinRead for FileEntryData not found")
    else:
        vals = None
        for p in Explorer(db).explore():
            if p.end != "return":
                continue
            r = p.env.local(0)
            for t in walk(r):
                if isinstance(t, tuple) and t[0] == "agg" and t[2].startswith("sqpack::index::FileEntryData"):
                    adt = prog.adts["sqpack::index::FileEntryData"]
                    vals = dict(zip([f["name"] for f in adt["variants"][0]["fields"]], [N(x) for x in t[3]]))
        if not vals:
            ctx.fail_closed("DECODE", "FileEntryData construction not found")
        else:
            def triple(e):
                """(mask, shift, scale) of ((w & M) >> S) * K (missing parts: None / 0 / 1); w = the u32 that was read."""
                mask, shift, scale = None, 0, 1
                cur = e
                ne_zero = False
                if isinstance(cur, tuple) and cur[0] == "bin" and cur[1] in ("Eq", "Ne"):
                    sides = [cur[2], cur[3]]
                    k = [s for s in sides if is_const(s)]
                    if k and len(k) == 1 and (cur[1] == "Eq" or k[0][1] == 0):
                        ne_zero = cur[1] == "Ne"
                        cur = [s for s in sides if not is_const(s)][0]
                        scale = ("eq", k[0][1])
                if isinstance(cur, tuple) and cur[0] == "bin" and cur[1] in ("Mul", "WMul"):
                    k = [s for s in (cur[2], cur[3]) if is_const(s)]
                    if k:
                        scale = k[0][1]
                        cur = cur[3] if cur[2] == k[0] else cur[2]
                post_mask = None
                if isinstance(cur, tuple) and cur[0] == "bin" and cur[1] == "BitAnd" and any(isinstance(x, tuple) and x[0] == "bin" and x[1] == "Shr" for x in (cur[2], cur[3])):
                    # (w >> s) & m   ==   (w & (m << s)) >> s
                    k = [x for x in (cur[2], cur[3]) if is_const(x)]
                    if k:
                        post_mask = k[0][1]
                        cur = cur[3] if cur[2] == k[0] else cur[2]
                if isinstance(cur, tuple) and cur[0] == "bin" and cur[1] == "Shr" and is_const(cur[3]):
                    shift = cur[3][1]
                    cur = cur[2]
                if post_mask is not None:
                    mask = (post_mask << shift) & 0xFFFFFFFF
                if mask is None and isinstance(cur, tuple) and cur[0] == "bin" and cur[1] == "BitAnd":
                    k = [s for s in (cur[2], cur[3]) if is_const(s)]
                    if k:
                        mask = k[0][1] & 0xFFFFFFFF
                        cur = cur[3] if cur[2] == k[0] else cur[2]
                    else:
                        nk = [s for s in (cur[2], cur[3]) if isinstance(s, tuple) and s[0] == "un" and s[1] == "Not" and is_const(s[2])]
                        if nk:
                            mask = (~nk[0][2][1]) & 0xFFFFFFFF
                            cur = cur[3] if cur[2] == nk[0] else cur[2]
                is_word = any(isinstance(t, tuple) and t[0] == "call" and "read_options" in t[1] for t in walk(cur))
                if ne_zero and mask is not None and mask & (mask - 1) == 0 and shift == 0:
                    scale = ("eq", mask)  # (w & single bit) != 0  ==  (w & bit) == bit
                return (mask, shift, scale, is_word)

            want = {"is_synonym": (1, 0, ("eq", 1), True), "data_file_id": (0b1110, 1, 1, True), "offset": (0xFFFFFFF0, 0, 8, True)}
            for fld, w_ in want.items():
                got = triple(vals.get(fld))
                ctx.ob("DECODE", fld, got == w_, f"FileEntryData.{fld} = {show(vals.get(fld))[:100]} -> (mask, shift, scale) = {got[:3]}; reference {w_[:3]}", db.file, db.line, sample=(fld == "offset"))

    # ---- W1 / W3
    n = w1(ctx, TYPES)
    # the tables of an index file sit at the absolute offsets their segment descriptors give: each table field is read
    # after `seek_before = SeekFrom::Start(<its own descriptor>.offset ..)`
    from .. import wire as _W

    si_ = wm.items.by_path.get("sqpack::index::SqPackIndex")
    if not si_:
        ctx.fail_closed("W1", "sqpack::index::SqPackIndex not found")
    else:
        want_s = {"index_header": "sqpack_header.size", "entries": "index_header.file_descriptor.offset", "data_entries": "index_header.data_descriptor.offset", "folder_entries": "index_header.folder_descriptor.offset"}
        n_sb = 0
        for f_ in si_["fields"]:
            if f_["name"] not in want_s:
                continue
            sb_ = [d_.text.replace(" ", "") for d_ in _W.directives(f_["attrs"]) if d_.name == "seek_before" and "r" in d_.side]
            n_sb += 1
            ok_ = len(sb_) == 1 and sb_[0].startswith("SeekFrom::Start(") and want_s[f_["name"]] in sb_[0] and not any(o_ in sb_[0] for o_ in ("-", "*", "/", ">>", "<<"))
            ctx.ob("W1", f"seek|SqPackIndex.{f_['name']}", ok_, f"SqPackIndex.{f_['name']} is read after seek_before = {sb_}; must be SeekFrom::Start({want_s[f_['name']]})", si_["file"], si_["line"])
        ctx.floor("W1", "table seeks of the index file", n_sb, 4)
    ctx.floor("W1", "SqPack index types (FileEntry counted per index type)", n, 7)
    idx = wm.items.by_path.get("sqpack::index::SqPackIndex")
    if not idx:
        ctx.fail_closed("W3", "sqpack::index::SqPackIndex not found")
    else:
        fe = wm.items.by_path["sqpack::index::FileEntry"]
        n3 = 0
        for f in idx["fields"]:
            cnt = [d for d in W.directives(f["attrs"]) if d.name == "count" and "r" in d.side]
            if not cnt:
                continue
            toks = cnt[0].value
            if "/" not in toks:
                continue
            div = toks[toks.index("/") + 1 :]
            inner = wm.generic_inner(f["tyt"], "Vec")
            n3 += 1
            if len(div) == 1 and W.int_lit(div[0]) is not None:
                k = W.int_lit(div[0])
                sz = wm.type_size(inner, idx)
                ctx.ob("W3", f"SqPackIndex.{f['name']}", sz == k, f"SqPackIndex.{f['name']}: count = {cnt[0].text}; element serialises to {sz} bytes, divisor {k}", idx["file"], f["line"])
            elif div and div[0] == "if":
                # if <cond> { a } else { b }
                groups = [t for t in div if isinstance(t, dict) and t.get("g") == "{"]
                cond = div[1 : div.index(groups[0])] if groups else []
                a = W.int_lit(groups[0]["t"][0]) if groups and len(groups[0]["t"]) == 1 else None
                b = W.int_lit(groups[1]["t"][0]) if len(groups) > 1 and len(groups[1]["t"]) == 1 else None
                cond_txt = "".join(t if isinstance(t, str) else "?" for t in cond)
                for variant in ("Index1", "Index2"):
                    hit = cond_txt.endswith("==IndexType::" + variant)
                    other = cond_txt.endswith("==IndexType::" + ("Index2" if variant == "Index1" else "Index1"))
                    k = a if hit else (b if other else None)
                    sz = wm.item_size(fe, {"index_type": variant})
                    ctx.ob("W3", f"SqPackIndex.{f['name']}|{variant}", k is not None and "index_type" in cond_txt and sz == k, f"SqPackIndex.{f['name']}: count = {cnt[0].text}; under {variant} an entry serialises to {sz} bytes and the divisor is {k}", idx["file"], f["line"], sample=True)
            else:
                ctx.fail_closed("W3", f"SqPackIndex.{f['name']}: unrecognised divisor {cnt[0].text}")
        ctx.floor("W3", "counted tables of SqPackIndex", n3, 3)

    # ---- MEMO
    writers = {"index_files": set(), "repositories": set(), "game_directory": set()}
    for name, b in prog.bodies.items():
        if name.endswith("GameData::from_existing"):
            continue  # the constructor
        for _bi, _si, s in b.stmts():
            if s["k"] != "assign":
                continue
            # direct assignment into the field, or a mutable borrow of (a part of) it: any write goes through one of these
            for pr in s["lhs"]["p"]:
                if isinstance(pr, dict) and pr.get("a") == "gamedata::GameData" and pr.get("n") in writers:
                    writers[pr["n"]].add(name)
            rv = s["rv"]
            if rv.get("k") in ("ref", "rawptr") and rv.get("mut") not in (False, "Const", "Not"):
                for pr in rv["p"]["p"]:
                    if isinstance(pr, dict) and pr.get("a") == "gamedata::GameData" and pr.get("n") in writers:
                        writers[pr["n"]].add(name)
    # any GameData state that code reachable from the queries mutates is query-history state: only the verified memo may be
    gd = prog.adts.get("gamedata::GameData")
    all_fields = [f["name"] for f in gd["variants"][0]["fields"]] if gd else []
    ids_q, _pq = prog.reach(["gamedata::GameData::exists", "gamedata::GameData::find_offset", "gamedata::GameData::extract"])
    reach_q = {prog.instances[i]["def"] for i in ids_q}
    state_writes = {}
    for name, b in prog.bodies.items():
        if name not in reach_q:
            continue
        for _bi, _si, s in b.stmts():
            if s["k"] != "assign":
                continue
            places = [s["lhs"]]
            rv = s["rv"]
            if rv.get("k") in ("ref", "rawptr") and rv.get("mut") not in (False, "Const", "Not"):
                places.append(rv["p"])
            for pl in places if (s["lhs"]["p"] or len(places) > 1) else []:
                for pr in pl["p"]:
                    if isinstance(pr, dict) and pr.get("a") == "gamedata::GameData" and pr.get("n") in all_fields:
                        if pl is s["lhs"] or pl is not s["lhs"]:
                            state_writes.setdefault(pr["n"], set()).add(name)
    extra_state = {k: sorted(v) for k, v in state_writes.items() if not (k == "index_files" and v <= {"gamedata::GameData::cache_index_file"})}
    ctx.ob("MEMO", "query-state", not extra_state, f"GameData fields mutated by code reachable from exists/find_offset/extract besides the verified index memo: {extra_state}; any such field makes answers depend on earlier queries unless it is a memo keyed by everything its value depends on", "src/gamedata.rs", None)
    ctx.floor("MEMO", "GameData fields", len(all_fields), 3)
    ctx.ob("MEMO", "who-may-write|index_files", writers["index_files"] <= {"gamedata::GameData::cache_index_file"}, f"functions mutating GameData.index_files: {sorted(writers['index_files'])}; only cache_index_file may", "src/gamedata.rs", None, sample=True)
    ids, _par = prog.reach(["gamedata::GameData::exists", "gamedata::GameData::find_offset", "gamedata::GameData::extract"])
    reach_defs = {prog.instances[i]["def"] for i in ids}
    bad = sorted((writers["repositories"] | writers["game_directory"]) & reach_defs)
    ctx.ob("MEMO", "queries-do-not-write-config", not bad, f"functions reachable from exists/find_offset/extract that write repositories/game_directory: {bad}", "src/gamedata.rs", None)
    cb = prog.body("gamedata::GameData::cache_index_file")
    if not cb:
        ctx.fail_closed("MEMO", "gamedata::GameData::cache_index_file not found")
    else:
        ok = False
        det = ""
        for p in Explorer(cb).explore():
            for (_bb, callee, args, _res) in p.events:
                if callee.endswith("::insert") and len(args) == 3:
                    key_roots = {t for t in walk(args[1]) if isinstance(t, tuple) and t[0] == "p"}
                    val_src = [t for t in walk(args[2]) if isinstance(t, tuple) and t[0] == "call" and t[1] == "sqpack::index::SqPackIndex::from_existing"]
                    det = f"insert(key <- {sorted(key_roots)}, value <- {show(args[2])[:80]})"
                    key_calls = {t[1].split("::")[-1] for t in walk(args[1]) if isinstance(t, tuple) and t[0] == "call"}
                    ok = key_roots == {("p", 2)} and key_calls <= {"to_string", "to_owned", "into", "from", "clone"} and bool(val_src) and val_src[0][2] == (("p", 2),)
        ctx.ob("MEMO", "key-is-parsed-file", ok, f"cache_index_file: {det}; the cached value must be SqPackIndex::from_existing(k) for the same k used as key", cb.file, cb.line)
    adt = prog.adts.get("sqpack::index::SqPackIndex")
    ctx.ob("MEMO", "no-interior-mutability", bool(adt) and adt.get("freeze") is True, f"SqPackIndex is Freeze (no UnsafeCell): {adt.get('freeze') if adt else None}", "src/sqpack/index.rs", None)
    for m in ("find_entry", "exists", "calculate_hash"):
        b = prog.body(f"sqpack::index::SqPackIndex::{m}")
        ctx.ob("MEMO", f"&self|{m}", bool(b) and b.locals[1]["ty"] == "&sqpack::index::SqPackIndex", f"SqPackIndex::{m} takes {b.locals[1]['ty'] if b else None}", "src/sqpack/index.rs", None, trivial=True)

    # ---- REPO
    pb = prog.body("gamedata::GameData::parse_repository_category")
    if not pb:
        ctx.fail_closed("REPO", "gamedata::GameData::parse_repository_category not found")
    else:
        n_cmp = 0
        seen = set()
        ppaths = Explorer(pb).explore()
        # closures built in the function (e.g. the predicate of iter().find()): name -> captured expressions
        captures = {}
        for p in ppaths:
            for (_bb, _callee, args, _res) in p.events:
                for a in args:
                    for t in walk(a):
                        if isinstance(t, tuple) and t[0] == "agg" and t[1] == "closure":
                            captures.setdefault(t[2], t[3])

        def subst(e, caps):
            """Expression of a closure body with its captured variables replaced by what the parent captured."""
            if isinstance(e, tuple):
                if e[0] == "fld" and isinstance(e[2], int) and isinstance(e[1], tuple):
                    base = e[1]
                    while isinstance(base, tuple) and base[0] in ("deref", "ref"):
                        base = base[1]
                    if base == ("p", 1) and e[2] < len(caps):
                        return caps[e[2]]
                return tuple(subst(x, caps) for x in e)
            return e

        bodies_ = [(pb, ppaths, None)] + [(cb, Explorer(cb).explore(), captures.get(cb.name)) for cb in prog.closures_of(pb.name) if cb.name in captures]
        for body_, paths_, caps in bodies_:
            for p in paths_:
                for (bb, callee, args, _res) in p.events:
                    if "PartialEq" in callee and callee.split("::")[-1] in ("eq", "ne") and len(args) == 2 and (body_.name, bb) not in seen:
                        name_side = [a for a in args if any(isinstance(t, tuple) and t[0] == "fld" and t[2] == "name" for t in walk(a))]
                        other = [a for a in args if a not in name_side]
                        if name_side and other:
                            seen.add((body_.name, bb))
                            n_cmp += 1
                            o = subst(other[0], caps) if caps is not None else other[0]
                            sh = shape(o)
                            ctx.ob("REPO", "token-shape", sh not in ("suffix", "whole"), f"repository name is compared with {show(o)[:110]}, which is the {sh} of the path; it must be a single component", pb.file, pb.line, sample=True)
        ctx.floor("REPO", "repository-name comparisons", n_cmp, 1)
        # category token = first component, fallback to repositories[0]
        cat_ok = False
        fallback = False
        for p in Explorer(pb).explore():
            for (_bb, callee, args, _res) in p.events:
                if callee == "repository::string_to_category" and shape(args[0]) == "component":
                    cat_ok = True
            if p.end == "return":
                r = p.env.local(0)
                if any(isinstance(t, tuple) and t[0] == "idx" and is_const(t[2]) and t[2][1] == 0 for t in walk(r)) or any(isinstance(t, tuple) and t[0] == "call" and t[1].endswith("::index") and any(is_const(x) and x[1] == 0 for x in walk(t[2])) for t in walk(r)):
                    fallback = True
                # equivalent spellings of element 0: repositories.first() / .get(0)
                if any(isinstance(t, tuple) and t[0] == "call" and (t[1].endswith("::first") or (t[1].endswith("::get") and any(is_const(x) and x[1] == 0 for x in walk(t[2])))) and any(isinstance(x, tuple) and x[0] == "fld" and x[2] == "repositories" for x in walk(t[2])) for t in walk(r)):
                    fallback = True
        ctx.ob("REPO", "category-is-first-component", cat_ok, "the category is looked up from the first path component", pb.file, pb.line)
        ctx.ob("REPO", "base-fallback", fallback, "paths without a repository component fall back to repositories[0] (the base game after sorting)", pb.file, pb.line)

    # ---- CATEGORY: directory name -> variant -> id used in the file names
    adt = prog.adts.get("repository::Category")
    if not adt:
        ctx.fail_closed("CATEGORY", "enum repository::Category not found")
    else:
        got = {v["name"]: int(v["discr"]) for v in adt["variants"]}
        for _dir, (name, val) in sorted(CATEGORIES.items()):
            ctx.ob("CATEGORY", f"id|{name}", got.get(name) == val, f"Category::{name} = {got.get(name)}; the game numbers this category's files {val:#04x}", "src/repository.rs", None, sample=(name == "SqPackTest"))
        ctx.floor("CATEGORY", "category ids", len([n for n in got if n in {v[0] for v in CATEGORIES.values()}]), 15)
    sb = prog.body("repository::string_to_category")
    if not sb:
        ctx.fail_closed("CATEGORY", "repository::string_to_category not found")
    else:
        table = {}
        try:
            paths = Explorer(sb, max_paths=400).explore()
        except Exception as e:  # noqa: BLE001
            paths = []
            ctx.fail_closed("CATEGORY", f"string_to_category is not a loop-free decision table: {e}")
        for p in paths:
            hits = []
            for cond in p.conds:
                e, (op, val) = cond[0], cond[1]
                if isinstance(e, tuple) and e[0] == "call" and e[1].split("::")[-1] in ("eq", "ne") and "PartialEq" in e[1]:
                    lits = [a[1] for a in e[2] if isinstance(a, tuple) and a[0] == "ks"]
                    whole = any(isinstance(a, tuple) and strip_refs(a) == ("p", 1) for a in e[2])
                    v0 = val[0] if isinstance(val, tuple) and val else val
                    truth = (op == "eq" and v0 != 0) or (op == "ne" and v0 == 0)
                    if e[1].split("::")[-1] == "ne":
                        truth = not truth
                    if truth and lits and whole:
                        hits.append(lits[0])
            leaf = p.env.local(0)
            var = None
            if isinstance(leaf, tuple) and leaf[0] == "agg" and leaf[2].endswith("Option::Some") and leaf[3] and isinstance(leaf[3][0], tuple) and leaf[3][0][0] == "agg":
                var = leaf[3][0][2].split("::")[-1]
            if len(hits) == 1 and var:
                table.setdefault(hits[0], set()).add(var)
        if not table:
            from ..table import const_name_search

            searched = const_name_search(prog, sb, "repository::Category")
            if searched is not None:
                table = {k_: {v_} for k_, v_ in searched.items()}
        for dir_, (name, _val) in sorted(CATEGORIES.items()):
            ctx.ob("CATEGORY", f"name|{dir_}", table.get(dir_) == {name}, f"string_to_category({dir_!r}) = {sorted(table.get(dir_, []))}; must be Category::{name}", sb.file, sb.line, sample=(dir_ == "chara"))
        extra = sorted(set(table) - set(CATEGORIES))
        ctx.ob("CATEGORY", "no-unknown-directory", not extra, f"directory names outside the game's list: {extra}", sb.file, sb.line, trivial=True)

    # ---- NAMING: the file names the lookup opens for a (repository, category, chunk[, dat id])
    from .c15 import read_side_names

    read_side_names(ctx, "NAMING")

    # ---- PROV
    eb = prog.body("gamedata::GameData::extract")
    if not eb:
        ctx.fail_closed("PROV", "gamedata::GameData::extract not found")
    else:
        ix = index_of(eb)
        ok_off = ok_dat = False
        for _bi, t in eb.calls():
            c = t.get("res") or ""
            if c.endswith("SqPackData::read_from_offset"):
                d = derive(ix, t["args"][1])
                ok_off = "offset" in d.names and any(x.endswith("GameData::find_entry") for x in d.calls)
            if c.endswith("GameData::get_dat_file"):
                d2, d3 = derive(ix, t["args"][2]), derive(ix, t["args"][3])
                ok_dat = any(x.endswith("GameData::find_entry") for x in d2.calls) and "data_file_id" in d3.names and "data_file_id" not in d2.names
        ctx.ob("PROV", "extract|offset", ok_off, "extract reads at entry.offset of the entry find_entry returned", eb.file, eb.line, sample=True)
        ctx.ob("PROV", "extract|dat-file", ok_dat, "extract opens the dat file of the matched chunk and of entry.data_file_id", eb.file, eb.line)
    fb = prog.body("sqpack::index::SqPackIndex::find_entry")
    if fb:
        ok = False
        for body_ in [fb] + prog.closures_of(fb.name):
            for _bi, _si, s in body_.stmts():
                rv = s.get("rv", {})
                if rv.get("k") == "agg" and rv.get("adt") == "sqpack::index::IndexEntry":
                    ix = index_of(body_)
                    ops = dict(zip(rv["fields"], rv["ops"]))
                    ok = "data_file_id" in derive(ix, ops["data_file_id"]).names and "offset" in derive(ix, ops["offset"]).names and "offset" not in derive(ix, ops["data_file_id"]).names
        ctx.ob("PROV", "find_entry|copy", ok, "IndexEntry{data_file_id, offset} copies entry.data.data_file_id and entry.data.offset (not swapped)", fb.file, fb.line)
        cmp_ok = False
        for c in prog.deep_bodies("sqpack::index::SqPackIndex::find_entry") + prog.deep_bodies("sqpack::index::SqPackIndex::exists"):
            for _bi, t in c.calls():
                if "PartialEq" in (t.get("res") or "") and "Hash" in (t.get("res") or ""):
                    cmp_ok = True
        ctx.ob("PROV", "find_entry|hash-compare", cmp_ok, "entries are matched by equality of the Hash value", fb.file, fb.line, trivial=True)
        # SCAN: a stored path is found wherever its entry sits in the table - the lookup walks the entries and compares
        # hashes for equality; it does not rely on the table being sorted (bisection) or on an ordering of hashes
        from ..loops import classify

        ORDERED = ("binary_search", "binary_search_by", "binary_search_by_key", "partition_point", "sort", "sort_by", "sort_unstable", "sort_by_key", "is_sorted")
        WALK = ("find", "any", "position", "find_map", "filter", "all", "try_for_each", "for_each", "try_fold", "fold", "rfind", "rposition")
        n_scan = 0
        for fnm in ("find_entry", "exists"):
            full = f"sqpack::index::SqPackIndex::{fnm}"
            bodies_ = prog.deep_bodies(full)
            if not bodies_:
                continue
            n_scan += 1
            lasts = [(re.sub(r"::<[^<>]*>$", "", t.get("res") or "").split("::")[-1], (t.get("res") or "")) for b_ in bodies_ for _bi, t in b_.calls()]
            ordered = sorted({l for l, _r in lasts if l in ORDERED} | {l for l, r_ in lasts if "cmp::Ord" in r_ or "PartialOrd" in r_})
            eq = any("PartialEq" in r_ and "Hash" in r_ for _l, r_ in lasts)
            walks = any(l in WALK and "Iterator" in r_ for l, r_ in lasts) or any(lp["kind"] in ("ITER", "ACCESS") for lp in classify(bodies_[0]))
            ctx.ob("SCAN", f"{fnm}|every-entry", eq and walks and not ordered, f"{fnm}: walks the entries ({walks}) comparing hashes for equality ({eq}); order-dependent search calls: {ordered}", bodies_[0].file, bodies_[0].line, sample=(fnm == "find_entry"))
        ctx.floor("SCAN", "index lookups examined", n_scan, 2)
    else:
        ctx.fail_closed("PROV", "SqPackIndex::find_entry not found")
    # EXISTS: "only stored paths": every value `exists` returns is either the constant false or is_some() of the entry
    # lookup for the same path; no path returns a constant true
    eb_ = prog.body("gamedata::GameData::exists")
    if not eb_:
        ctx.fail_closed("SCAN", "gamedata::GameData::exists not found")
    else:
        paths_ = [p_ for p_ in Explorer(eb_).explore() if p_.end == "return"]
        rets = [p_.env.local(0) for p_ in paths_]
        bad_r = []

        def _from_lookup(e_):
            return any(isinstance(x, tuple) and x and x[0] == "call" and str(x[1]).split("::")[-1] in ("find_entry", "find_offset", "exists") for x in walk(e_))

        for p_, r_ in zip(paths_, rets):
            if is_const(r_):
                # a constant true is fine on a path that tested the lookup's result (`matches!(find_entry(..), Some(_))`)
                if r_[1] != 0 and not any(_from_lookup(c_) for c_ in p_.conds):
                    bad_r.append(show(r_))
            elif not any(isinstance(x, tuple) and x and x[0] == "call" and str(x[1]).split("::")[-1] in ("find_entry", "find_offset", "exists") for x in walk(r_)):
                bad_r.append(show(r_)[:80])
        ctx.ob("SCAN", "exists|true-only-from-lookup", bool(rets) and not bad_r, f"GameData::exists returns {[show(r_)[:60] for r_ in rets]}; a true answer must come from the entry lookup of the path (offending: {bad_r})", eb_.file, eb_.line)
    gb = prog.body("gamedata::GameData::get_index_filenames")
    if gb:
        calls = [(t.get("res") or "") for _bi, t in gb.calls()]
        gix = index_of(gb)
        pushed = set()
        for _bi, t in gb.calls():
            if (t.get("res") or "").endswith("::push") and len(t["args"]) == 2:
                d = derive(gix, t["args"][1])
                for c_ in d.calls:
                    if c_.endswith("Repository::index_filename") or c_.endswith("Repository::index2_filename"):
                        pushed.add(c_.split("::")[-1])
        both = pushed == {"index_filename", "index2_filename"}
        rng = None
        for _bi, _si, s in gb.stmts():
            rv = s.get("rv", {})
            if rv.get("k") == "agg" and rv.get("adt", "").endswith("ops::Range"):
                lo, hi = const_int(rv["ops"][0]), const_int(rv["ops"][1])
                if lo is not None and hi is not None:
                    rng = (lo, hi)
        ctx.ob("PROV", "candidates|both-kinds", both, "every chunk contributes an index and an index2 candidate", gb.file, gb.line)
        ctx.ob("PROV", "candidates|chunk-range", rng is not None and rng[0] == 0 and rng[1] >= 10, f"chunk range {rng}; must cover 0..=9", gb.file, gb.line)
    else:
        ctx.fail_closed("PROV", "GameData::get_index_filenames not found")
    xb = prog.body("gamedata::GameData::exists")
    fo = prog.body("gamedata::GameData::find_offset")
    for nm, b in (("exists", xb), ("find_offset", fo)):
        if b:
            ok = any((t.get("res") or "").endswith("GameData::find_entry") for _bi, t in b.calls())
            ctx.ob("PROV", f"{nm}|via-find_entry", ok, f"{nm} answers from find_entry (same lookup as extract)", b.file, b.line, trivial=True)
