"""C18 — damaged game data is rejected without crashing.

Decided (all structural, over the monomorphic call graph rooted at every asset / archive entry point):
  PANIC     no panic-capable construct (unwrap/expect, panic!/todo!/unreachable!, indexing, slice preconditions,
            Sub/Neg/shift/div asserts, header-sized allocations, leak primitives) is reachable unless discharged by a
            dataflow idiom (D1..D10), excepted by name with a machine-checked guard where one exists
            (spec/exceptions.json), or listed as a known finding (known_findings.jsonl)
  RECURSION no recursive cycle among the reachable local functions (stack depth would be input-controlled)
  WIREALLOC binrw `count = <wide field>` on Vec<u8> (binrw reserves the whole count up front)
  PAIR      every exit of the inflate wrapper after a successful inflateInit2_ passes inflateEnd
  BCN       the block decoders only run behind the length guards of the block_decoder! macro, and each block function
            reads no further than the raw block size that guard multiplies by
  REFCELL   no RefCell borrow can observe a live conflicting borrow (guards are temporaries; nothing that borrows runs
            while a RefMut is alive, nothing that borrows mutably runs while a Ref is alive)
  SHAPE     every entry point returns Option / Result / bool (a failure or a value), never `!` or a bare payload
Not decided: termination of loops whose exit depends on data (only recursion is decided), Add/Mul overflow asserts
(wrapping in release; the wrapped value then meets an index or alloc site, which is decided), the total amount of
memory retained by pushes inside loops.
"""
import re

from .. import panic as P
from ..mir import const_int, op_place
from .panic_common import run_loops, run_panic

TECHNIQUE = "static analysis: reachability of panic-capable MIR constructs over the monomorphic call graph from every asset/archive entry point, with dataflow discharges (constant/masked/induction-variable index, dominating length guard, binrw count facts, infallible unwrap), recursion SCCs, typestate check of RefCell guards, acquire/release pairing of the inflate stream, and an extent analysis of the texture block decoders; structural termination arguments for every reachable natural loop (finite iterator, stepped counter tested on exit, stepped bounds-checked index, input-consuming read)"
TRUSTED = [
    "rustc nightly MIR and trait resolution",
    "binrw 0.14 generated code and std internals (not inspected; their panicking preconditions are modelled by the callee list in pv/panic.py)",
    "spec/exceptions.json (named infeasible sites with reasons; guards marked `requires` are re-checked on every run)",
]

C17_MODULES = ("cfg::", "exl::", "fiin::", "chardat::", "gearsets::", "log::", "bootdata::", "patch::", "patchlist::", "execlookup::")
EXTRA_ENTRIES = [
    "exd::EXD::read_row",
    "pbd::PreBoneDeformer::get_deform_matrices",
    "shpk::ShaderPackage::find_node",
    "gamedata::GameData::exists",
    "gamedata::GameData::extract",
    "gamedata::GameData::find_offset",
    "gamedata::GameData::read_excel_sheet_header",
    "gamedata::GameData::read_excel_sheet",
    "gamedata::GameData::get_all_sheet_names",
    "sqpack::data::SqPackData::read_from_offset",
    "repository::Repository::from_existing_base",
    "repository::Repository::from_existing_expansion",
    "sqpack::index::SqPackIndex::exists",
    "sqpack::index::SqPackIndex::find_entry",
]


def entry_points(prog):
    """Every public `from_existing` outside the user/launcher-file modules (those are C17) plus the named accessors."""
    fe = sorted(n for n, b in prog.bodies.items() if b.j.get("reachable_pub") and n.endswith("::from_existing") and not n.startswith(C17_MODULES))
    return fe, fe + EXTRA_ENTRIES


# ------------------------------------------------------------------------------------------------ BCN

def _extent(prog, fn, memo, depth=0):
    """Largest constant offset (exclusive) of parameter 1 (`data: &[u8]`) that `fn` or its callees may read; None when an
    access is not a constant."""
    if fn in memo:
        return memo[fn]
    if depth > 6 or fn not in prog.bodies:
        return None
    memo[fn] = None
    b = prog.body(fn)
    ix = P.BodyIndex(b)
    ext = 0
    sub = {}  # local holding `&data[k..]` -> k
    for s in P.scan_body(b):
        if s.kind == "bounds":
            # the indexed place is (*_1)[i]: the length operand is PtrMetadata of a pointer to *_1
            if P.len_of(ix, s.operands[0]) != "arg1":
                continue
            r = ix.resolve(s.operands[1])
            if r[0] != "const":
                return None
            ext = max(ext, r[1] + 1)
        elif s.kind == "index" and len(s.operands) == 2 and P.place_desc(ix, s.operands[0]) == "arg1":
            r = ix.resolve(s.operands[1])
            if not (r[0] == "rv" and r[1]["k"] == "agg"):
                return None
            adt = r[1].get("adt", "")
            o = [ix.resolve(x) for x in r[1]["ops"]]
            if any(x[0] != "const" for x in o):
                return None
            if adt.endswith("ops::Range") or adt.endswith("ops::RangeTo"):
                ext = max(ext, o[-1][1])
            elif adt.endswith("ops::RangeFrom"):
                ext = max(ext, o[0][1])
                sub[b.term(s.bb)["dest"]["l"]] = o[0][1]
            else:
                return None
    for bi, t in b.calls():
        if not t.get("resl"):
            continue
        callee = t.get("res")
        for ai, a in enumerate(t["args"]):
            d = P.place_desc(ix, a)
            base = 0 if d == "arg1" else next((k for l, k in sub.items() if d == f"_{l}"), None)
            if base is None:
                continue
            if ai != 0:
                return None
            e = _extent(prog, callee, memo, depth + 1)
            if e is None:
                return None
            ext = max(ext, base + e)
    memo[fn] = ext
    return ext


def bcn_facts(prog):
    """Per macro-generated decoder: the raw block size in the length guard, the stride of the data offset, the block
    function and its read extent, and the presence of the image-size guard."""
    out = {}
    memo = {}
    for name in sorted(prog.bodies):
        if not re.match(r"^bcn::decode_bc\d+$", name):
            continue
        b = prog.body(name)
        ix = P.BodyIndex(b)
        # the block where the outer closure is built: everything the loop does is behind it
        site = None
        for bi, si, st in b.stmts():
            if st["k"] == "assign" and st["rv"]["k"] == "agg" and st["rv"].get("ak") == "closure":
                site = bi
        f = {"data_guard": None, "image_guard": False, "stride": None, "block_fn": None, "extent": None, "buffer": None}
        out[name] = f
        if site is None:
            continue

        def pred_data(dop, val, par):
            r = ix.resolve(dop)
            if r[0] == "rv" and r[1]["k"] == "bin" and r[1]["op"] == "Lt" and val == 0 and P.len_of(ix, r[1]["a"]) == "arg1":
                k = P.expr_key(ix, r[1]["b"], limit=40)
                if k and k[0] == "Mul" and k[2] and k[2][0] == "c":
                    f["data_guard"] = k[2][1]
                    f["guard_counts"] = k[1]
                    return True
            return False

        def pred_image(dop, val, par):
            r = ix.resolve(dop)
            if r[0] == "rv" and r[1]["k"] == "bin" and r[1]["op"] == "Lt" and val == 0 and P.len_of(ix, r[1]["a"]) == "arg4":
                k = P.expr_key(ix, r[1]["b"], limit=40)
                if k == ("Mul", ("pl", "arg2"), ("pl", "arg3")):
                    return True
            return False

        P.guard_dominates(ix, site, pred_data)
        f["image_guard"] = P.guard_dominates(ix, site, pred_image)
        # the guard must count ceil(width/4) * ceil(height/4) blocks
        gc = f.get("guard_counts")

        def ceil4(k, arg):
            return k == ("Div", ("Sub", ("Add", ("pl", arg), ("c", 4)), ("c", 1)), ("c", 4))

        f["guard_counts_ok"] = bool(gc) and gc[0] == "Mul" and ceil4(gc[1], "arg2") and ceil4(gc[2], "arg3")
        m = re.search(r"\[u32; (\d+)\]", " ".join(l["ty"] for l in b.j["locals"]))
        f["buffer"] = int(m.group(1)) if m else None
        inner = prog.body(name + "::{closure#0}::{closure#0}")
        if inner is None:
            continue
        adds = [const_int(st["rv"]["b"]) for _b, _s, st in inner.stmts() if st["k"] == "assign" and st["rv"]["k"] == "bin" and st["rv"]["op"] == "AddWithOverflow"]
        f["stride"] = adds[0] if len(adds) == 1 else None
        blocks = [t.get("res") for _b, t in inner.calls() if t.get("resl") and "decode_bc" in (t.get("res") or "") and "_block" in (t.get("res") or "")]
        if len(blocks) == 1:
            f["block_fn"] = blocks[0]
            f["extent"] = _extent(prog, blocks[0], memo)
    return out


def bcn_ok(prog):
    memo = P.ACTX.setdefault("bcn", {})
    if "ok" not in memo:
        facts = bcn_facts(prog)
        memo["facts"] = facts
        memo["ok"] = len(facts) >= 3 and all(f["data_guard"] and f["guard_counts_ok"] and f["image_guard"] and f["stride"] == f["data_guard"] and f["extent"] is not None and f["extent"] <= f["data_guard"] and f["buffer"] == 16 for f in facts.values())
    return memo["ok"]


def requires_bcn_guard(ix, s, exc):
    prog = P.ACTX.get("prog")
    return prog is not None and bcn_ok(prog)


P.REQUIRES["bcn-guard"] = requires_bcn_guard


# ------------------------------------------------------------------------------------------------ REFCELL

BORROW_RE = re.compile(r"cell::RefCell::<T>::(borrow|borrow_mut|try_borrow|try_borrow_mut|replace|swap|take|replace_with)$")


def _guard_region(body, start_bb, g):
    """Blocks in which the guard local `g` (a Ref / RefMut) may be alive: from the borrow's return block to the drop
    of `g`.  None when the guard is moved somewhere else (it then outlives what we can see)."""
    region = set()
    work = [start_bb]
    while work:
        bi = work.pop()
        if bi in region or bi < 0:
            continue
        blk = body.blocks[bi]
        if blk["cleanup"]:
            continue
        region.add(bi)
        for st in blk["s"]:
            if st["k"] == "assign":
                rv = st["rv"]
                ops = [rv.get("a"), rv.get("b")] + list(rv.get("ops", []))
                for o in ops:
                    if isinstance(o, dict) and "m" in o and o["m"]["l"] == g and not o["m"]["p"]:
                        return None
        t = blk["t"]
        if t["k"] == "drop" and t["p"]["l"] == g and not t["p"]["p"]:
            continue
        if t["k"] == "call":
            for o in t["args"]:
                if isinstance(o, dict) and "m" in o and o["m"]["l"] == g and not o["m"]["p"]:
                    return None
        if t["k"] == "return":
            return None
        for s in body.succ(bi):
            if not body.blocks[s]["cleanup"]:
                work.append(s)
    return region


def refcell_discipline(prog, reach):
    """Typestate check.  Returns (n_guards, violations)."""
    # which instances (transitively) perform a RefCell borrow of each kind
    direct = {}
    for n in reach:
        inst = prog.instances[n]
        m = BORROW_RE.search(re.sub(r"::<[^<>]*>$", "", inst["name"])) or BORROW_RE.search(inst.get("def") or "")
        if m:
            direct[n] = "mut" if m.group(1) != "borrow" and m.group(1) != "try_borrow" else "shared"
    memo = {}

    def effects(n, stack):
        if n in memo:
            return memo[n]
        if n in stack:
            return set()
        stack.add(n)
        out = set()
        if n in direct:
            out.add(direct[n])
        for _bb, c, _k in prog.instances[n]["calls"]:
            out |= effects(c, stack)
        stack.discard(n)
        memo[n] = out
        return out

    import sys

    sys.setrecursionlimit(20000)
    by_def = {}
    for n in reach:
        inst = prog.instances[n]
        if inst["local"] and inst["kind"] == "item":
            by_def.setdefault(inst["def"], []).append(n)
    viol = []
    n_guards = 0
    for d, insts in sorted(by_def.items()):
        b = prog.raw_bodies.get(d)  # instance call lists refer to the blocks of the function as written
        if b is None:
            continue
        for bi, t in b.calls():
            res = t.get("res") or ""
            m = BORROW_RE.search(res)
            if not m or m.group(1) not in ("borrow", "borrow_mut"):
                continue
            n_guards += 1
            kind = "mut" if m.group(1) == "borrow_mut" else "shared"
            g = t["dest"]["l"]
            region = _guard_region(b, t["t"], g) if not t["dest"]["p"] and t.get("t") is not None else None
            if region is None:
                viol.append((d, bi, f"the {m.group(1)}() guard escapes the function (moved or returned); its lifetime is not visible"))
                continue
            forbidden = {"mut", "shared"} if kind == "mut" else {"mut"}
            for n in insts:
                for cbb, c, _k in prog.instances[n]["calls"]:
                    if cbb in region and cbb != bi:
                        bad = effects(c, set()) & forbidden
                        if bad:
                            viol.append((d, cbb, f"while the {m.group(1)}() guard of bb{bi} is alive, {prog.instances[c]['name'][:80]} may perform a {'/'.join(sorted(bad))} RefCell borrow"))
    return n_guards, viol


def requires_refcell(ix, s, exc):
    memo = P.ACTX.setdefault("refcell", {})
    return memo.get("ok", False)


P.REQUIRES["refcell-discipline"] = requires_refcell


# ------------------------------------------------------------------------------------------------ run

LOOPS_FLOOR = 70  # natural loops counted on the pinned tree: 91; the floor leaves room for loops rewritten as iterator chains


def run(ctx):
    prog = ctx.prog
    ctx.decided("no undischarged panic/abort/overflow/alloc/leak construct reachable from the asset and archive entry points")
    ctx.decided("no recursion reachable from them")
    ctx.decided("every reachable loop carries a structural termination argument: finite iterator, stepped counter tested on exit, stepped bounds-checked index, input-consuming read (LOOPS)")
    ctx.decided("binrw up-front reservations driven by wide count fields")
    ctx.decided("inflateEnd on every exit after a successful init")
    ctx.decided("texture block decoders stay inside the guarded input")
    ctx.decided("RefCell guards never overlap a conflicting borrow")
    ctx.decided("reachable unsafe operations stay inside the memory of the slice they view (UNSAFE: extent, not data validity)")
    ctx.not_decided("Add/Mul overflow asserts; memory retained by pushes in loops")

    fe, entries = entry_points(prog)
    ctx.floor("SHAPE", "public from_existing constructors outside the C17 modules", len(fe), 28)
    for e in entries:
        b = prog.bodies.get(e)
        if not b:
            continue
        rt = b.j["locals"][0]["ty"]
        ok = rt.startswith("std::option::Option<") or rt.startswith("std::result::Result<") or rt == "bool"
        ctx.ob("SHAPE", e, ok, f"{e} returns {rt[:60]}; an entry point must be able to report failure (Option / Result / bool)", b.file, b.line, trivial=True)

    # REFCELL first: the PANIC exceptions for RefCell::borrow sites are only valid while the discipline holds
    P.ACTX["prog"] = prog
    P.ACTX.pop("bcn", None)
    P.ACTX.pop("refcell", None)
    P.ACTX.pop("only_parsed", None)
    present = [e for e in entries if e in prog.bodies]
    reach, _parent = prog.reach(present)
    n_guards, viol = refcell_discipline(prog, reach)
    P.ACTX["refcell"] = {"ok": not viol and n_guards > 0}
    ctx.floor("REFCELL", "RefCell guards created in reachable local code", n_guards, 10)
    if not viol:
        ctx.ob("REFCELL", "discipline", True, f"{n_guards} borrow()/borrow_mut() guards: each is dropped in the function that creates it; no borrow runs under a RefMut and no mutable borrow runs under a Ref (transitively, over the monomorphic call graph)", None, None)
    for d, bb, why in viol:
        ctx.ob("REFCELL", f"{d}|{why[:60]}", False, f"{d} bb{bb}: {why}", prog.raw_bodies[d].file, prog.raw_bodies[d].line)

    # BCN
    facts = bcn_facts(prog)
    ctx.floor("BCN", "macro-generated block decoders", len(facts), 3)
    for name, f in sorted(facts.items()):
        b = prog.bodies[name]
        ctx.ob("BCN", f"{name}|data-guard", bool(f["data_guard"]) and f.get("guard_counts_ok", False), f"{name}: the decoding loop is dominated by `data.len() < ceil(w/4) * ceil(h/4) * {f['data_guard']}` returning Err", b.file, b.line)
        ctx.ob("BCN", f"{name}|image-guard", f["image_guard"], f"{name}: the decoding loop is dominated by `image.len() < width * height` returning Err", b.file, b.line)
        ctx.ob("BCN", f"{name}|stride", f["stride"] is not None and f["stride"] == f["data_guard"], f"{name}: the data offset advances by {f['stride']} per block; the guard reserves {f['data_guard']} per block", b.file, b.line)
        ctx.ob("BCN", f"{name}|extent", f["extent"] is not None and f["data_guard"] is not None and f["extent"] <= f["data_guard"], f"{name}: {f['block_fn']} reads at most {f['extent']} bytes of its block (constant offsets only); the guard reserves {f['data_guard']}", b.file, b.line, sample=True)
        ctx.ob("BCN", f"{name}|buffer", f["buffer"] == 16, f"{name}: the block buffer handed to the block function and to copy_block_buffer is [u32; {f['buffer']}] (4 x 4 texels)", b.file, b.line)

    # PANIC
    sites, reach, parent, defs, sccs, und = run_panic(ctx, entries, floor_entries=42, floor_defs=1200)
    from ..unsafe_rule import rule as unsafe_rule

    n_unsafe = unsafe_rule(ctx, defs)
    ctx.floor("UNSAFE", "unsafe operations reachable from the entry points (to_u8_slice view, libz calls)", n_unsafe, 1)
    for comp in sccs:
        ctx.ob("RECURSION", "|".join(comp)[:200], False, f"recursion reachable from untrusted input (stack depth is input-controlled): {comp}", None, None)
    if not sccs:
        ctx.ob("RECURSION", "none", True, "no recursive cycle among the reachable local functions", None, None)

    run_loops(ctx, defs, floor=LOOPS_FLOOR)

    from .wirealloc import wire_alloc

    n = wire_alloc(ctx, defs)
    ctx.floor("WIREALLOC", "Vec<u8> fields with a binrw count in reachable readers", n, 5)

    # PAIR (shared with C02): inflateInit2_ / inflateEnd
    from .c02 import pair_rule

    cb = prog.body("compression::no_header_decompress")
    if not cb:
        ctx.fail_closed("PAIR", "compression::no_header_decompress not found")
    else:
        pair_rule(ctx, cb, "inflateInit2_", "inflateEnd")
