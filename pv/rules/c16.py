"""C16 — auxiliary asset decoders return the stored records.

Decided (necessary structural conditions of the behaviour; the behaviour itself - the values for every input - is not):
  W1       wire layouts of SKLB / SklbV1 / SklbV2, the deformer tables, scaling rows, terrain header and plate, LGB and
           layer-chunk headers against hand-written references (spec/layouts.txt)
  W2       reader / writer symmetry of the terrain and layer-group headers (what write_to_buffer emits is what
           from_existing consumes)
  SKLB     which versions carry which header, and that the Havok payload offset is taken from the header that was read
  BONES    every Bone field is copied from the Havok skeleton array of the same meaning at the same index
  HKNAMES  the Havok member / class names the extraction asks for, and which accessor each goes through
  HKMEMBERS presence bit fields are sized by the full (inherited) member count; member_count() and members() both
           walk the whole ancestor chain
  HKTABLE  value-type codes, vector widths and tag codes of the tag-file format; TRANSFORM lane split 0-3 / 4-7 / 8-11
  PACKEDINT the tag file's variable-length integers: 6 value bits in the first byte, 7 in each further byte, placed at
           consecutive bit positions (ranges computed from the masks and shifts, not their spelling); sign bit 0,
           continuation bit 7
  CHAIN    deformer walk: start item by body id, link by link_index, parent by parent_index, item by deformer_index,
           stop at the target body id or at the root; name[i] is paired with transform[i]
  STRINGS  out-of-line names are read at base offset + table entry
  CMP      table offset 0x2a800, row stride = serialised row size, rows pushed in file order
  TERA     plate centre = plate_size * (cell + 0.5) per axis, inverse in the writer, 128-unit grid, plate_count = len
  LGB      the constants that place the chunk name (reader heap base, writer heap base, chunk header size, file header
           size) agree for a group without layers; ids and names flow field to field
Not decided: the tag-file object graph decoding (remembered strings/types/objects, struct-of-arrays,
reference fix-up) beyond its tables; float exactness; layer groups with layers (the writer's name offset is short by
4 bytes per layer, see DESIGN.md observations; the property only covers the empty group).
"""
import re

from .. import panic as P
from .. import wire as W
from ..mir import const_int, op_place
from ..prov import derive, index_of
from ..sym import Explorer, is_const, show
from ..wrules import model, w1, w2

TECHNIQUE = "static analysis: binrw wire-model conformance against reference layouts and reader/writer symmetry; field-provenance (derives-from) rules on the MIR of the extraction functions; guarded-region analysis of the SKLB version dispatch; table conformance of the Havok type/tag codes; constant-identity check of the layer-group heap placement; sibling agreement of member_count()/members() and provenance of the presence bit-field widths; evaluation of the bit-field byte-count expression over counts 0..4096; dominance order of collection and root test in the deformer walk"
TRUSTED = ["rustc nightly MIR", "binrw 0.14 attribute semantics as modelled in pv/wire.py", "spec/layouts.txt reference layouts (hand-written from format documentation)"]

W1_TYPES = ["cmp::RacialScalingParameters", "tera::PlatePosition", "tera::TerrainHeader", "layer::LgbHeader", "layer::LayerChunkHeader", "pbd::PreBoneDeformerLink", "pbd::PreBoneDeformerItem", "pbd::PreBoneDeformerHeader", "pbd::RacialDeformer", "skeleton::SklbV1", "skeleton::SklbV2", "skeleton::SKLB"]
W2_TYPES = ["tera::PlatePosition", "tera::TerrainHeader", "layer::LgbHeader", "layer::LayerChunkHeader", "layer::HeapString"]

HK_VALUE_TYPES = {"EMPTY": 0, "BYTE": 1, "INT": 2, "REAL": 3, "VEC4": 4, "VEC8": 5, "VEC12": 6, "VEC16": 7, "OBJECT": 8, "STRUCT": 9, "STRING": 10, "ARRAY": 0x10, "TUPLE": 0x20}
HK_VEC_SIZE = {4: 4, 5: 8, 6: 12, 7: 16}
F32_HALF = 0x3F000000


def _last(c):
    return re.sub(r"::<[^<>]*>$", "", c or "").split("::")[-1]


def _elem_calls(body):
    """Element accesses `c[i]` / `c.get(i)` of a body: (bb, terminator)."""
    out = []
    for bi, t in body.calls():
        c = t.get("res") or ""
        if len(t["args"]) == 2 and (c.endswith("::index") or c.endswith("::index_mut") or re.sub(r"::<[^<>]*>$", "", c).endswith("<impl [T]>::get")):
            out.append((bi, t))
    return out


def accepted_values(body, target_bb, var):
    """Values of the local named `var` for which `target_bb` is reachable, when every test of it is `var == const` (or a
    switch on it).  None when the block is reachable with all tests false (no finite accepting set)."""
    ix = P.BodyIndex(body)
    tests = []  # (bb, const, true_successor)
    for bi, blk in enumerate(body.blocks):
        t = blk["t"]
        if t["k"] != "switch" or blk["cleanup"]:
            continue
        r = ix.resolve(t["a"])
        if r[0] == "rv" and r[1]["k"] == "bin" and r[1]["op"] == "Eq":
            for x, y in ((r[1]["a"], r[1]["b"]), (r[1]["b"], r[1]["a"])):
                c = ix.resolve(y)
                if c[0] == "const" and P.source_name(ix, x) == var:
                    tests.append((bi, c[1], t["else"]))
        elif P.source_name(ix, t["a"]) == var and op_place(t["a"]) is not None and op_place(t["a"])["ty"] != "bool":
            for v, tgt in t["arms"]:
                tests.append((bi, int(v), tgt))
    if not tests:
        return None

    by_block = {}
    for bi, c, tgt in tests:
        by_block.setdefault(bi, []).append((c, tgt))

    def reachable(value):
        """Is target reachable when var == value (value None: var differs from every tested constant)?"""
        seen, work = set(), [0]
        while work:
            b = work.pop()
            if b in seen or body.blocks[b]["cleanup"]:
                continue
            seen.add(b)
            succ = body.succ(b)
            if b in by_block:
                trues = {tgt for c, tgt in by_block[b] if c == value}
                if trues:
                    succ = [s_ for s_ in succ if s_ in trues]
                else:
                    succ = [s_ for s_ in succ if s_ not in {tgt for _c, tgt in by_block[b]}]
            work.extend(succ)
        return target_bb in seen

    if reachable(None):
        return None
    return {c for _bi, c, _t in tests if reachable(c)}


def _struct_agg(body, adt_suffix):
    for bi, si, st in body.stmts():
        if st["k"] == "assign" and st["rv"]["k"] == "agg" and st["rv"].get("ak") == "adt" and st["rv"].get("adt", "").endswith(adt_suffix):
            yield bi, st


def _find_literal(prog, fn, adt_suffix):
    """(body, statement) of the one struct literal of a type built somewhere in a function's own code (the function as
    analysed, its closures, fn items it maps over)."""
    hits = []
    for b in prog.deep_bodies(fn):
        for bi, st in _struct_agg(b, adt_suffix):
            hits.append((b, st))
    return hits


def _elem_const_index(ix, o):
    """Constant element index an operand was read at (`v[4]`, `v[start + 1]` with a constant start - constants folded)."""
    r = ix.resolve(o)
    if r[0] != "place":
        return None
    pl = r[1]
    for pr in reversed(pl["p"]):
        if isinstance(pr, dict) and "i" in pr:
            rr = ix.resolve({"c": {"l": pr["i"], "p": [], "ty": "usize"}})
            return rr[1] if rr[0] == "const" else None
        if isinstance(pr, dict) and "ci" in pr and not pr.get("fe"):
            return pr["ci"]
    d = ix.single_def(pl["l"])
    if d and d[0] == "call" and (ix.callee(d[3]) or "").split("::")[-1] in ("index", "index_mut") and len(d[3]["args"]) == 2:
        rr = ix.resolve(d[3]["args"][1])
        return rr[1] if rr[0] == "const" else None
    return None


def _mapped_over_enumerate(prog, top, closure_name):
    """Is the closure handed to an adaptor whose receiver derives from an enumerate() call in `top`?"""
    tix = index_of(top)
    for _b, t in top.calls():
        for a in t["args"][1:]:
            r_ = tix.resolve(a)
            if r_[0] == "rv" and r_[1]["k"] == "agg" and r_[1].get("ak") == "closure" and r_[1].get("closure") == closure_name:
                return "enumerate" in {_last(c_) for c_ in derive(tix, t["args"][0]).calls}
    return False


def _mapped_over_zip_from_zero(prog, top, closure_name):
    """Is the closure mapped over (0..n).zip(..): the first half of its argument then counts from zero?"""
    tix = index_of(top)
    for _b, t in top.calls():
        for a in t["args"][1:]:
            r_ = tix.resolve(a)
            if r_[0] == "rv" and r_[1]["k"] == "agg" and r_[1].get("ak") == "closure" and r_[1].get("closure") == closure_name:
                z = tix.resolve(t["args"][0])
                if z[0] == "call" and _last(tix.callee(z[1])) == "zip" and z[1]["args"]:
                    left = tix.resolve(z[1]["args"][0])
                    if left[0] == "rv" and left[1]["k"] == "agg" and (left[1].get("adt") or "").endswith("ops::Range"):
                        return tix.resolve(left[1]["ops"][0]) == ("const", 0)
    return False


def _array_ops(ix, op):
    """Operands of the array literal an operand was built from, or None."""
    r = ix.resolve(op)
    if r[0] == "rv" and r[1]["k"] == "agg" and r[1].get("ak") == "array":
        return r[1]["ops"]
    return None


def run(ctx):
    prog = ctx.prog
    wm = model(ctx)
    ctx.decided("wire layouts and reader/writer symmetry of the container, deformer, scaling, terrain and layer-group headers")
    ctx.decided("SKLB version dispatch and payload offset selection")
    ctx.decided("field provenance of Bone, HavokSkeleton, HavokTransform, deformer chain, terrain plates, layer-group ids and names")
    ctx.decided("Havok value-type / tag tables; CMP table offset and stride; terrain grid formula and its inverse; layer-group heap constants for the empty group")
    ctx.not_decided("tag-file object graph decoding beyond its tables (packed integers, back-references, struct-of-arrays); float exactness; layer groups with layers")

    # ---- W1 / W2
    n = w1(ctx, W1_TYPES)
    ctx.floor("W1", "types checked against reference layouts", n, len(W1_TYPES))
    n2 = 0
    for t in W2_TYPES:
        n2 += w2(ctx, [t]) or 0
    ctx.floor("W2", "reader/writer stream elements compared", n2, 12)

    # ---- SKLB
    name = "<skeleton::SKLB as binrw::BinRead>::read_options::{closure#0}"
    sb = prog.body(name)
    if not sb:
        ctx.fail_closed("SKLB", f"{name} not found")
    else:
        ix = index_of(sb)
        reads = {}
        unwraps = {}
        seek_bb = None
        for bi, t in sb.calls():
            c = t.get("res") or ""
            ga = " ".join((t["f"].get("k") or {}).get("ga", []))
            if c.endswith("Try>::branch"):
                # the `?` on the result of the conditional read (the else branch calls Default::default instead)
                for v in ("SklbV1", "SklbV2"):
                    if f"Option<skeleton::{v}>" in ga:
                        reads[v] = bi
            if c.endswith("Option::<T>::unwrap"):
                for v in ("SklbV1", "SklbV2"):
                    if f"skeleton::{v}" in ga:
                        unwraps[v] = (bi, t)
        v1 = accepted_values(sb, reads["SklbV1"], "version") if "SklbV1" in reads else "missing"
        v2 = accepted_values(sb, reads["SklbV2"], "version") if "SklbV2" in reads else "missing"
        ctx.ob("SKLB", "v1-versions", v1 == {0x31323030}, f"the 16-bit-offset header (SklbV1) is read for versions {sorted(map(hex, v1)) if isinstance(v1, set) else v1}; must be exactly '1200' (0x31323030)", sb.file, sb.line, sample=True)
        ctx.ob("SKLB", "v2-versions", v2 == {0x31333030, 0x31333031}, f"the 32-bit-offset header (SklbV2) is read for versions {sorted(map(hex, v2)) if isinstance(v2, set) else v2}; must be exactly '1300' and '1301'", sb.file, sb.line)
        # offset selection: the seek position is havok_offset of the header that exists for this version
        u1 = accepted_values(sb, unwraps["SklbV1"][0], "version") if "SklbV1" in unwraps else "missing"
        u2 = accepted_values(sb, unwraps["SklbV2"][0], "version") if "SklbV2" in unwraps else "missing"
        ctx.ob("SKLB", "offset-select-v1", u1 == {0x31323030}, f"sklb_v1 is consulted for versions {sorted(map(hex, u1)) if isinstance(u1, set) else u1}; must be the versions it is read for", sb.file, sb.line)
        ctx.ob("SKLB", "offset-select-v2", u2 is None and "SklbV2" in unwraps, "sklb_v2 is consulted for every other version", sb.file, sb.line)
        ok_seek = False
        for bi, si, st in sb.stmts():
            rv = st.get("rv") or {}
            if st["k"] == "assign" and rv.get("k") == "agg" and rv.get("adt", "").endswith("SeekFrom") and rv.get("variant") == "Start":
                d = derive(ix, rv["ops"][0])
                fields = {(a or "").split("::")[-1] for a, nm in d.fields if nm == "havok_offset"}
                if {"SklbV1", "SklbV2"} <= fields:
                    ok_seek = True
        ctx.ob("SKLB", "payload-offset", ok_seek, "the Havok payload is read from SeekFrom::Start(havok_offset) of SklbV1 / SklbV2", sb.file, sb.line)

    # ---- BONES
    fb = prog.body("skeleton::Skeleton::from_existing")
    if not fb:
        ctx.fail_closed("BONES", "skeleton::Skeleton::from_existing not found")
    else:
        ix = index_of(fb)
        top_ix = ix
        hits = _find_literal(prog, "skeleton::Skeleton::from_existing", "skeleton::Bone")
        if len(hits) != 1:
            ctx.fail_closed("BONES", f"expected one Bone literal, found {len(hits)}")
        else:
            lb, st = hits[0]
            in_closure = lb.name != fb.name
            ix = index_of(lb)
            ops = dict(zip(st["rv"]["fields"], st["rv"]["ops"]))
            want = {"name": ({"bone_names"}, None), "parent_index": ({"parent_indices"}, None), "position": ({"reference_pose", "translation"}, [0, 1, 2]), "rotation": ({"reference_pose", "rotation"}, None), "scale": ({"reference_pose", "scale"}, [0, 1, 2])}
            others = {"bone_names", "parent_indices", "translation", "rotation", "scale"}
            idx_locals = None
            for f, (need, lanes) in want.items():
                if f not in ops:
                    ctx.fail_closed("BONES", f"Bone has no field {f}")
                    continue
                d = derive(ix, ops[f], skip_index=True)
                ok = need <= d.names and not ((others - need) & d.names)
                if in_closure and f == "name" and not (others & d.names) and 2 in d.params:
                    ok = True  # the element handed to the closure by iter().enumerate() over bone_names (checked below)
                det = f"Bone.{f} derives from {sorted(d.names & (others | {'reference_pose'}))}"
                if lanes is not None:
                    arr = _array_ops(ix, ops[f])
                    got = []
                    for o in arr or []:
                        dd = derive(ix, o, skip_index=True)
                        cs = sorted(c for c in dd.consts if 0 <= c < 4)
                        lane = cs[0] if len(cs) == 1 else None
                        if lane is None and not cs:
                            lane = _elem_const_index(ix, o)  # `let [x, y, z, _] = v` / `v[k]` through a helper
                        got.append(lane)
                    ok = ok and got == lanes
                    det += f", lanes {got}"
                ctx.ob("BONES", f, ok, f"{det}; must be {sorted(need)}" + (f" lanes {lanes}" if lanes else ""), fb.file, fb.line, sample=(f == "position"))
            # same index everywhere: every element access of the three arrays uses the enumerate() counter
            n_acc = 0
            acc_arrays = set()
            same = True
            for bi, t in _elem_calls(lb):
                if P.source_name(ix, t["args"][0]) not in ("parent_indices", "reference_pose"):
                    continue
                n_acc += 1
                acc_arrays.add(P.source_name(ix, t["args"][0]))
                di = derive(ix, t["args"][1])
                calls = {_last(c) for c in di.calls}
                if in_closure:
                    # the closure receives (index, bone) from enumerate(): the index is field 0 of its argument
                    same = same and di.params == {2} and not di.consts and not di.ops and not di.calls
                else:
                    same = same and "next" in calls and "enumerate" in calls and not (di.consts - {0}) and not (di.ops - {"Add"})
            if in_closure:
                # ... and the closure is mapped over bone_names.iter().enumerate()
                dm = None
                for _b, t in fb.calls():
                    for a in t["args"]:
                        r_ = top_ix.resolve(a)
                        if r_[0] == "rv" and r_[1]["k"] == "agg" and r_[1].get("ak") == "closure" and r_[1].get("closure") == lb.name:
                            dm = derive(top_ix, t["args"][0])
                same = same and dm is not None and "bone_names" in dm.names and "enumerate" in {_last(c) for c in dm.calls}
            ix = top_ix
            ctx.ob("BONES", "same-index", same and acc_arrays == {"parent_indices", "reference_pose"}, f"{n_acc} element accesses of parent_indices / reference_pose use the enumerate() counter of bone_names unchanged", fb.file, fb.line)
            d0 = None
            for bi, t in _elem_calls(fb):
                if P.source_name(ix, t["args"][0]) == "skeletons":
                    d0 = ix.resolve(t["args"][1])
            first = any(_last(t.get("res")) == "first" and P.source_name(ix, t["args"][0]) == "skeletons" for _b, t in fb.calls())
            ctx.ob("BONES", "first-skeleton", (d0 is not None and d0[0] == "const" and d0[1] == 0) or first, "the first skeleton of the animation container is used", fb.file, fb.line)
            strs = set()
            for _b, t in fb.calls():
                if (t.get("res") or "").endswith("find_object_by_type"):
                    for a in t["args"]:
                        strs |= derive(ix, a).strs
            ctx.ob("HKNAMES", "container-class", strs == {"hkaAnimationContainer"}, f"the root object is looked up by class name {sorted(strs)}; must be hkaAnimationContainer", fb.file, fb.line)

    # ---- HKMEMBERS: the presence bit field of an object / struct array has one bit per member *including inherited
    # ones*: its width and the member list that is walked against it must count the same members
    mc = prog.body("havok::object::HavokObjectType::member_count")
    mm = prog.body("havok::object::HavokObjectType::members")
    if not mc or not mm:
        ctx.fail_closed("HKMEMBERS", "HavokObjectType::member_count / members not found")
    else:
        def parent_calls(b):
            return {(t_.get("res") or "").split("::")[-1] for _bi, t_ in b.calls() if (t_.get("res") or "").startswith("havok::object::HavokObjectType::")}

        ctx.ob("HKMEMBERS", "members|whole-chain", "members" in parent_calls(mm), "members() prepends the parent's members() (recursively: every ancestor)", mm.file, mm.line)
        ctx.ob("HKMEMBERS", "member_count|whole-chain", bool(parent_calls(mc) & {"member_count", "members"}), "member_count() takes the inherited part from " + (str(sorted(parent_calls(mc))) if parent_calls(mc) else "the direct parent's own member list") + "; it must count every ancestor like members() (recursive member_count / members)", mc.file, mc.line, sample=True)
    n_bf = 0
    # every reader of a presence bit field in the tag-file reader (read_object, the struct-array reader, wherever it lives)
    for nm in sorted(n_ for n_, b_ in prog.raw_bodies.items() if n_.startswith("havok::binary_tag_file_reader::") and not n_.endswith("::read_bit_field") and any((t_.get("res") or "").endswith("::read_bit_field") for _bi, t_ in b_.calls())):
        rb_ = prog.body(nm)
        if not rb_:
            continue
        rix = index_of(rb_)
        for _bi, t_ in rb_.calls():
            if (t_.get("res") or "").endswith("::read_bit_field") and len(t_["args"]) >= 2:
                n_bf += 1
                d_ = derive(rix, t_["args"][1])
                src = {c_.split("::")[-1] for c_ in d_.calls} & {"members", "member_count"}
                ctx.ob("HKMEMBERS", f"bit-field-width|{nm.split('::')[-1]}", bool(src), f"{nm.split('::')[-1]}: the presence bit field is sized by {sorted(src) or sorted(c_.split('::')[-1] for c_ in d_.calls)}; must be the type's full member count", rb_.file, rb_.line)
    ctx.floor("HKMEMBERS", "presence bit fields read", n_bf, 2)
    # an array's prefix (the element type's presence bit field for struct arrays, the kind integer of v3 int arrays) is
    # in the stream whatever the length: read_array must reach its dispatch on the element type without first deciding
    # anything else (an early return for `array_len == 0` leaves the prefix unread and the reader out of step)
    ran = [n_ for n_ in prog.raw_bodies if n_.startswith("havok::binary_tag_file_reader::") and n_.endswith("::read_array")]
    if len(ran) != 1:
        ctx.fail_closed("HKMEMBERS", f"read_array of the tag-file reader not found ({len(ran)})")
    else:
        ab_ = prog.raw_bodies[ran[0]]
        aix = index_of(ab_)
        cur, first = 0, None
        for _hop in range(64):
            t_ = ab_.blocks[cur]["t"]
            if t_["k"] == "switch":
                first = cur
                break
            nxt = [s_ for s_ in ab_.succ(cur) if not ab_.blocks[s_]["cleanup"]]
            if len(nxt) != 1:
                break
            cur = nxt[0]
        via = sorted({c_.split("::")[-1] for c_ in derive(aix, ab_.blocks[first]["t"]["a"]).calls}) if first is not None else None
        pars = sorted(derive(aix, ab_.blocks[first]["t"]["a"]).params) if first is not None else None
        ctx.ob("HKMEMBERS", "read_array|dispatch-first", first is not None and "base_type" in via, f"read_array's first decision is on a value from {via} (parameters {pars}); it must be the element type's base type, for every array length", ab_.file, ab_.line)
    # string table of the tag file: a negative length is a back-reference into the remembered strings, and EVERY literal
    # (length >= 0, the empty one included) is remembered — back-references count literals in stream order, so a literal
    # that is returned without being pushed shifts every later reference by one
    rsn = [n_ for n_ in prog.raw_bodies if n_.startswith("havok::binary_tag_file_reader::") and n_.endswith("::read_string")]
    if len(rsn) != 1:
        ctx.fail_closed("HKMEMBERS", f"read_string of the tag-file reader not found ({len(rsn)})")
    else:
        sb_ = prog.body(rsn[0])
        six = index_of(sb_)
        neg_sw = None
        for bi_, blk_ in enumerate(sb_.blocks):
            t_ = blk_["t"]
            if t_["k"] == "switch" and not blk_["cleanup"]:
                r_ = six.resolve(t_["a"])
                if r_[0] == "rv" and r_[1]["k"] == "bin" and r_[1]["op"] in ("Lt", "Ge") and "read_packed_int" in {c_.split("::")[-1] for c_ in derive(six, t_["a"]).calls}:
                    from ..mir import const_int as _ci

                    if _ci(r_[1]["b"]) == 0:
                        neg_sw = (bi_, t_, r_[1]["op"])
                        break
        if not neg_sw:
            ctx.fail_closed("HKMEMBERS", "read_string: the `length < 0` test on the packed length was not found")
        else:
            bi_, t_, op_ = neg_sw
            zero_t = [int(tg) for v_, tg in t_["arms"] if int(v_) == 0]
            nonneg = (zero_t[0] if zero_t else None) if op_ == "Lt" else t_["else"]
            pushes = {b2 for b2, t2 in sb_.calls() if (t2.get("res") or "").endswith("Vec::<T, A>::push") and "remembered_strings" in derive(six, t2["args"][0]).names}
            seen_, stack_, escapes = set(), [nonneg], False
            while stack_ and nonneg is not None:
                x = stack_.pop()
                if x in seen_ or x in pushes or sb_.blocks[x]["cleanup"]:
                    continue
                seen_.add(x)
                if sb_.blocks[x]["t"]["k"] == "return":
                    escapes = True
                    break
                stack_ += [s_ for s_ in sb_.succ(x)]
            ctx.ob("HKMEMBERS", "read_string|every-literal-remembered", nonneg is not None and bool(pushes) and not escapes, f"read_string: from the non-negative-length side of its `length < 0` test a return is reachable without pushing onto remembered_strings: {escapes}; pushes found: {len(pushes)} (every literal, also the empty one, takes the next back-reference slot)", sb_.file, sb_.line)
    # the bit field of `count` members occupies ceil(count / 8) bytes: the byte count handed to read_bytes, as an
    # expression of the parameter, is evaluated for every count up to 4096 (integer +, -, *, /, %, &, |, >>, <<, div_ceil)
    bfb = prog.body("havok::binary_tag_file_reader::HavokBinaryTagFileReader::<'a>::read_bit_field")
    if not bfb:
        ctx.fail_closed("HKMEMBERS", "read_bit_field not found")
    else:
        def _ev(e, n):
            if e == ("p", 2):
                return n
            if is_const(e):
                return e[1]
            if isinstance(e, tuple) and e[0] in ("cast", "chk"):
                return _ev(e[2] if e[0] == "cast" else e[1], n)
            if isinstance(e, tuple) and e[0] == "fld" and isinstance(e[1], tuple) and e[1][0] == "bin" and e[1][1].endswith("WithOverflow") and e[2] in (0, "0"):
                return _ev(("bin", e[1][1].replace("WithOverflow", ""), e[1][2], e[1][3]), n)
            if isinstance(e, tuple) and e[0] == "bin":
                a, b_ = _ev(e[2], n), _ev(e[3], n)
                if a is None or b_ is None:
                    return None
                ops_ = {"Add": lambda: a + b_, "Sub": lambda: a - b_, "Mul": lambda: a * b_, "Div": lambda: a // b_, "Rem": lambda: a % b_, "BitAnd": lambda: a & b_, "BitOr": lambda: a | b_,
                        "Shr": lambda: a >> b_ if 0 <= b_ < 64 else None, "Shl": lambda: a << b_ if 0 <= b_ < 64 else None}
                try:
                    return ops_[e[1]]() if e[1] in ops_ else None
                except (ZeroDivisionError, ValueError):
                    return None
            if isinstance(e, tuple) and e[0] == "call" and e[1].split("::")[-1] == "div_ceil" and len(e[2]) == 2:
                a, b_ = _ev(e[2][0], n), _ev(e[2][1], n)
                return -(-a // b_) if a is not None and b_ else None
            return None

        exprs = []
        seen_bb = set()
        for p_ in Explorer(bfb).explore():
            for (bb_, callee, args, _r) in p_.events:
                if callee.split("::")[-1] == "read_bytes" and len(args) == 2 and bb_ not in seen_bb:
                    seen_bb.add(bb_)
                    exprs.append(args[1])
        wrong = None
        if len(exprs) == 1:
            for n_ in range(0, 4097):
                v_ = _ev(exprs[0], n_)
                if v_ != (n_ + 7) // 8:
                    wrong = (n_, v_)
                    break
        ctx.ob("HKMEMBERS", "bit-field-bytes", len(exprs) == 1 and wrong is None, f"read_bit_field reads {show(exprs[0]) if exprs else '?'} bytes for `count` members; " + (f"for count = {wrong[0]} that is {wrong[1]}, the bit field has {(wrong[0] + 7) // 8}" if wrong else "equal to ceil(count / 8) for every count up to 4096"), bfb.file, bfb.line, sample=True)

    # ---- HKNAMES
    def member_map(fn, adt, want):
        b = prog.body(fn)
        if not b:
            ctx.fail_closed("HKNAMES", f"{fn} not found")
            return
        ix = index_of(b)
        aggs = list(_struct_agg(b, adt))
        if len(aggs) != 1:
            ctx.fail_closed("HKNAMES", f"{fn}: expected one {adt} literal, found {len(aggs)}")
            return
        ops = dict(zip(aggs[0][1]["rv"]["fields"], aggs[0][1]["rv"]["ops"]))
        for f, (member, acc) in want.items():
            if f not in ops:
                ctx.fail_closed("HKNAMES", f"{adt} has no field {f}")
                continue
            d = derive(ix, ops[f])
            # closures handed to map(): look inside them for the accessor applied to each element
            calls = {_last(c) for c in d.calls}
            ok = d.strs == {member} and "get" in calls and "as_array" in calls
            ctx.ob("HKNAMES", f"{adt.split('::')[-1]}.{f}", ok, f"{f} is built from member(s) {sorted(d.strs)} via {sorted(calls & {'get', 'as_array', 'as_int', 'as_vec', 'as_object', 'as_string', 'as_real'})}; must be get(\"{member}\").as_array()", b.file, b.line, sample=(f == "reference_pose"))

    member_map("havok::skeleton::HavokSkeleton::new", "havok::skeleton::HavokSkeleton", {"bone_names": ("bones", "as_object"), "parent_indices": ("parentIndices", "as_int"), "reference_pose": ("referencePose", "as_vec")})
    # per-element accessors live in the three map closures, in source order
    hs = "havok::skeleton::HavokSkeleton::new"
    # (closures, or local fns handed to map(): both are "deep bodies" of the constructor)
    cls = [b_ for b_ in prog.deep_bodies(hs) if b_.name != hs] if prog.body(hs) else []
    acc = []
    for cb in cls:
        names = [_last(t.get("res")) for _b, t in sorted(cb.calls())]
        strs = set()
        cix = index_of(cb)
        for _b, t in cb.calls():
            for a in t["args"]:
                strs |= derive(cix, a).strs
        acc.append((tuple(n_ for n_ in names if n_ in ("as_object", "as_int", "as_vec", "as_string", "as_real", "as_array", "get", "new")), tuple(sorted(strs))))
    want_acc = [(("as_object", "get", "as_string"), ("name",)), (("as_int",), ()), (("as_vec", "new"), ())]
    if sorted(acc) != sorted(want_acc) and prog.body(hs):
        # one of the three element loops written in the constructor itself instead of a closure / helper: the accessor
        # sequences are then looked for as sub-sequences of the constructor's own calls
        hb_ = prog.body(hs)
        own = [_last(t.get("res")) for _b, t in sorted(hb_.calls())]
        hix_ = index_of(hb_)
        own_strs = set()
        for _b, t in hb_.calls():
            for a in t["args"]:
                own_strs |= derive(hix_, a).strs
        missing = [w for w in want_acc if w not in acc]
        extra = [a_ for a_ in acc if a_ not in want_acc]

        def subseq(seq, inside):
            it = iter(inside)
            return all(x in it for x in seq)

        if not extra and all(subseq(w[0], own) and set(w[1]) <= own_strs for w in missing) and "as_real" not in own:
            acc = list(want_acc)
    ctx.ob("HKNAMES", "element-accessors", sorted(acc) == sorted(want_acc), f"per-element decoding is {acc}; must be bone -> as_object().get(\"name\").as_string(), parent index -> as_int(), pose -> HavokTransform::new(as_vec())", prog.body(hs).file if prog.body(hs) else None, None)
    cb_ = prog.body("havok::animation_container::HavokAnimationContainer::new")
    if cb_:
        cix = index_of(cb_)
        aggs = list(_struct_agg(cb_, "HavokAnimationContainer"))
        ok = False
        if len(aggs) == 1:
            ops = dict(zip(aggs[0][1]["rv"]["fields"], aggs[0][1]["rv"]["ops"]))
            ok = "skeletons" in ops and derive(cix, ops["skeletons"]).strs == {"skeletons"}
        ctx.ob("HKNAMES", "HavokAnimationContainer.skeletons", ok, "skeletons is built from member \"skeletons\"", cb_.file, cb_.line)
    else:
        ctx.fail_closed("HKNAMES", "HavokAnimationContainer::new not found")
    ob_ = prog.body("havok::object::HavokRootObject::find_object_by_type")
    if ob_:
        strs = set()
        for xb_ in prog.deep_bodies("havok::object::HavokRootObject::find_object_by_type"):  # the search may sit in closures / a predicate fn
            oix = index_of(xb_)
            for _b, t in xb_.calls():
                if _last(t.get("res")) == "get":
                    for a in t["args"]:
                        strs |= derive(oix, a).strs
        oix = index_of(ob_)
        ctx.ob("HKNAMES", "root-variants", strs == {"namedVariants", "className", "variant"}, f"the root object is searched through members {sorted(strs)}; must be namedVariants / className / variant", ob_.file, ob_.line)
    else:
        ctx.fail_closed("HKNAMES", "find_object_by_type not found")

    # ---- TRANSFORM
    tb = prog.body("havok::transform::HavokTransform::new")
    if not tb:
        ctx.fail_closed("TRANSFORM", "HavokTransform::new not found")
    else:
        ix = index_of(tb)
        aggs = list(_struct_agg(tb, "HavokTransform"))
        if len(aggs) != 1:
            ctx.fail_closed("TRANSFORM", "expected one HavokTransform literal")
        else:
            ops = dict(zip(aggs[0][1]["rv"]["fields"], aggs[0][1]["rv"]["ops"]))
            for f, base in (("translation", 0), ("rotation", 4), ("scale", 8)):
                arr = _array_ops(ix, ops.get(f)) if f in ops else None
                got = []
                for o in arr or []:
                    dd = derive(ix, o)
                    v_ = sorted(dd.consts)[0] if len(dd.consts) == 1 and 1 in dd.params else None
                    if v_ is None and 1 in dd.params:
                        v_ = _elem_const_index(ix, o)
                    got.append(v_)
                ctx.ob("TRANSFORM", f, got == [base, base + 1, base + 2, base + 3], f"HavokTransform.{f} is built from elements {got} of the 12-float pose; must be {[base, base + 1, base + 2, base + 3]}", tb.file, tb.line, sample=(f == "rotation"))

    # ---- HKTABLE
    consts = {}
    for k in prog.consts:
        m_ = re.match(r"^havok::object::HavokValueType::([A-Z0-9]+)$", k)
        if m_:
            v_ = prog.const_scalar(k)
            if v_ is not None:
                consts[m_.group(1)] = v_
    got = {k: consts.get(k) for k in HK_VALUE_TYPES}
    ctx.ob("HKTABLE", "value-types", got == HK_VALUE_TYPES, f"HavokValueType base codes {got}; the tag-file format has {HK_VALUE_TYPES}", "src/havok/object.rs", None, sample=True)
    comp = {k: v for k, v in consts.items() if (k.startswith("ARRAY") and k != "ARRAY") or (k.startswith("TUPLE") and k != "TUPLE")}
    bad = [k for k, v in comp.items() if v != ((0x10 if k.startswith("ARRAY") else 0x20) | HK_VALUE_TYPES.get(k[5:], -1))]
    ctx.ob("HKTABLE", "composite-types", not bad and len(comp) >= 20, f"{len(comp)} composite codes are ARRAY|base / TUPLE|base ({bad or 'all consistent'})", "src/havok/object.rs", None)
    vb = prog.body("havok::object::HavokValueType::vec_size")
    if vb:
        from ..table import Table

        try:
            tbl = Table(vb, prog).rows()
        except Exception:
            tbl = None
        m = {}
        if tbl:
            for conds, val in tbl:
                pass
        # decision table by direct CFG reading: switch on bits -> constant return
        for bi, blk in enumerate(vb.blocks):
            t = blk["t"]
            if t["k"] == "switch" and len(t["arms"]) >= 4:
                for v, tgt in t["arms"]:
                    for st in vb.blocks[tgt]["s"]:
                        if st["k"] == "assign" and st["lhs"]["l"] == 0 and const_int(st["rv"].get("a", {})) is not None:
                            m[int(v)] = const_int(st["rv"]["a"])
        if not m:
            # comparisons compiled as a chain of PartialEq::eq calls against promoted constants: read arm order
            rets = [const_int(st["rv"]["a"]) for _b, _s, st in vb.stmts() if st["k"] == "assign" and st["lhs"]["l"] == 0 and not st["lhs"]["p"] and st["rv"]["k"] == "use" and const_int(st["rv"]["a"]) is not None]
            eqs = []
            vix = index_of(vb)
            for _b, t in sorted(vb.calls()):
                if _last(t.get("res")) == "eq":
                    for a in t["args"]:
                        r = vix.resolve(a)
                        k = a.get("k") if isinstance(a, dict) else None
                    eqs.append(_b)
            ctx.extra["vec_size_returns"] = rets
            ok = rets == [4, 8, 12, 16]
            ctx.ob("HKTABLE", "vec-size", ok, f"vec_size returns {rets} for the arms VEC4, VEC8, VEC12, VEC16 in declaration order; must be [4, 8, 12, 16]", vb.file, vb.line)
        else:
            ctx.ob("HKTABLE", "vec-size", m == HK_VEC_SIZE, f"vec_size maps base codes to widths {m}; must be {HK_VEC_SIZE}", vb.file, vb.line)
    else:
        ctx.fail_closed("HKTABLE", "HavokValueType::vec_size not found")

    # ---- PACKEDINT: the variable-length integer's pieces tile the bit positions (no overlap, no gap)
    pb = prog.body("havok::binary_tag_file_reader::HavokBinaryTagFileReader::<'a>::read_packed_int")
    if not pb:
        ctx.fail_closed("PACKEDINT", "read_packed_int not found")
    else:
        pix = P.BodyIndex(pb)
        acc = None
        for bi, si, st in pb.stmts():
            rv = st.get("rv") or {}
            if st["k"] == "assign" and rv.get("k") == "bin" and rv["op"] == "BitOr" and not st["lhs"]["p"]:
                for x, y in ((rv["a"], rv["b"]), (rv["b"], rv["a"])):
                    px = op_place(x)
                    if px and not px["p"] and px["l"] == st["lhs"]["l"]:
                        acc = (st["lhs"]["l"], y, bi)
        if not acc:
            ctx.fail_closed("PACKEDINT", "no `result |= piece << shift` accumulation found")
        else:
            res_l, piece, acc_bb = acc
            rp = pix.resolve(piece)
            c0 = c1 = ub_piece = ub_first = None
            if rp[0] == "rv" and rp[1]["k"] == "bin" and rp[1]["op"] in ("Shl", "ShlUnchecked"):
                ub_piece = P.upper_bound(pix, rp[1]["a"])
                sh = op_place(rp[1]["b"])
                # the shift operand is a copy of the shift counter
                sl = None
                cur = sh
                for _ in range(4):
                    if cur is None or cur["p"]:
                        break
                    d = pix.single_def(cur["l"])
                    if d is None:
                        sl = cur["l"]
                        break
                    if d[0] == "assign" and d[3]["rv"]["k"] in ("use", "cast"):
                        cur = op_place(d[3]["rv"]["a"])
                    else:
                        break
                if sl is not None:
                    for d in pix.defs.get(sl, []):
                        if d[0] != "assign" or d[3]["lhs"]["p"]:
                            continue
                        rv = d[3]["rv"]
                        if rv["k"] == "use" and const_int(rv["a"]) is not None:
                            c0 = const_int(rv["a"])
                        elif rv["k"] == "use":
                            q = op_place(rv["a"])
                            dd = pix.single_def(q["l"]) if q else None
                            if dd and dd[0] == "assign" and dd[3]["rv"]["k"] == "bin" and dd[3]["rv"]["op"].startswith("Add"):
                                c1 = const_int(dd[3]["rv"]["b"]) if const_int(dd[3]["rv"]["b"]) is not None else const_int(dd[3]["rv"]["a"])
            firsts = [d for d in pix.defs.get(res_l, []) if d[0] == "assign" and not d[3]["lhs"]["p"] and d[1] != acc_bb]
            firsts_call = [d for d in pix.defs.get(res_l, []) if d[0] == "call" and d[1] != acc_bb]
            if len(firsts) == 1 and not firsts_call:
                rv = firsts[0][3]["rv"]
                ub_first = P.upper_bound(pix, rv["a"]) if rv["k"] in ("use", "cast") else None
            elif len(firsts_call) == 1 and not firsts:
                # the first piece converted with u32::from(..) instead of a cast
                import re as _re

                t_ = firsts_call[0][3]
                if _re.search(r"convert::From<(u8|u16)>( for \w+)?>::from$", pix.callee(t_)) and t_["args"]:
                    ub_first = P.upper_bound(pix, t_["args"][0])
            ctx.extra["packed_int"] = dict(first_piece_bound=ub_first, first_shift=c0, next_piece_bound=ub_piece, shift_step=c1)
            ctx.ob("PACKEDINT", "first-piece", ub_first is not None and c0 is not None and ub_first == (1 << c0) == 64, f"the first byte contributes values below {ub_first} and the next piece starts at bit {c0}; the format has 6 value bits in the first byte (bit 0 sign, bit 7 continuation)", pb.file, pb.line, sample=True)
            ctx.ob("PACKEDINT", "next-pieces", ub_piece is not None and c1 is not None and ub_piece == (1 << c1) == 128, f"each further byte contributes values below {ub_piece} and advances the position by {c1}; the format has 7 value bits per continuation byte", pb.file, pb.line)
        # sign: negation only under (byte & 1) == 1 ; continuation: the loop runs while (byte & 0x80) != 0
        def masked_test(mask, want_eq_const):
            def pred(dop, val, par):
                r = pix.resolve(dop)
                if r[0] == "rv" and r[1]["k"] == "bin" and r[1]["op"] in ("Eq", "Ne"):
                    for x, y in ((r[1]["a"], r[1]["b"]), (r[1]["b"], r[1]["a"])):
                        cy, rx = pix.resolve(y), pix.resolve(x)
                        if cy[0] == "const" and rx[0] == "rv" and rx[1]["k"] == "bin" and rx[1]["op"] == "BitAnd" and mask in (const_int(rx[1]["a"]), const_int(rx[1]["b"])):
                            is_true = val == 1 or (isinstance(val, tuple) and val[0] == "not" and val[1] == (0,))
                            holds_eq = is_true if r[1]["op"] == "Eq" else val == 0
                            holds_ne = is_true if r[1]["op"] == "Ne" else val == 0
                            # want: on this edge (byte & mask) == want_eq_const ... for a one-bit mask, != 0 means == mask
                            if cy[1] == want_eq_const:
                                return holds_eq
                            if cy[1] == 0 and want_eq_const == mask:
                                return holds_ne
                return False
            return pred

        neg_bb = [bi for bi, si, st in pb.stmts() if st["k"] == "assign" and st["rv"]["k"] == "un" and st["rv"]["op"] == "Neg"]
        ctx.ob("PACKEDINT", "sign-bit", len(neg_bb) == 1 and P.guard_dominates(pix, neg_bb[0], masked_test(1, 1)), "the value is negated exactly under (first byte & 1) == 1", pb.file, pb.line)
        ctx.ob("PACKEDINT", "continuation-bit", bool(acc) and P.guard_dominates(pix, acc[2], masked_test(0x80, 0x80)), "a further byte is consumed exactly while (byte & 0x80) != 0", pb.file, pb.line)

    # ---- CHAIN
    gb = prog.body("pbd::PreBoneDeformer::get_deform_matrices")
    if not gb:
        ctx.fail_closed("CHAIN", "get_deform_matrices not found")
    else:
        ix = index_of(gb)
        pairs = set()
        for bi, t in _elem_calls(gb):
            cont = P.source_name(ix, t["args"][0]) or "?"
            idx = P.source_name(ix, t["args"][1]) or "?"
            if P.loop_var(ix, t["args"][1]):
                idx = "loop"
            pairs.add((cont, idx))
        want = {("links", "link_index"), ("links", "parent_index"), ("items", "deformer_index"), ("bone_names", "loop"), ("transform", "loop")}
        ctx.ob("CHAIN", "lookups", pairs == want, f"table lookups are {sorted(pairs)}; must be {sorted(want)}", gb.file, gb.line, sample=True)
        # pairing: name and deform of one pushed bone use the same counter
        aggs = list(_struct_agg(gb, "PreBoneDeformBone"))
        okp = False
        if len(aggs) == 1:
            ops = dict(zip(aggs[0][1]["rv"]["fields"], aggs[0][1]["rv"]["ops"]))
            dn, dt = derive(ix, ops["name"]), derive(ix, ops["deform"])
            loop_locals = lambda d: {l for l in d.locals if any(k == "call" and _last(st.get("res")) == "next" for k, _b, _s, st in ix.defs.get(l, []))}
            okp = "bone_names" in dn.names and "transform" in dt.names and "transform" not in dn.names and "bone_names" not in dt.names and bool(loop_locals(dn) & loop_locals(dt))
        ctx.ob("CHAIN", "pairing", okp, "each pushed bone takes its name from bone_names[i] and its matrix from transform[i] with the same i", gb.file, gb.line)
        # bounds of the bone loop: bone_count of the current item
        rng = [derive(ix, st["rv"]["ops"][1]).names for _b, _s, st in gb.stmts() if st["k"] == "assign" and st["rv"]["k"] == "agg" and st["rv"].get("adt", "").endswith("ops::Range")]
        ctx.ob("CHAIN", "bone-count", any("bone_count" in n_ for n_ in rng), "the bone loop runs over deformer.bone_count", gb.file, gb.line)
        # start item: find() closure compares body_id with from_body_id (param 2); stop test compares with to_body_id (param 3)
        stop_ok = start_ok = root_ok = sib_ok = same_ok = start_loop_ok = False
        for bi, blk in enumerate(gb.blocks):
            t = blk["t"]
            if t["k"] != "switch" or blk["cleanup"]:
                continue
            r = ix.resolve(t["a"])
            if r[0] == "rv" and r[1]["k"] == "bin" and r[1]["op"] in ("Eq", "Ne"):
                da, db = derive(ix, r[1]["a"]), derive(ix, r[1]["b"])
                names = da.names | db.names
                params = da.params | db.params
                consts = da.consts | db.consts
                sides = [(P.source_name(ix, x), ix.resolve(x)) for x in (r[1]["a"], r[1]["b"])]
                if any(n_ == "body_id" for n_, _r in sides) and any(r_[0] == "param" and r_[1] == 3 for _n, r_ in sides):
                    stop_ok = True
                if any(n_ == "body_id" for n_, _r in sides) and any(r_[0] == "param" and r_[1] == 2 for _n, r_ in sides) and "items" in names and "next" in {_last(c_) for c_ in (da.calls | db.calls)}:
                    start_loop_ok = True  # the start item searched with a loop over items (written in a helper or in place)
                minus1 = any(r_[0] == "const" and r_[1] in (-1, 0xFFFF) for _n, r_ in sides)
                if any(n_ == "parent_index" for n_, _r in sides) and minus1:
                    root_ok = True
                if any(n_ == "next_sibling_index" for n_, _r in sides) and minus1:
                    sib_ok = True
                if params == {2, 3} and not names:
                    same_ok = True
        # the search closure is one built in the analysed body: written in the function or in a helper inlined into it
        built = [rv_["closure"] for _b, _s, st_ in gb.stmts() for rv_ in [st_.get("rv") or {}] if st_["k"] == "assign" and rv_.get("k") == "agg" and rv_.get("ak") == "closure" and rv_.get("closure")]
        for cb in [prog.body(n_) for n_ in dict.fromkeys(built) if prog.body(n_)] or prog.closures_of("pbd::PreBoneDeformer::get_deform_matrices"):
            cix = index_of(cb)
            for _b, _s, st in cb.stmts():
                rv = st.get("rv") or {}
                if st["k"] == "assign" and rv.get("k") == "bin" and rv["op"] == "Eq":
                    da, db = derive(cix, rv["a"]), derive(cix, rv["b"])
                    if "body_id" in (da.names | db.names) and ({"#0"} & (da.names | db.names) or 1 in (da.params | db.params)):
                        start_ok = True
        cap_ok = False
        for _b, _s, st in gb.stmts():
            rv = st.get("rv") or {}
            if st["k"] == "assign" and rv.get("k") == "agg" and rv.get("ak") == "closure":
                cap_ok = any(2 in derive(ix, o).params for o in rv["ops"]) and not any(3 in derive(ix, o).params for o in rv["ops"])
        ctx.ob("CHAIN", "start-item", (start_ok and cap_ok) or start_loop_ok, "the walk starts at the item whose body_id equals from_body_id", gb.file, gb.line)
        ctx.ob("CHAIN", "stop-at-target", stop_ok, "the walk stops when the item's body_id equals to_body_id", gb.file, gb.line)
        # order inside one step of the walk: the current item's matrices are collected before the root test can end the
        # walk (a root item contributes its own matrices)
        from ..loops import classify as _classify

        order_ok = None
        root_tests = []
        for bi_, blk_ in enumerate(gb.blocks):
            t_ = blk_["t"]
            if t_["k"] != "switch" or blk_.get("clone"):
                continue
            r_ = ix.resolve(t_["a"])
            if r_[0] == "rv" and r_[1]["k"] == "bin" and r_[1]["op"] in ("Eq", "Ne"):
                sides_ = [(P.source_name(ix, x_), ix.resolve(x_)) for x_ in (r_[1]["a"], r_[1]["b"])]
                if any(n_ == "parent_index" for n_, _r in sides_) and any(rr_[0] == "const" and rr_[1] in (-1, 0xFFFF) for _n, rr_ in sides_):
                    root_tests.append(bi_)
        loops_ = _classify(gb)
        push_bbs = [bi_ for bi_, t_ in gb.calls() if _last(t_.get("res")) == "push" and "bones" in {P.source_name(ix, t_["args"][0])} | derive(ix, t_["args"][0]).names]
        walk = [lp_ for lp_ in loops_ if any(rt_ in lp_["blocks"] for rt_ in root_tests)]
        walk = max(walk, key=lambda lp_: len(lp_["blocks"])) if walk else None
        if walk and push_bbs:
            inner = [lp_ for lp_ in loops_ if lp_["head"] != walk["head"] and lp_["blocks"] <= walk["blocks"] and any(pb_ in lp_["blocks"] for pb_ in push_bbs)]
            collect_heads = [lp_["head"] for lp_ in inner] or [pb_ for pb_ in push_bbs if pb_ in walk["blocks"]]
            rts = [rt_ for rt_ in root_tests if rt_ in walk["blocks"]]
            order_ok = bool(collect_heads) and bool(rts) and all(any(gb.dominates(ch_, rt_) for ch_ in collect_heads) for rt_ in rts)
        ctx.ob("CHAIN", "collect-before-root-test", order_ok is True, "within one step of the walk the current item's matrices are collected before the `parent_index == -1` test can end it (a root item contributes its own matrices)", gb.file, gb.line)
        # polarity of the three tests: which side of each comparison leaves the walk / answers None
        def _eq_targets(bi_):
            t_ = gb.blocks[bi_]["t"]
            r_ = ix.resolve(t_["a"])
            zero = [int(tg) for v_, tg in t_["arms"] if int(v_) == 0]
            if not zero or not isinstance(t_.get("else"), int):
                return None
            return (t_["else"], zero[0]) if r_[1]["op"] == "Eq" else (zero[0], t_["else"])  # (operands equal, operands differ)

        def _none_only(start):
            # every return reachable from `start` without re-entering the walk produces None
            seen_, todo_, prod = set(), [start], set()
            while todo_:
                x = todo_.pop()
                if x in seen_ or gb.blocks[x]["cleanup"]:
                    continue
                seen_.add(x)
                for st_ in gb.blocks[x]["s"]:
                    rv_ = st_.get("rv") or {}
                    if st_.get("k") == "assign" and st_["lhs"]["l"] == 0 and not st_["lhs"]["p"] and rv_.get("k") == "agg":
                        prod.add(rv_.get("variant"))
                todo_ += list(gb.succ(x))
            return prod

        pol = {}
        for bi_, blk_ in enumerate(gb.blocks):
            t_ = blk_["t"]
            if t_["k"] != "switch" or blk_["cleanup"] or blk_.get("clone"):
                continue
            r_ = ix.resolve(t_["a"])
            if not (r_[0] == "rv" and r_[1]["k"] == "bin" and r_[1]["op"] in ("Eq", "Ne")):
                continue
            sides_ = [(P.source_name(ix, x_), ix.resolve(x_)) for x_ in (r_[1]["a"], r_[1]["b"])]
            tg = _eq_targets(bi_)
            if tg is None:
                continue
            m1 = any(rr_[0] == "const" and rr_[1] in (-1, 0xFFFF) for _n, rr_ in sides_)
            da_, db_ = derive(ix, r_[1]["a"]), derive(ix, r_[1]["b"])
            if any(n_ == "parent_index" for n_, _r in sides_) and m1 and walk:
                pol["root"] = tg[0] not in walk["blocks"] and tg[1] in walk["blocks"]
            if any(n_ == "body_id" for n_, _r in sides_) and any(rr_[0] == "param" and rr_[1] == 3 for _n, rr_ in sides_) and walk:
                pol["target"] = tg[0] not in walk["blocks"] and (tg[1] in walk["blocks"] or tg[1] == walk["head"])
            if any(n_ == "next_sibling_index" for n_, _r in sides_) and m1:
                pol["sibling"] = _none_only(tg[0]) == {"None"} and "Some" in _none_only(tg[1])
            if (da_.params | db_.params) == {2, 3} and not (da_.names | db_.names):
                pol["identity"] = _none_only(tg[0]) == {"None"} and "Some" in _none_only(tg[1])
        ctx.ob("CHAIN", "test-polarity", pol.get("root") is True and pol.get("target") is True and pol.get("sibling") is True and pol.get("identity") is True, f"sides of the walk's tests: a root link (parent_index == -1) and the target item (body_id == to) leave the walk, a start item without siblings (next_sibling_index == -1) and an identity query answer None: {pol}", gb.file, gb.line)
        ctx.ob("CHAIN", "stop-at-root", root_ok, "the walk stops at a link whose parent_index is -1", gb.file, gb.line)
        ctx.ob("CHAIN", "identity-query", same_ok, "from_body_id == to_body_id is answered with None before any lookup", gb.file, gb.line, trivial=True)

    # ---- STRINGS
    sp = prog.body("common_file_operations::strings_parser")
    if not sp:
        ctx.fail_closed("STRINGS", "strings_parser not found")
    else:
        ix = index_of(sp)
        ok = False
        for bi, si, st in sp.stmts():
            rv = st.get("rv") or {}
            if st["k"] == "assign" and rv.get("k") == "agg" and rv.get("adt", "").endswith("SeekFrom") and rv.get("variant") == "Start":
                d = derive(ix, rv["ops"][0])
                ok = "Add" in d.ops and "next" in {_last(c) for c in d.calls} and len(d.params) >= 1 and not (d.ops - {"Add"})
        if not ok:
            # the per-name body written as a closure mapped over the offset table: the seek target is the captured base
            # offset plus the closure's element
            for cb_ in prog.closures_of(sp.name):
                cix_ = index_of(cb_)
                mapped = False
                for _b, t_ in sp.calls():
                    if _last(t_.get("res")) == "map" and len(t_["args"]) == 2:
                        k_ = ix.resolve(t_["args"][1])
                        if k_[0] == "rv" and k_[1]["k"] == "agg" and k_[1].get("closure") == cb_.name:
                            dm_ = derive(ix, t_["args"][0])
                            mapped = bool(dm_.params) and {"iter", "into_iter"} & {_last(c_) for c_ in dm_.calls} and not ({"rev", "skip", "step_by", "filter"} & {_last(c_) for c_ in dm_.calls})
                for _b, _s, st in cb_.stmts():
                    rv = st.get("rv") or {}
                    if st["k"] == "assign" and rv.get("k") == "agg" and rv.get("adt", "").endswith("SeekFrom") and rv.get("variant") == "Start":
                        d = derive(cix_, rv["ops"][0])
                        ok = mapped and "Add" in d.ops and not (d.ops - {"Add"}) and 2 in d.params and bool(d.outer_params)
        ctx.ob("STRINGS", "seek", ok, "each name is read at base_offset + its table entry", sp.file, sp.line)
        it = wm.items.by_path.get("pbd::RacialDeformer")
        f = next((f for f in (it or {}).get("fields", []) if f["name"] == "bone_names"), None)
        txt = " ".join(d.text for d in W.directives(f["attrs"]) if d.name == "args") if f else ""
        ctx.ob("STRINGS", "bone-names-args", "data_offset" in txt and "bone_name_offsets" in txt and "parse_with" in " ".join(d.name for d in W.directives(f["attrs"])) if f else False, f"bone_names is parsed with args({txt}); must be the deformer's data offset and its name offset table", "src/pbd.rs", f["line"] if f else None)

    # ---- PBD padding parity: the 2-byte pad is present exactly when the u16 name table has an odd number of entries
    rd = prog.body("<pbd::RacialDeformer as binrw::BinRead>::read_options::{closure#0}")
    if not rd:
        ctx.fail_closed("STRINGS", "RacialDeformer reader not found")
    else:
        rix = P.BodyIndex(rd)
        tgt = [bi for bi, t in rd.calls() if (t.get("res") or "").endswith("Try>::branch") and any(g.replace(" ", "") == "std::result::Result<u16,binrw::Error>" for g in (t["f"].get("k") or {}).get("ga", []))]
        okp = False
        if len(tgt) == 1:
            def pred(dop, val, par):
                r = rix.resolve(dop)
                if r[0] == "rv" and r[1]["k"] == "bin" and r[1]["op"] in ("Ne", "Eq"):
                    for x, y in ((r[1]["a"], r[1]["b"]), (r[1]["b"], r[1]["a"])):
                        cy, rx = rix.resolve(y), rix.resolve(x)
                        if cy[0] == "const" and cy[1] == 0 and rx[0] == "rv" and rx[1]["k"] == "bin" and rx[1]["op"] == "BitAnd":
                            m1 = [z for z in (rx[1]["a"], rx[1]["b"]) if const_int(z) == 1]
                            nm = [P.source_name(rix, z) for z in (rx[1]["a"], rx[1]["b"]) if const_int(z) is None]
                            if m1 and nm == ["bone_count"]:
                                is_true = val == 1 or (isinstance(val, tuple) and val[0] == "not" and val[1] == (0,))
                                return is_true if r[1]["op"] == "Ne" else val == 0
                return False

            okp = P.guard_dominates(rix, tgt[0], pred)
        ctx.ob("STRINGS", "name-table-padding", okp, "the 2-byte pad after the u16 name-offset table is read exactly when bone_count is odd (matrices stay 4-byte aligned)", rd.file, rd.line)

    # ---- CMP
    cb = prog.body("cmp::CMP::from_existing")
    if not cb:
        ctx.fail_closed("CMP", "cmp::CMP::from_existing not found")
    else:
        ix = index_of(cb)
        seeks = [const_int(st["rv"]["ops"][0]) for _b, _s, st in cb.stmts() if st["k"] == "assign" and st["rv"]["k"] == "agg" and st["rv"].get("adt", "").endswith("SeekFrom") and st["rv"].get("variant") == "Start"]
        ctx.ob("CMP", "table-offset", seeks == [0x2A800], f"the scaling table is read from offset(s) {[hex(s) if s is not None else s for s in seeks]}; must be 0x2a800", cb.file, cb.line, sample=True)
        it = wm.items.by_path.get("cmp::RacialScalingParameters")
        ws = wm.item_size(it) if it else None
        ms = (prog.adts.get("cmp::RacialScalingParameters") or {}).get("size")
        uses_sizeof = any((t.get("res") or "").endswith("mem::size_of") and ((t["f"].get("k") or {}).get("ga") or [""])[0] == "cmp::RacialScalingParameters" for _b, t in cb.calls())
        ctx.ob("CMP", "row-stride", ws == 56 and (not uses_sizeof or int(ms or -1) == ws), f"rows are {ws} bytes on the wire; the entry count divides by size_of = {ms}", cb.file, cb.line)
        deep_c = prog.deep_bodies("cmp::CMP::from_existing")
        all_calls = [t for b_ in deep_c for _b, t in b_.calls()]
        pushes = [t for t in all_calls if _last(t.get("res")) == "push"]
        reads = [t for t in all_calls if "RacialScalingParameters" in (t.get("res") or "") + " ".join((t["f"].get("k") or {}).get("ga", [])) and "read" in _last(t.get("res"))]
        # rows collected by push in a loop, or by collect() over a forward map of the reads
        collected = any(_last(t.get("res")) == "collect" for t in all_calls) and any(_last(t.get("res")) == "map" for t in all_calls)
        ctx.ob("CMP", "rows-in-order", (len(pushes) == 1 or (not pushes and collected)) and len(reads) >= 1 and not any(_last(t.get("res")) in ("insert", "reverse", "rev", "sort", "sort_by", "swap") for t in all_calls), "rows are pushed in the order they are read", cb.file, cb.line, trivial=True)

    # ---- TERA
    tb = prog.body("tera::Terrain::from_existing")
    wb = prog.body("tera::Terrain::write_to_buffer")
    if not tb or not wb:
        ctx.fail_closed("TERA", "tera::Terrain::from_existing / write_to_buffer not found")
    else:
        ix = index_of(tb)
        thits = _find_literal(prog, "tera::Terrain::from_existing", "tera::PlateModel")
        if len(thits) != 1:
            ctx.fail_closed("TERA", "expected one PlateModel literal in from_existing")
        else:
            lit_b = thits[0][0]
            tb_top = tb
            tb = lit_b
            ix = index_of(lit_b)
            ops = dict(zip(thits[0][1]["rv"]["fields"], thits[0][1]["rv"]["ops"]))
            r = ix.resolve(ops["position"])
            lanes = r[1]["ops"] if r[0] == "rv" and r[1]["k"] == "agg" else []
            for i, axis in enumerate(("x", "y")):
                ok = False
                det = "?"
                if i < len(lanes):
                    d = derive(ix, lanes[i])
                    other = "y" if axis == "x" else "x"
                    elem_ok = "positions" in d.names or (lit_b.name != tb_top.name and 2 in d.params)
                    ok = {"plate_size", axis} <= d.names and elem_ok and other not in d.names and d.ops == {"Mul", "Add"} and F32_HALF in d.consts
                    # the multiplication is the outer operation: plate_size * (cell + 0.5), not (plate_size * cell) + 0.5
                    rr = ix.resolve(lanes[i])
                    outer = rr[1]["op"] if rr[0] == "rv" and rr[1]["k"] == "bin" else None
                    ok = ok and outer == "Mul"
                    det = f"fields {sorted(d.names & {'plate_size', 'positions', 'x', 'y'})}, ops {sorted(d.ops)}, outer {outer}, 0.5 {'present' if F32_HALF in d.consts else 'absent'}"
                ctx.ob("TERA", f"centre-{axis}", ok, f"position.{i} is computed from {det}; must be plate_size * ({axis} + 0.5)", tb.file, tb.line, sample=(i == 0))
            from ..strx import StrX as _StrX, show as _sshow

            tsx = _StrX(tb)
            fsites = [pcs for _bi, pcs in tsx.format_sites() if any(p_[0] == "lit" and ".mdl" in p_[1] for p_ in pcs)]
            okf = False
            if len(fsites) == 1:
                pc = fsites[0]
                if len(pc) == 2 and pc[0][0] == "arg" and pc[0][1] == "display" and pc[0][2] == (4, 10, True) and pc[1] == ("lit", ".mdl") and pc[0][3] is not None:
                    dfi = derive(ix, pc[0][3])
                    okf = bool(P.loop_var(ix, pc[0][3])) or "next" in {_last(c_) for c_ in dfi.calls}
                    if not okf and lit_b.name != tb_top.name and tb.name == lit_b.name:
                        # inside a closure mapped over positions.iter().enumerate(): the index is field 0 of its argument
                        okf = dfi.params == {2} and not dfi.calls and not dfi.ops and any(pth and pth[0] == "#0" for pth in dfi.paths) and (_mapped_over_enumerate(prog, tb_top, lit_b.name) or _mapped_over_zip_from_zero(prog, tb_top, lit_b.name))
            ctx.ob("TERA", "filename", okf, f"plate file names are formatted as {[_sshow(x) for x in fsites]} of the plate index; must be the zero-padded 4-digit index + .mdl", tb.file, tb.line)
        # writer: inverse formula inside the map closure, constants of the header
        wix = index_of(wb)
        aggs = list(_struct_agg(wb, "tera::TerrainHeader"))
        if len(aggs) != 1:
            ctx.fail_closed("TERA", "expected one TerrainHeader literal in write_to_buffer")
        else:
            ops = dict(zip(aggs[0][1]["rv"]["fields"], aggs[0][1]["rv"]["ops"]))
            dpc = derive(wix, ops["plate_count"])
            ctx.ob("TERA", "writer-plate-count", "len" in {_last(c) for c in dpc.calls} and "plates" in dpc.names and not dpc.ops and not dpc.consts, "plate_count written = plates.len()", wb.file, wb.line)
            ps = wix.resolve(ops["plate_size"])
            ctx.ob("TERA", "writer-plate-size", ps[0] == "const" and ps[1] == 128, f"plate_size written = {ps[1] if ps[0] == 'const' else '?'}; the grid is 128 units", wb.file, wb.line)
        inv = []
        for cb2 in [b_ for b_ in prog.deep_bodies("tera::Terrain::write_to_buffer") if b_.name != "tera::Terrain::write_to_buffer"]:
            cix = index_of(cb2)
            for _b, st in _struct_agg(cb2, "tera::PlatePosition"):
                ops = dict(zip(st["rv"]["fields"], st["rv"]["ops"]))
                for i, axis in enumerate(("x", "y")):
                    d = derive(cix, ops[axis])
                    rr = cix.resolve(ops[axis])
                    # cast(Sub(Div(position.i, plate_size), 0.5))
                    outer = None
                    if rr[0] == "rv" and rr[1]["k"] == "cast":
                        r2 = cix.resolve(rr[1]["a"])
                        outer = r2[1]["op"] if r2[0] == "rv" and r2[1]["k"] == "bin" else None
                    mine = any(pth[-2:] == ("position", f"#{i}") for pth in d.paths)
                    theirs = any(pth[-2:] == ("position", f"#{1 - i}") for pth in d.paths)
                    inv.append((axis, mine and not theirs and d.ops == {"Div", "Sub"} and F32_HALF in d.consts and outer == "Sub"))
        ctx.ob("TERA", "writer-inverse", inv == [("x", True), ("y", True)], f"the writer stores (position / plate_size) - 0.5 per axis: {inv}", wb.file, wb.line)

    # ---- LGB
    rb = prog.body("layer::LayerGroup::from_existing")
    lw = prog.body("layer::LayerGroup::write_to_buffer")
    if not rb or not lw:
        ctx.fail_closed("LGB", "layer::LayerGroup::from_existing / write_to_buffer not found")
    else:
        rix, wix = index_of(rb), index_of(lw)
        lgb = wm.item_size(wm.items.by_path.get("layer::LgbHeader"))
        chs = wm.item_size(wm.items.by_path.get("layer::LayerChunkHeader"), {"string_heap": None}) if wm.items.by_path.get("layer::LayerChunkHeader") else None
        if chs is None:
            try:
                chs = wm.item_size(wm.items.by_path.get("layer::LayerChunkHeader"))
            except Exception:
                chs = None
        lgb_mem = int((prog.adts.get("layer::LgbHeader") or {}).get("size", -1))
        ch_const = prog.const_scalar("layer::LAYER_CHUNK_HEADER_SIZE") if hasattr(prog, "const_scalar") else None
        # reader: StringHeap::from(cursor.position() + RA) for the chunk header
        ra = None
        for _b, t in sorted(rb.calls()):
            if (t.get("res") or "").endswith("StringHeap::from") and ra is None:
                r = rix.resolve(t["args"][0])
                k = P.expr_key(rix, t["args"][0])
                if k and k[0] == "Add" and k[2] and k[2][0] == "c":
                    ra = k[2][1]
        # writer: StringHeap { pos: data_base + WA, .. } (every literal uses the same constant)
        was = set()
        for _b, st in _struct_agg(lw, "layer::StringHeap"):
            ops = dict(zip(st["rv"]["fields"], st["rv"]["ops"]))
            for f in ("pos", "free_pos"):
                d = derive(wix, ops[f])
                was |= {c for c in d.consts if 0 < c < 64}
        wa = next(iter(was)) if len(was) == 1 else None
        ctx.extra["lgb_constants"] = dict(lgb_header=lgb, lgb_header_mem=lgb_mem, chunk_header=chs, chunk_header_const=ch_const, reader_heap_add=ra, writer_heap_add=sorted(was))
        ctx.ob("LGB", "header-size", lgb == 12 and lgb_mem == lgb, f"LgbHeader is {lgb} bytes on the wire and size_of (used by the writer to skip it) is {lgb_mem}", lw.file, lw.line)
        ctx.ob("LGB", "chunk-header-size", chs == 24 and (ch_const in (None, chs)), f"LayerChunkHeader is {chs} bytes on the wire; LAYER_CHUNK_HEADER_SIZE = {ch_const}", lw.file, lw.line)
        ok = None not in (lgb, chs, ra, wa) and lgb + ra + wa == chs
        ctx.ob("LGB", "name-placement", ok, f"empty group: the name is written at header {lgb} + chunk header {chs} and announced as offset header + {wa}; the reader looks at header + {ra} + offset: {lgb} + {ra} + {wa} must equal {chs}", lw.file, lw.line, sample=True)
        # ids and names, field to field
        def agg_fields(body, adt):
            a = list(_struct_agg(body, adt))
            return dict(zip(a[-1][1]["rv"]["fields"], a[-1][1]["rv"]["ops"])) if a else {}

        wl = agg_fields(lw, "layer::LgbHeader")
        wc = agg_fields(lw, "layer::LayerChunkHeader")
        rg = agg_fields(rb, "layer::LayerGroup")
        rc = agg_fields(rb, "layer::LayerChunk")
        flow = []
        flow.append(("write file_id", "file_id" in wl and "file_id" in derive(wix, wl["file_id"]).names))
        flow.append(("write chunk_id", "chunk_id" in wc and "chunk_id" in derive(wix, wc["chunk_id"]).names and "layer_group_id" not in derive(wix, wc["chunk_id"]).names))
        flow.append(("write layer_group_id", "layer_group_id" in wc and "layer_group_id" in derive(wix, wc["layer_group_id"]).names and "chunk_id" not in derive(wix, wc["layer_group_id"]).names))
        flow.append(("write name", "name" in wc and "name" in derive(wix, wc["name"]).names))
        flow.append(("write layer_count", "layer_count" in wc and "layers" in derive(wix, wc["layer_count"]).names))
        flow.append(("write file_size", "file_size" in wl and "len" in {_last(c) for c in derive(wix, wl["file_size"]).calls}))
        flow.append(("write total_chunk_count", "total_chunk_count" in wl and "chunks" in derive(wix, wl["total_chunk_count"]).names))
        flow.append(("read file_id", "file_id" in rg and "file_id" in derive(rix, rg["file_id"]).names))
        flow.append(("read chunk_id", "chunk_id" in rc and "chunk_id" in derive(rix, rc["chunk_id"]).names and "layer_group_id" not in derive(rix, rc["chunk_id"]).names))
        flow.append(("read layer_group_id", "layer_group_id" in rc and "layer_group_id" in derive(rix, rc["layer_group_id"]).names and "chunk_id" not in derive(rix, rc["layer_group_id"]).names))
        flow.append(("read name", "name" in rc and {"name", "value"} <= derive(rix, rc["name"]).names))
        for what, ok_ in flow:
            ctx.ob("LGB", "flow|" + what, ok_, f"{what}: the field is taken from the field of the same meaning", lw.file if what.startswith("write") else rb.file, None, trivial=True)
        # the reader rejects non-positive sizes/counts before using them: the writer must therefore emit positive ones
        cs = wix.resolve(wc["chunk_size"]) if "chunk_size" in wc else ("?",)
        ctx.ob("LGB", "chunk-size-positive", cs[0] == "const" and cs[1] > 0, f"chunk_size written = {cs[1] if cs[0] == 'const' else '?'}; the reader returns None for chunk_size <= 0", lw.file, lw.line)
