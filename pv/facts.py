"""Fact extraction and caching.

Facts are produced by the two extractors under /verif/tools from the *current working tree* of the repository:
  mirfacts  (rustc_private driver; resolved program: MIR, mono call graph, consts, ADTs)
  wirefacts (syn; binrw declarations, macro invocations, literals)
They are cached under /verif/.cache/<sha256 of the tree content>/ so that the 18 checks of one tree share one
extraction; any edit to a source file, Cargo.toml or Cargo.lock changes the hash and forces re-extraction.
"""
import hashlib
import json
import os
import pickle
import shutil
import subprocess
import sys
import tempfile
import time

VERIF = os.path.dirname(os.path.dirname(os.path.abspath(__file__)))
REPO = os.environ.get("VERIF_REPO", "/repo")
CACHE = os.path.join(VERIF, ".cache")
MIRFACTS = os.path.join(VERIF, "tools/mirfacts/target/release/mirfacts")
WIREFACTS = os.path.join(VERIF, "tools/wirefacts/target/release/wirefacts")


def _nightly_sysroot():
    return subprocess.check_output(["rustc", "+nightly", "--print", "sysroot"], text=True).strip()


def tree_hash(repo=REPO):
    h = hashlib.sha256()
    files = []
    for base in ("src", "tests", "examples", "benches"):
        for root, dirs, fs in os.walk(os.path.join(repo, base)):
            dirs.sort()
            for f in sorted(fs):
                files.append(os.path.join(root, f))
    for f in ("Cargo.toml", "Cargo.lock", "build.rs"):
        p = os.path.join(repo, f)
        if os.path.exists(p):
            files.append(p)
    for p in files:
        h.update(os.path.relpath(p, repo).encode())
        h.update(b"\0")
        with open(p, "rb") as fh:
            h.update(fh.read())
        h.update(b"\0")
    # the extractors themselves are part of the key
    for tool in (MIRFACTS, WIREFACTS):
        if os.path.exists(tool):
            st = os.stat(tool)
            h.update(f"{tool}:{st.st_size}:{int(st.st_mtime)}".encode())
    return h.hexdigest()[:24]


def ensure_tools():
    missing = [t for t in (MIRFACTS, WIREFACTS) if not os.path.exists(t)]
    if missing:
        subprocess.check_call([os.path.join(VERIF, "setup.sh")], cwd=VERIF)


def run_mirfacts(repo, out_path, features=None, crate="physis"):
    """Run the driver over `repo` with a fresh target dir (cargo would otherwise skip the wrapper)."""
    tdir = tempfile.mkdtemp(prefix="pv-mir-")
    try:
        env = dict(os.environ)
        env["LD_LIBRARY_PATH"] = _nightly_sysroot() + "/lib:" + env.get("LD_LIBRARY_PATH", "")
        env["RUSTFLAGS"] = "-Zmir-opt-level=0 -Zalways-encode-mir -Awarnings"
        env["RUSTC_WORKSPACE_WRAPPER"] = MIRFACTS
        env["MIRFACTS_OUT"] = out_path
        env["MIRFACTS_CRATE"] = crate
        env["CARGO_TARGET_DIR"] = tdir
        env["CARGO_NET_OFFLINE"] = "true"
        cmd = ["cargo", "+nightly", "check", "--offline", "--lib"]
        if features:
            cmd += ["--features", ",".join(features)]
        p = subprocess.run(cmd, cwd=repo, env=env, stdout=subprocess.PIPE, stderr=subprocess.STDOUT, text=True)
        if p.returncode != 0 or not os.path.exists(out_path):
            sys.stderr.write(p.stdout[-4000:])
            raise RuntimeError("mirfacts extraction failed (does the tree compile?)")
    finally:
        shutil.rmtree(tdir, ignore_errors=True)


def run_wirefacts(repo, out_path):
    with open(out_path, "w") as fh:
        subprocess.check_call([WIREFACTS, repo], stdout=fh)


class Facts:
    def __init__(self, mir, wire, hash_, repo):
        self.mir = mir
        self.wire = wire
        self.hash = hash_
        self.repo = repo


def load(repo=REPO, features=None, use_cache=True, verbose=True):
    ensure_tools()
    t0 = time.time()
    h = tree_hash(repo)
    tag = h + ("-" + "+".join(features) if features else "")
    d = os.path.join(CACHE, tag)
    pk = os.path.join(d, "facts.pickle")
    if use_cache and os.path.exists(pk):
        try:
            with open(pk, "rb") as fh:
                mir, wire = pickle.load(fh)
            if verbose:
                print(f"[facts] cache hit {tag} ({time.time()-t0:.1f}s)")
            return Facts(mir, wire, h, repo)
        except Exception:
            pass
    if not use_cache:
        d = tempfile.mkdtemp(prefix="pv-facts-")
    os.makedirs(d, exist_ok=True)
    mj = os.path.join(d, "mir.json")
    wj = os.path.join(d, "wire.json")
    try:
        run_mirfacts(repo, mj, features)
        run_wirefacts(repo, wj)
        with open(mj) as fh:
            mir = json.load(fh)
        with open(wj) as fh:
            wire = json.load(fh)
    except FileNotFoundError:
        # the cache directory was pruned by a concurrent run between extraction and reading: extract once more, uncached
        if use_cache:
            return load(repo, features, use_cache=False, verbose=verbose)
        raise
    if not use_cache:
        shutil.rmtree(d, ignore_errors=True)
        if verbose:
            print(f"[facts] extracted {tag} uncached ({time.time()-t0:.1f}s): {mir['stats']}")
        return Facts(mir, wire, h, repo)
    tmp = pk + f".tmp{os.getpid()}"
    with open(tmp, "wb") as fh:
        pickle.dump((mir, wire), fh, protocol=pickle.HIGHEST_PROTOCOL)
    os.replace(tmp, pk)
    os.remove(mj)
    # keep the cache small: drop all but the 24 most recent entries
    try:
        ents = sorted((os.path.getmtime(os.path.join(CACHE, e)), e) for e in os.listdir(CACHE))
        for _, e in ents[:-24]:
            shutil.rmtree(os.path.join(CACHE, e), ignore_errors=True)
    except OSError:
        pass
    if verbose:
        print(f"[facts] extracted {tag} ({time.time()-t0:.1f}s): {mir['stats']}")
    return Facts(mir, wire, h, repo)
