"""format!-template facts from wirefacts macro invocations (token trees), no evaluation."""
import re


def split_args(toks):
    """Split a macro token list on top-level commas."""
    out, cur = [], []
    for t in toks:
        if t == ",":
            out.append(cur)
            cur = []
        else:
            cur.append(t)
    if cur:
        out.append(cur)
    return out


def lit_str(tok):
    """String value of a literal token {"lit": "\"...\""} (plain strings only)."""
    if isinstance(tok, dict) and "lit" in tok:
        s = tok["lit"]
        if s.startswith('"') and s.endswith('"'):
            body = s[1:-1]
            return bytes(body, "utf-8").decode("unicode_escape") if "\\" in body else body
    return None


def tok_text(toks):
    out = []
    for t in toks:
        if isinstance(t, str):
            out.append(t)
        elif "lit" in t:
            out.append(t["lit"])
        else:
            close = {"(": ")", "[": "]", "{": "}", "": ""}[t["g"]]
            out.append(t["g"] + tok_text(t["t"]) + close)
    return " ".join(out)


PLACEHOLDER = re.compile(r"\{([^{}:]*)(?::([^{}]*))?\}")


class Template:
    """pieces: list of ('lit', text) | ('arg', name_or_index, spec, argument-token-text)"""

    def __init__(self, macro):
        self.macro = macro
        self.line = macro["line"]
        args = split_args(macro["t"])
        self.template = None
        self.pieces = []
        self.args = []
        # write!(f, "..") has a leading destination argument
        idx = 0
        for i, a in enumerate(args):
            if len(a) == 1 and lit_str(a[0]) is not None:
                idx = i
                self.template = lit_str(a[0])
                break
        if self.template is None:
            return
        rest = args[idx + 1 :]
        named = {}
        positional = []
        for a in rest:
            if len(a) >= 3 and isinstance(a[0], str) and a[1] == "=" and re.match(r"^[A-Za-z_]\w*$", a[0]):
                named[a[0]] = tok_text(a[2:])
            else:
                positional.append(tok_text(a))
        self.args = positional
        pos = 0
        nxt = 0
        t = self.template.replace("{{", "\x00").replace("}}", "\x01")
        for m in PLACEHOLDER.finditer(t):
            if m.start() > pos:
                self.pieces.append(("lit", t[pos : m.start()].replace("\x00", "{").replace("\x01", "}")))
            name, spec = m.group(1), m.group(2) or ""
            if name == "":
                arg = positional[nxt] if nxt < len(positional) else None
                nxt += 1
            elif name.isdigit():
                arg = positional[int(name)] if int(name) < len(positional) else None
            else:
                arg = named.get(name, name)  # inline captured identifier
            self.pieces.append(("arg", name, spec, arg))
            pos = m.end()
        if pos < len(t):
            self.pieces.append(("lit", t[pos:].replace("\x00", "{").replace("\x01", "}")))

    def shape(self):
        """Template with argument names erased: list of ('lit', s) | ('arg', spec)."""
        return [(p[0], p[1]) if p[0] == "lit" else ("arg", p[2]) for p in self.pieces]


def templates_of(wire, fn_name):
    out = []
    for f in wire["fns"]:
        if f["name"] == fn_name:
            for m in f["macros"]:
                if m["name"] in ("format", "write", "writeln", "format_args", "print", "println"):
                    t = Template(m)
                    if t.template is not None:
                        out.append(t)
    return out


def spec_width(spec):
    """(width, radix, zero_pad) of a format spec such as '02x' / '04'."""
    m = re.match(r"^(0?)(\d*)([xXob]?)$", spec)
    if not m:
        return None
    return (int(m.group(2)) if m.group(2) else 0, {"x": 16, "X": 16, "o": 8, "b": 2, "": 10}[m.group(3)], m.group(1) == "0")
