"""Developer aid: pretty-print a MIR body from the facts.  python3 -m pv.dump <def-suffix>"""
import sys
from . import facts as F, mir as M


def pl(p):
    s = f"_{p['l']}"
    for pr in p["p"]:
        if pr == "*":
            s = f"(*{s})"
        elif isinstance(pr, dict) and "f" in pr:
            s += f".{pr.get('n', pr['f'])}"
        elif isinstance(pr, dict) and "i" in pr:
            s += f"[_{pr['i']}]"
        elif isinstance(pr, dict) and "ci" in pr:
            s += f"[{pr['ci']}{' from end' if pr.get('fe') else ''}]"
        elif isinstance(pr, dict) and "d" in pr:
            s = f"({s} as {pr.get('n')})"
        elif isinstance(pr, dict) and "ss" in pr:
            s += f"[{pr['ss'][0]}..{pr['ss'][1]}]"
        else:
            s += ".?"
    return s


def op(o):
    if "c" in o:
        return pl(o["c"])
    if "m" in o:
        return "move " + pl(o["m"])
    k = o.get("k", {})
    if "fn" in k:
        return f"fn {k['fn']}<{','.join(k.get('ga', []))}>"
    if "bits" in k:
        return f"const {M.const_int(o)}_{k['ty']}"
    if "str" in k:
        return f"const {k['str']!r}"
    if "bytes" in k:
        return f"const bytes[{len(k['bytes'])//2}] {k['bytes'][:32]}:{k['ty']}"
    return f"const <{k.get('ty')}>" + (f" uneval {k['uneval']}" if "uneval" in k else "")


def rv(r):
    k = r["k"]
    if k == "use":
        return op(r["a"])
    if k == "bin":
        return f"{r['op']}({op(r['a'])}, {op(r['b'])})"
    if k == "un":
        return f"{r['op']}({op(r['a'])})"
    if k == "cast":
        return f"{op(r['a'])} as {r['to']} ({r['ck']})"
    if k in ("ref", "rawptr"):
        return f"&{'mut ' if r.get('mut') is True else ''}{pl(r['p'])}"
    if k == "discr":
        return f"discriminant({pl(r['p'])})"
    if k == "agg":
        nm = r.get("adt", r.get("ak"))
        if r.get("ak") == "adt":
            nm += "::" + r["variant"]
        return f"{nm}{{{', '.join(op(o) for o in r['ops'])}}}"
    if k == "repeat":
        return f"[{op(r['a'])}; {r['n']}]"
    return str(r)


def dump(b, spans=False):
    j = b.j
    print(f"fn {j['def']}  ({j['span']['at']}) argc={j['argc']} kind={j['kind']}")
    names = b.local_names()
    for i, l in enumerate(j["locals"]):
        print(f"   let _{i}: {l['ty']}" + (f"   // {names[i]}" if i in names else ""))
    for bi, blk in enumerate(j["blocks"]):
        print(f" bb{bi}{' (cleanup)' if blk['cleanup'] else ''}:")
        for s in blk["s"]:
            sp = f"   // {s['sp']['at']} {s['sp']['mx']}" if spans else ""
            if s["k"] == "assign":
                print(f"    {pl(s['lhs'])} = {rv(s['rv'])}{sp}")
            else:
                print(f"    {s['k']} {s.get('lhs') and pl(s['lhs'])} {s.get('v', '')}{sp}")
        t = blk["t"]
        k = t["k"]
        sp = f"   // {t['sp']['at']} {t['sp']['mx']}" if spans and "sp" in t else ""
        if k == "call":
            print(f"    {pl(t['dest']) if 'dest' in t else '_'} = {op(t['f'])}({', '.join(op(a) for a in t['args'])}) -> bb{t['t']} uw bb{t['uw']}  [res={t.get('res')}]{sp}")
        elif k == "switch":
            print(f"    switch {op(t['a'])} {[(v, 'bb'+str(x)) for v, x in t['arms']]} else bb{t['else']}{sp}")
        elif k == "assert":
            print(f"    assert({op(t['cond'])} == {t['expected']}, {t['msg']}({', '.join(op(o) for o in t['mops'])})) -> bb{t['t']}{sp}")
        elif k == "drop":
            print(f"    drop({pl(t['p'])}) -> bb{t['t']}")
        elif k == "goto":
            print(f"    goto bb{t['t']}")
        else:
            print(f"    {k}")


if __name__ == "__main__":
    f = F.load(verbose=False)
    prog = M.Program(f.mir)
    spans = "--spans" in sys.argv
    for a in sys.argv[1:]:
        if a.startswith("--"):
            continue
        bs = prog.find_bodies(a) or [b for n, b in prog.bodies.items() if a in n]
        for b in bs:
            dump(b, spans)
            print()
