"""DISPATCH facts: per-arm regions of (nested) switches on enum discriminants inside a large function.

For a `match e.usage { U => match e.ty { T => { .. } } }` nest this yields, for every (U, T) pair, the set of blocks
dominated by the inner arm, the resolved callees in that region and the fields of a designated ADT that are read or
written there.  Only the shape of the CFG is used.
"""
from .mir import op_place


def discr_switches(body, enum_ty):
    """[(bb, place, arms{value: target}, otherwise)] for switches on `discriminant(place)` with place type == enum_ty."""
    out = []
    defs = body.defs()
    for bi, blk in enumerate(body.blocks):
        t = blk["t"]
        if t["k"] != "switch":
            continue
        p = op_place(t["a"])
        if p is None or p["p"]:
            continue
        for kind, _b, _s, st in defs.get(p["l"], []):
            if kind == "assign" and st["rv"]["k"] == "discr" and st["rv"]["p"]["ty"] == enum_ty:
                out.append((bi, st["rv"]["p"], {int(v): tgt for v, tgt in t["arms"]}, t["else"]))
    return out


def region(body, head, exclude=()):
    """Blocks dominated by `head` (normal edges)."""
    out = set()
    for b in body.reachable():
        if b in exclude:
            continue
        if body.dominates(head, b):
            out.add(b)
    return out


def region_facts(body, blocks, adt=None):
    """Calls (resolved names incl. instantiation) and (adt, field) places touched inside a block set."""
    calls = []
    fields = set()

    def scan_place(p):
        for pr in p["p"]:
            if isinstance(pr, dict) and "n" in pr and (adt is None or pr.get("a") == adt):
                fields.add(pr["n"])

    def scan_op(o):
        p = op_place(o)
        if p:
            scan_place(p)

    for bi in sorted(blocks):
        blk = body.blocks[bi]
        for s in blk["s"]:
            if s["k"] != "assign":
                continue
            scan_place(s["lhs"])
            rv = s["rv"]
            for k in ("a", "b"):
                if k in rv and isinstance(rv[k], dict):
                    scan_op(rv[k])
            if "p" in rv and isinstance(rv["p"], dict) and "l" in rv["p"]:
                scan_place(rv["p"])
            for o in rv.get("ops", []):
                scan_op(o)
        t = blk["t"]
        if t["k"] == "call":
            name = t.get("resn") if (t.get("resl") and (t["f"].get("k") or {}).get("ga")) else (t.get("res") or (t["f"].get("k") or {}).get("fn") or "")
            calls.append((bi, name, t))
            for a in t["args"]:
                scan_op(a)
            if "dest" in t:
                scan_place(t["dest"])
    return calls, fields


def nested_arms(body, outer_ty, inner_ty):
    """{(outer_value, inner_value|None): set(blocks)} for the first outer switch that contains inner switches."""
    res = {}
    for bi, _pl, arms, other in discr_switches(body, outer_ty):
        inner_all = discr_switches(body, inner_ty)
        found_inner = False
        for ov, tgt in arms.items():
            reg = region(body, tgt)
            # several outer values may share a target: then the region is shared
            inners = [(b2, a2, o2) for (b2, _p2, a2, o2) in inner_all if b2 in reg]
            if not inners:
                res[(ov, None)] = reg
                continue
            found_inner = True
            b2, a2, o2 = inners[0]
            for iv, t2 in a2.items():
                res[(ov, iv)] = region(body, t2)
            res[(ov, "else")] = region(body, o2)
        if found_inner:
            return res
        res = {}
    return res
