"""STATELESS — no process-wide mutable state in the modules a property is anchored in.

Every property states its results as a function of the input (and, where it says so, of the handle's own history).  A
`static mut`, or a `static` / `thread_local!` whose type has interior mutability, lets one call leave something behind
for the next one (a scratch buffer that is only grown, a memo keyed too coarsely, a reused hasher), so the answer for an
input depends on what was processed before.  The compiler's own facts decide it: the static's mutability and whether its
type is `Freeze`.  Write-once cells (`OnceLock`, `LazyLock`, `OnceCell`, `LazyCell` without a repeatedly writable cell
inside) are initialised constants, not history, and are accepted."""
import json
import os

VERIF = os.path.dirname(os.path.dirname(os.path.abspath(__file__)))
REWRITABLE = ("RefCell<", "::Cell<", "Mutex<", "RwLock<", "Atomic", "UnsafeCell<", "SyncUnsafeCell<")
# call-site registrations of the logging macros (`debug!`, `warn!`): they cache the subscriber's interest in that call site
# and carry no data of the library
LOGGING = ("tracing::", "tracing_core::", "log::")
ONCE = ("OnceLock<", "LazyLock<", "OnceCell<", "LazyCell<", "sync::Once")


def anchor_files(prop):
    with open(os.path.join(VERIF, "properties.jsonl")) as fh:
        for ln in fh:
            p = json.loads(ln)
            if p["id"] == prop:
                a = p.get("anchors") or {}
                return set(a.get("files") or [])
    return set()


def global_state(prog):
    out = []
    for c in prog.consts.values():
        if not c.get("static"):
            continue
        ty = str(c.get("ty", ""))
        if ty.startswith(LOGGING):
            continue
        if c.get("mutable"):
            out.append((c, "static mut"))
        elif c.get("freeze") is False:
            t2 = ty
            for o in ONCE:
                t2 = t2.replace(o, "<")
            if any(m in t2 for m in REWRITABLE) or not any(o in ty for o in ONCE):
                out.append((c, "interior mutability (type is not Freeze)"))
    return out


def rule(ctx):
    prog = ctx.prog
    files = anchor_files(ctx.prop)
    statics = [c for c in prog.consts.values() if c.get("static")]
    if not any("static" in c for c in prog.consts.values()) and prog.consts:
        # facts from an extractor without the static/freeze fields: cannot decide
        probe = [c for c in prog.consts.values() if c.get("path") == "patch::WIPE_BUFFER"]
        if probe and "static" not in probe[0]:
            ctx.fail_closed("STATELESS", "the fact extractor does not report static mutability (rebuild tools/mirfacts)")
            return
    bad = []
    for c, why in global_state(prog):
        f = str((c.get("span") or {}).get("at", "")).rsplit(":", 2)[0]
        if f in files:
            bad.append((c, why, f))
    seen = set()
    for c, why, f in bad:
        # thread_local! expands to several internal statics: report the user's item once
        root = c["path"].split("::{constant")[0].split("::__RUST_STD")[0]
        if root in seen:
            continue
        seen.add(root)
        ctx.ob("STATELESS", f"global-state|{root}", False, f"{root}: {why}, type {c['ty'][:100]} — state shared between calls in a module this property is anchored in; results must not depend on what was processed before", f, None)
    n_mod = sum(1 for c in statics if str((c.get("span") or {}).get("at", "")).rsplit(":", 2)[0] in files)
    ctx.ob("STATELESS", "no-global-mutable-state", not bad, f"{len(statics)} statics in the crate, {n_mod} in this property's anchor files {sorted(files)[:4]}..; none is `static mut` or has interior mutability" if not bad else f"{len(seen)} mutable global(s) in the anchor files", None, None, trivial=True)
