"""Absolute stream positions: every `seek` of the named reader addresses the stream from its start (`SeekFrom::Start`) and
computes the position by additions only (entry offset + header size + table value ...).  A `SeekFrom::Current` with an
absolute offset, or a term subtracted instead of added, reads some other record; neither is visible to a test that only
feeds zero-filled or single-record samples."""
from .prov import derive, index_of

ADDS = {"Add", "AddWithOverflow", "AddUnchecked"}
BAD_TRAIT = ("sub", "mul", "div", "rem", "shl", "shr", "neg", "not", "bitand", "bitor", "bitxor")


def seeks_from_start_sum_only(ctx, rule, body, label, allow_ops=(), recv_names=None):
    """-> number of seeks examined.  `allow_ops`: further operators the positions of this reader legitimately use."""
    ix = index_of(body)
    n = 0
    for bi, t in body.calls():
        c = ix.callee(t)  # resolved callee, or the declared one for a generic stream parameter (`T: Seek`)
        if c.split("::")[-1] != "seek" or len(t["args"]) != 2:
            continue
        if recv_names is not None and not (recv_names & derive(ix, t["args"][0]).names):
            continue
        r = ix.resolve(t["args"][1])
        variant = None
        pos_op = None
        if r[0] == "rv" and r[1].get("k") == "agg" and "SeekFrom" in str(r[1].get("adt", "")):
            variant = r[1].get("variant")
            pos_op = r[1]["ops"][0] if r[1].get("ops") else None
        n += 1
        at = (t.get("sp") or {}).get("at", "?")
        if variant is None:
            ctx.ob(rule, f"{label}|seek-from-start", False, f"{label}: the position of a seek at {at} is not a SeekFrom value built in place (cannot tell Start from Current)", body.file, body.line)
            continue
        ctx.ob(rule, f"{label}|seek-from-start", variant == "Start", f"{label}: seek at {at} uses SeekFrom::{variant}; the offsets of this format are absolute (SeekFrom::Start)", body.file, body.line, sample=(n == 1))
        if pos_op is not None:
            d = derive(ix, pos_op)
            bad = sorted(d.ops - ADDS - set(allow_ops) - {"Eq", "Ne", "Lt", "Le", "Gt", "Ge"}) + sorted({c2.split("::")[-1] for c2 in d.calls if "std::ops::" in c2 and c2.split("::")[-1] in BAD_TRAIT})
            ctx.ob(rule, f"{label}|position-sum-only", not bad, f"{label}: position of the seek at {at} is computed with {sorted(d.ops)}" + (f"; NOT A SUM: {bad}" if bad else " (additions only)"), body.file, body.line, trivial=True)
    return n


def buffers_filled(ctx, rule, body, label, fillers=("read_exact", "read", "read_to_end", "no_header_decompress", "copy_from_slice", "clone_from_slice")):
    """Every buffer `vec![x; n]` the reader allocates for stored bytes is handed, as an output, to a read (or the
    decompressor) that the allocation dominates — a reader that forgets the read decodes the fill value.  -> allocations seen."""
    ix = index_of(body)
    allocs = [(bi, t) for bi, t in body.calls() if ix.callee(t).split("::")[-1] == "from_elem"]
    fills = [(bi, t) for bi, t in body.calls() if ix.callee(t).split("::")[-1] in fillers]
    n = 0
    for ab, at in allocs:
        n += 1
        dl = at["dest"]["l"]
        filled = any(body.dominates(ab, fb) and any(dl in derive(ix, o).locals for o in ft["args"][1:]) for fb, ft in fills)
        ctx.ob(rule, f"{label}|buffer-filled", filled, f"{label}: the buffer allocated at {(at.get('sp') or {}).get('at')} is written by a read before it is decoded: {filled}", body.file, body.line, sample=(n == 1))
    return n
