"""Mutation bank: apply one source substitution to a scratch copy of the repository (outside /repo and /verif),
re-extract facts from the copy and re-run the property's rules.  Used by the thorough tier to measure rule
sensitivity and during development to test the checker both ways.  A mutant whose `old` text no longer occurs
is reported as stale and never counted."""
import json
import os
import shutil
import subprocess
import sys
import tempfile

VERIF = os.path.dirname(os.path.dirname(os.path.abspath(__file__)))


def load_bank(prop):
    p = os.path.join(VERIF, "mutants", f"{prop}.json")
    if not os.path.exists(p):
        return []
    with open(p) as fh:
        return json.load(fh)


def make_copy(repo):
    d = tempfile.mkdtemp(prefix="pv-mut-")
    for name in ("src", "Cargo.toml", "Cargo.lock", "tests", "examples", "benches", "resources"):
        s = os.path.join(repo, name)
        if os.path.isdir(s):
            shutil.copytree(s, os.path.join(d, name))
        elif os.path.exists(s):
            shutil.copy2(s, os.path.join(d, name))
    return d


def apply(copy, m):
    if m.get("patch"):
        r = subprocess.run(["patch", "-p1", "-s", "--no-backup-if-mismatch", "-i", m["patch"]], cwd=copy, stdout=subprocess.PIPE, stderr=subprocess.STDOUT, text=True)
        return r.returncode == 0
    edits = m.get("edits") or [dict(file=m["file"], old=m["old"], new=m["new"])]
    for e in edits:
        p = os.path.join(copy, e["file"])
        with open(p) as fh:
            s = fh.read()
        if s.count(e["old"]) < 1:
            return False
        s = s.replace(e["old"], e["new"], 1 if not e.get("all") else -1)
        with open(p, "w") as fh:
            fh.write(s)
    return True


def run_one(prop, m, repo="/repo", run_tests=False):
    copy = make_copy(repo)
    try:
        if not apply(copy, m):
            return dict(name=m["name"], status="stale")
        env = dict(os.environ)
        env["VERIF_REPO"] = copy
        env["PV_NO_EVIDENCE"] = "1"
        p = subprocess.run([os.path.join(VERIF, "check"), prop, "--repo", copy, "--no-cache"], env=env, stdout=subprocess.PIPE, stderr=subprocess.STDOUT, text=True)
        rules = sorted({ln.split("rule=")[1].split()[0] for ln in p.stdout.splitlines() if ln.startswith("REPORT ")})
        keys = [ln.split("key=")[1] for ln in p.stdout.splitlines() if ln.startswith("REPORT ")]
        res = dict(name=m["name"], status="caught" if p.returncode == 1 and rules else ("missed" if p.returncode == 0 else "error"), rules=rules, keys=keys[:6])
        if res["status"] == "error" or (p.returncode == 1 and not rules):
            res["status"] = "error"
            res["tail"] = p.stdout[-1500:]
        if run_tests:
            t = subprocess.run(["cargo", "test", "--offline", "--lib", "-q"], cwd=copy, env=dict(os.environ, CARGO_TARGET_DIR=os.path.join(copy, "target")), stdout=subprocess.PIPE, stderr=subprocess.STDOUT, text=True)
            res["tests_pass"] = t.returncode == 0
        return res
    finally:
        shutil.rmtree(copy, ignore_errors=True)


def seeded_as_mutants(prop):
    """Kept sub-agent changes for this property (seeded/<name>/patch.diff) as bank entries applied with `patch -p1`."""
    out = []
    d = os.path.join(VERIF, "seeded")
    for n in sorted(os.listdir(d)) if os.path.isdir(d) else []:
        mp = os.path.join(d, n, "meta.json")
        pp = os.path.join(d, n, "patch.diff")
        if os.path.exists(mp) and os.path.exists(pp):
            try:
                if json.load(open(mp)).get("property") == prop:
                    out.append(dict(name="seed:" + n, patch=pp))
            except Exception:
                pass
    return out


def run_bank(prop, repo="/repo", jobs=None, only=None):
    """Run the mutation bank and the kept seeded changes of one property; returns the list of results."""
    from concurrent.futures import ThreadPoolExecutor

    bank = load_bank(prop) + seeded_as_mutants(prop)
    if only:
        bank = [m for m in bank if any(o in m["name"] for o in only)]
    jobs = jobs or int(os.environ.get("PV_JOBS", str(min(12, (os.cpu_count() or 4)))))
    with ThreadPoolExecutor(max_workers=jobs) as ex:
        return list(ex.map(lambda m: run_one(prop, m, repo=repo), bank))


def main():
    from concurrent.futures import ThreadPoolExecutor

    prop = sys.argv[1].upper()
    args = [a for a in sys.argv[2:] if not a.startswith("--")]
    run_tests = "--tests" in sys.argv
    bank = [m for m in load_bank(prop) + (seeded_as_mutants(prop) if args or "--seeds" in sys.argv else []) if not args or any(o in m["name"] for o in args)]
    with ThreadPoolExecutor(max_workers=int(os.environ.get("PV_JOBS", "5"))) as ex:
        out = list(ex.map(lambda m: run_one(prop, m, repo=os.environ.get("PV_MUT_REPO", "/repo"), run_tests=run_tests), bank))
    for r in out:
        print(json.dumps(r))
    caught = sum(1 for r in out if r["status"] == "caught")
    print(f"{prop}: {caught}/{len([r for r in out if r['status'] != 'stale'])} mutants caught")


if __name__ == "__main__":
    main()
