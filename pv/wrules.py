"""WIRE rule family over the binrw declaration model (pv.wire): W1 layout conformance, W2 read/write symmetry,
W3 count/divisor agreement, W4 size agreement, W5 tag tables."""
import os
import re

from . import wire as W

VERIF = os.path.dirname(os.path.dirname(os.path.abspath(__file__)))
_LAYOUTS = None


def layouts():
    global _LAYOUTS
    if _LAYOUTS is None:
        _LAYOUTS = W.parse_layouts(os.path.join(VERIF, "spec", "layouts.txt"))
    return _LAYOUTS


def model(ctx):
    wm = getattr(ctx, "_wm", None)
    if wm is None:
        wm = ctx._wm = W.WireModel(ctx.wire, ctx.prog)
    return wm


def _names(sig):
    out = set()
    for t in sig:
        nm = t[2] if t[0] in ("f", "cond", "peek") else (t[1] if t[0] == "var" else None)
        if isinstance(nm, str):
            out.add(nm.lstrip("~"))
    return out


def sig_match(got, want):
    """Compare two signatures.  `_` in the reference matches any name; a public name must be kept; a private name
    (`~name`) is soft: it only has to stay in its position while both sides still have a field of that name, so a
    swap of two same-sized private fields is reported and a private rename is not."""
    global _GOT_NAMES, _WANT_NAMES
    _GOT_NAMES, _WANT_NAMES = _names(got), _names(want)
    if len(got) != len(want):
        n = min(len(got), len(want))
        for i in range(n):
            if not _tok_match(got[i], want[i]):
                return False, i
        return False, n
    for i, (g, w) in enumerate(zip(got, want)):
        if not _tok_match(g, w):
            return False, i
    return True, -1


_GOT_NAMES = set()
_WANT_NAMES = set()


def _name_ok(g, w):
    if w == "_":
        return True
    if not w.startswith("~"):
        return g == w  # public field: API name
    gn, wn = g.lstrip("~"), w[1:]
    if gn == wn:
        return True
    # soft: mismatch only counts when it is a permutation (both names still exist on both sides)
    return not (gn in _WANT_NAMES and wn in _GOT_NAMES)


def _tok_match(g, w):
    if g[0] != w[0]:
        return False
    if g[0] == "f":
        if g[1] != w[1]:
            return False
        if not _name_ok(g[2], w[2]):
            return False
        ge = g[3] if len(g) > 3 else None
        we = w[3] if len(w) > 3 else None
        return ge == we
    if g[0] in ("gap", "magic"):
        return g[1] == w[1]
    if g[0] == "var":
        return _name_ok(g[1], w[1]) and g[2] == w[2]
    if g[0] in ("cond", "peek"):
        return g[1] == w[1] and _name_ok(g[2], w[2])
    return True


def w1(ctx, types, rule="W1"):
    """Layout conformance of the named types against spec/layouts.txt."""
    wm = model(ctx)
    n = 0
    for ref in layouts():
        if ref["type"] not in types:
            continue
        it = wm.items.by_path.get(ref["type"])
        label = ref["type"] + ("" if not ref["args"] else "[" + ",".join(f"{k}={v}" for k, v in ref["args"].items()) + "]")
        if it is None:
            ctx.fail_closed(rule, f"type {ref['type']} not found in the sources")
            continue
        n += 1
        args = ref["args"] or None
        got = W.signature(wm, it, "r", args)
        size = wm.item_size(it, args)
        ok, i = sig_match(got, ref["sig"])
        if ok:
            detail = f"{label}: {len(got)} layout elements match the reference ({ref['basis']})"
        else:
            g = got[i] if i < len(got) else "<end>"
            w_ = ref["sig"][i] if i < len(ref["sig"]) else "<end>"
            off = 0
            for t in got[:i]:
                if t[0] in ("f", "gap", "magic") and off is not None and t[1] is not None:
                    off += t[1]
                elif t[0] != "peek":
                    off = None
            detail = f"{label}: layout element #{i} (byte offset {off}) is {g}, the reference ({ref['basis']}) has {w_}"
        ctx.ob(rule, f"layout|{label}", ok, detail, it["file"], it["line"], sample=(n <= 2))
        ctx.ob(rule, f"size|{label}", size == ref["size"], f"{label}: serialised size {size}, reference {ref['size']}", it["file"], it["line"], trivial=True)
    missing = set(types) - {r["type"] for r in layouts()}
    for m in sorted(missing):
        ctx.fail_closed(rule, f"no reference layout for {m} in spec/layouts.txt")
    return n


def w2(ctx, type_paths, rule="W2", accept_cond_only_for=("Vec", "Option")):
    """Read/write symmetry of the serialised streams of the given types (field by field)."""
    wm = model(ctx)
    decided = 0
    for path in type_paths:
        it = wm.items.by_path.get(path)
        if it is None:
            ctx.fail_closed(rule, f"type {path} not found")
            continue
        if it["kind"] != "struct":
            continue
        rs = wm.stream(it, "r")
        ws = wm.stream(it, "w")

        def norm(st):
            out = []
            for f in st:
                if f.kind == "seek":
                    out.append(("seek", f.name, None, None, None, f))
                elif f.kind == "pad":
                    if out and out[-1][0] == "gap" and out[-1][2] is not None and f.size is not None:
                        out[-1] = ("gap", out[-1][1], out[-1][2] + f.size, None, None, f)
                    else:
                        out.append(("gap", f.name, f.size, None, None, f))
                elif f.net_zero:
                    continue
                else:
                    out.append((f.kind, f.name, f.size, f.endian, f.cond, f))
            return out

        # length-calc agreement: a string written with write_string (NUL-terminated) and read with count = L
        # needs L calc-ed as get_string_len(field) (which counts the NUL) on the write side
        for f in it["fields"]:
            ds = W.directives(f["attrs"])
            wmap = [d for d in ds if d.name == "map" and "w" in d.side and d.text.replace(" ", "") == "write_string"]
            cnt = [d for d in ds if d.name == "count" and "r" in d.side]
            if wmap and cnt and len(cnt[0].value) == 1 and isinstance(cnt[0].value[0], str):
                lname = cnt[0].value[0]
                lf = [g for g in it["fields"] if g["name"] == lname]
                if lf:
                    calc = [d.text.replace(" ", "") for d in W.directives(lf[0]["attrs"]) if d.name == "calc" and "w" in d.side]
                    ok = bool(calc) and calc[0].startswith(f"get_string_len({f['name']})")
                    ctx.ob(rule, f"{path}.{lname}|strlen", ok, f"{path}.{f['name']} is written NUL-terminated by write_string and read with count = {lname}; {lname} is written as {calc}, must be get_string_len({f['name']})", it["file"], lf[0]["line"])
                    decided += 1
        r, w_ = norm(rs), norm(ws)
        # align by position; names of data fields must agree
        i = j = 0
        while i < len(r) or j < len(w_):
            a = r[i] if i < len(r) else None
            b = w_[j] if j < len(w_) else None
            key = f"{path}.{(a or b)[1]}"
            f_ = (a or b)[5]
            if a is None or b is None:
                ctx.ob(rule, key + "|missing", False, f"{path}: {'reader' if a else 'writer'} has an extra stream element {(a or b)[:3]} with no counterpart", it["file"], f_.line)
                i += 1
                j += 1
                continue
            if a[0] != b[0] or (a[0] in ("data", "magic") and a[1] != b[1]):
                ctx.ob(rule, key + "|order", False, f"{path}: reader element {a[:3]} is paired with writer element {b[:3]}", it["file"], f_.line)
                # resynchronise on names
                i += 1
                j += 1
                continue
            if a[0] == "gap":
                ctx.ob(rule, key + "|gap", a[2] == b[2], f"{path}: padding {a[1]}: reader skips {a[2]}, writer pads {b[2]}", it["file"], f_.line, trivial=True)
                decided += 1
            elif a[0] == "seek":
                pass
            else:
                # size
                if a[2] is None or b[2] is None:
                    ctx.note(f"W2 undecided size for {key}: reader {a[2]} / writer {b[2]} ({a[5].ty} | {b[5].ty})")
                else:
                    ctx.ob(rule, key + "|size", a[2] == b[2], f"{key}: reader consumes {a[2]} bytes ({a[5].ty}), writer emits {b[2]} ({b[5].ty})", it["file"], f_.line)
                    decided += 1
                # endian
                if a[3] and b[3] and (a[2] or 0) > 1:
                    ctx.ob(rule, key + "|endian", a[3] == b[3], f"{key}: reader {a[3]}-endian, writer {b[3]}-endian", it["file"], f_.line, trivial=True)
                # presence (the writer sees fields by reference: `*x != ..` is the same condition as `x != ..`)
                def _c(x):
                    return None if x is None else x.replace(" ", "").replace("*", "")

                if _c(a[4]) != _c(b[4]):
                    base = (a[5].ty or "").split("<")[0]
                    if a[4] and not b[4] and base in accept_cond_only_for:
                        ctx.ob(rule, key + "|presence", True, f"{key}: read under if({a[4]}); the writer emits the container's content (nothing when absent)", it["file"], f_.line, trivial=True)
                    else:
                        ctx.ob(rule, key + "|presence", False, f"{key}: reader condition if({a[4]}) vs writer condition if({b[4]}): a scalar under a read-only condition is always written, so the reader then skips bytes the writer emitted", it["file"], f_.line)
                    decided += 1
            i += 1
            j += 1
    return decided


DIV_RE = re.compile(r"^(.*)/\s*(\d+)$")


def w3(ctx, type_paths, rule="W3"):
    """`count = x / K`: K equals the element's serialised size for every value of its import arguments."""
    wm = model(ctx)
    n = 0
    for path in type_paths:
        it = wm.items.by_path.get(path)
        if it is None:
            ctx.fail_closed(rule, f"type {path} not found")
            continue
        for f in it.get("fields", []):
            ds = {d.name: d for d in W.directives(f["attrs"]) if "r" in d.side}
            if "count" not in ds:
                continue
            toks = ds["count"].value
            if "/" not in toks:
                continue
            k = W.int_lit(toks[-1])
            if k is None:
                # a named constant (or `CONST as T`) after the division sign
                i_div = len(toks) - 1 - toks[::-1].index("/")
                k = wm.int_expr(toks[i_div + 1 :], it)
            if k is None:
                continue
            inner = wm.generic_inner(f["tyt"], "Vec")
            if inner is None:
                continue
            elem_it = wm.find_item(W.ty_text(inner), it)
            sizes = {}
            # enumerate import-argument values when the element type imports an enum-typed argument
            variants = [None]
            if elem_it is not None:
                imp = [d for d in W.directives(elem_it["attrs"]) if d.name == "import"]
                if imp:
                    names = [t for t in imp[0].value if isinstance(t, str) and t not in (":", "&", ",", "mut")]
                    if len(names) >= 2:
                        en = wm.find_item(names[1], elem_it)
                        if en is not None and en["kind"] == "enum":
                            variants = [{names[0]: v["name"]} for v in en["variants"]]
            for a in variants:
                sizes[str(a)] = wm.type_size(inner, it, a)
            n += 1
            for a, sz in sizes.items():
                ctx.ob(rule, f"{path}.{f['name']}|{a}", sz == k, f"{path}.{f['name']}: count = {ds['count'].text}; element {W.ty_text(inner)} serialises to {sz} bytes" + (f" under {a}" if a != "None" else "") + f", divisor is {k}", it["file"], f["line"], sample=True)
            # writer-side calc multiplier, when present: bw(calc = (len * K) ..) on the counted length field
            for g in it["fields"]:
                gd = {d.name: d for d in W.directives(g["attrs"]) if "w" in d.side}
                if "calc" in gd and g["name"] in [t for t in toks if isinstance(t, str)]:
                    m = re.search(r"\*\s*(\d+)", gd["calc"].text)
                    if m:
                        ctx.ob(rule, f"{path}.{g['name']}|writer-multiplier", int(m.group(1)) == k, f"{path}.{g['name']}: writer computes {gd['calc'].text}, reader divides by {k}", it["file"], g["line"])
    return n


def w5_repr(ctx, enum_path, reference, rule="W5", repr_ty=None):
    """Discriminants of a `repr` enum equal the reference table {variant: value} (compiler-evaluated discriminants)."""
    a = ctx.prog.adts.get(enum_path)
    if not a:
        ctx.fail_closed(rule, f"enum {enum_path} not found")
        return 0
    got = {v["name"]: int(v["discr"]) for v in a["variants"]}
    for name, val in reference.items():
        ctx.ob(rule, f"{enum_path}::{name}", got.get(name) == val, f"{enum_path}::{name} = {got.get(name)}; reference value {val}", a["span"]["at"].rsplit(":", 2)[0])
    extra = set(got) - set(reference)
    ctx.ob(rule, f"{enum_path}|no-extra", not extra, f"{enum_path}: variants not in the reference: {sorted(extra)}", a["span"]["at"].rsplit(":", 2)[0], trivial=True)
    if repr_ty:
        wm = model(ctx)
        it = wm.items.by_path.get(enum_path)
        rd = [d for d in W.directives(it["attrs"]) if d.name == "repr"] if it else []
        ctx.ob(rule, f"{enum_path}|repr", bool(rd) and rd[0].text.replace(" ", "") == repr_ty, f"{enum_path}: wire repr {rd[0].text if rd else None}; reference {repr_ty}", it["file"] if it else None)
    return len(reference)


def variant_magics(ctx, enum_path):
    """variant name -> magic literal text for a magic-tagged enum."""
    wm = model(ctx)
    it = wm.items.by_path.get(enum_path)
    if not it:
        return None
    out = {}
    for v in it["variants"]:
        for d in W.directives(v["attrs"]):
            if d.name == "magic":
                out[v["name"]] = d.text.replace(" ", "")
    return out


def variant_frames(ctx, enum_path, side="r"):
    """variant name -> (pad bytes before the payload, [payload type names], pad bytes after) for a tagged enum whose
    variants carry their payload as tuple fields (`#[brw(pad_before = 2)] FileHeaderChunk`)."""
    wm = model(ctx)
    it = wm.items.by_path.get(enum_path)
    if not it or it.get("kind") != "enum":
        return None
    out = {}
    for v in it["variants"]:
        fs = wm.fields_stream(it, v["fields"], side, wm.item_endian(it, side, None), None)
        before = after = 0
        tys = []
        for x in fs:
            if x.kind == "data":
                tys.append(getattr(x, "ty", None))
            elif x.kind in ("pad", "gap", "magic"):
                if x.size is None:
                    before = after = None
                    break
                if tys:
                    after += x.size
                else:
                    before += x.size
            else:
                tys.append("?" + x.kind)
        out[v["name"]] = (before, tys, after)
    return out


def w_codec(ctx, type_paths, pairs, rule="CODEC"):
    """Field converters: every field of the given types that is read through `map = f` and written through `map = g`
    uses a pair (f, g) of the reference table (name of the function, generic arguments ignored).  The table lists the
    inverse pairs confirmed by reading; a field switched to another converter on one side only, or to a converter
    that is not in the table, is reported."""
    wm = model(ctx)
    n = 0

    def fn_name(txt):
        t = txt.replace(" ", "")
        m = re.match(r"^([A-Za-z_][A-Za-z0-9_:]*)(::<.*>)?$", t)
        return m.group(1).split("::")[-1] if m else None

    for path in type_paths:
        it = wm.items.by_path.get(path)
        if it is None:
            ctx.fail_closed(rule, f"type {path} not found")
            continue
        fl = list(it["fields"]) if it["kind"] == "struct" else [f for v in it["variants"] for f in v["fields"]]
        for f in fl:
            ds = W.directives(f["attrs"])
            r = [d.text for d in ds if d.name in ("map", "try_map") and "r" in d.side and "w" not in d.side]
            w = [d.text for d in ds if d.name in ("map", "try_map") and "w" in d.side and "r" not in d.side]
            if not r and not w:
                continue
            n += 1
            got = (fn_name(r[0]) if r else None, fn_name(w[0]) if w else None)
            ctx.ob(rule, f"{it['name']}.{f['name']}", got in pairs, f"{it['name']}.{f['name']} is read through {r[0] if r else None} and written through {w[0] if w else None}; reference converter pairs: {sorted(pairs)}", it["file"], f["line"], sample=(f["name"] == "comment"))
    return n


def w_order(ctx, path, ref_fields, count_of=None, rule="ORDER"):
    """Read order of a variable-length record that W1 cannot lay out (its lengths depend on counts / arguments): the
    declaration order of the binrw fields - which is the order they are read in - equals the reference list, and every
    counted list names its own count field."""
    wm = model(ctx)
    it = wm.items.by_path.get(path)
    if it is None or it["kind"] != "struct":
        ctx.fail_closed(rule, f"struct {path} not found")
        return 0
    got = [f["name"] for f in it["fields"]]
    name = path.split("::")[-1]
    ctx.ob(rule, f"{name}|field-order", got == ref_fields, f"{name} reads its fields in the order {got}" + ("" if got == ref_fields else f"; reference order {ref_fields}"), it["file"], it["line"], sample=True)
    for f in it["fields"]:
        want = (count_of or {}).get(f["name"])
        if not want:
            continue
        txt = " ".join((f"count = {d.text}" if d.name == "count" else d.text) for d in W.directives(f["attrs"]) if d.name in ("count", "args"))
        m = re.search(r"count\s*[:=]\s*([A-Za-z_][A-Za-z0-9_]*)", txt)
        ctx.ob(rule, f"{name}.{f['name']}|count", bool(m) and m.group(1) == want, f"{name}.{f['name']} is read for `{m.group(1) if m else None}` elements; its own count field is `{want}`", it["file"], f["line"])
    return len(got)
