"""Bit-field normal form of reconstructed expressions: which bits of a word a decoded field is made of.

bitfield(e) brings an expression over one word w to
    ("mask", m)            (w & m) != 0            (also: == m for a single bit, bool casts, (w >> n) & 1 != 0)
    ("shift", s, m|None)   (w >> s) & m            (also: (w & (m << s)) >> s, plain w >> s)
    ("?", text)
whatever the spelling (operand order, named constants, helper functions - those are inlined and constant-folded
before this point).  Nothing is evaluated on data; the result is compared with the format's reference positions.
"""
from .sym import is_const, show


def strip(e):
    while isinstance(e, tuple) and e[0] in ("cast", "chk"):
        e = e[2] if e[0] == "cast" else e[1]
    return e


def _const(e):
    e = strip(e)
    if is_const(e) and isinstance(e[1], (int, bool)):
        return int(e[1])
    if isinstance(e, tuple) and e[0] == "un" and e[1] == "Not" and _const(e[2]) is not None:
        return ~_const(e[2])
    if isinstance(e, tuple) and e[0] == "bin" and _const(e[2]) is not None and _const(e[3]) is not None:
        a, b = _const(e[2]), _const(e[3])
        op = e[1]
        if op in ("Shl", "Shr", "Add", "Sub", "Mul", "BitAnd", "BitOr", "BitXor") and (op not in ("Shl", "Shr") or 0 <= b < 128):
            return {"Shl": a << b if op == "Shl" else 0, "Shr": a >> b if op == "Shr" else 0, "Add": a + b, "Sub": a - b, "Mul": a * b, "BitAnd": a & b, "BitOr": a | b, "BitXor": a ^ b}[op]
    return None


def _and_parts(e):
    """(x, m) of x & m with a constant m, else None."""
    e = strip(e)
    if isinstance(e, tuple) and e[0] == "bin" and e[1] == "BitAnd":
        for x, y in ((e[2], e[3]), (e[3], e[2])):
            c = _const(y)
            if c is not None and _const(x) is None:
                return x, c
    return None


def _shr_parts(e):
    e = strip(e)
    if isinstance(e, tuple) and e[0] == "bin" and e[1] in ("Shr", "ShrUnchecked"):
        c = _const(e[3])
        if c is not None:
            return e[2], c
    return None


def value_field(e):
    """(word, shift, mask|None) of a value field expression."""
    e = strip(e)
    ap = _and_parts(e)
    if ap:
        x, m = ap
        sp = _shr_parts(x)
        if sp:
            return sp[0], sp[1], m
        return x, 0, m
    sp = _shr_parts(e)
    if sp:
        x, s = sp
        ap2 = _and_parts(x)
        if ap2:
            return ap2[0], s, (ap2[1] >> s)
        return x, s, None
    return None


def bitfield(e):
    e0 = strip(e)
    if isinstance(e0, tuple) and e0[0] == "bin" and e0[1] in ("Ne", "Eq"):
        for x, y in ((e0[2], e0[3]), (e0[3], e0[2])):
            c = _const(y)
            if c is None:
                continue
            vf = value_field(x)
            if vf is None:
                continue
            _w, s, m = vf
            if m is None:
                continue
            bits = (m << s)
            if e0[1] == "Ne" and c == 0:
                return ("mask", bits)
            if e0[1] == "Eq" and c == m and m & (m - 1) == 0 and m:
                return ("mask", bits)
    vf = value_field(e0)
    if vf is not None:
        _w, s, m = vf
        return ("shift", s, m)
    return ("?", show(e0)[:80])


def word_of(e):
    """The word expression a field is decoded from (for "all fields decode the same word" checks)."""
    e0 = strip(e)
    if isinstance(e0, tuple) and e0[0] == "bin" and e0[1] in ("Ne", "Eq"):
        for x, y in ((e0[2], e0[3]), (e0[3], e0[2])):
            if _const(y) is not None:
                vf = value_field(x)
                return strip(vf[0]) if vf else None
    vf = value_field(e0)
    return strip(vf[0]) if vf else None
