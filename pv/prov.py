"""PROV: "derives-from" facts on single-definition temporaries of one body (flow-insensitive def-use closure).

derive(ix, operand) -> Derive(fields, calls, consts, params, ops): everything the operand's value may be computed
from through temporaries that have exactly one definition.  Semantics of an obligation is always "must include":
adding a term is silent, dropping or swapping one is reported.
"""
from .mir import const_int, op_place
from .panic import BodyIndex

# the program being analysed (set by the check driver): lets a derivation inside a closure continue, at a captured
# variable, in the function that built the closure
PROG = None
_PARENT_CACHE = {}


def _capture_operand(body, k):
    """(index of the parent body, operand captured as upvar k of this closure body) or None."""
    if PROG is None or body.j.get("kind") != "Closure":
        return None
    key = (id(PROG), body.name)
    if key not in _PARENT_CACHE:
        par_name = body.name.rsplit("::{closure", 1)[0]
        found = None
        par = PROG.body(par_name) if par_name in PROG.raw_bodies else None
        if par is not None:
            for _bi, _si, st in par.stmts():
                rv = st.get("rv") or {}
                if st["k"] == "assign" and rv.get("k") == "agg" and rv.get("ak") == "closure" and rv.get("closure") == body.name:
                    found = (BodyIndex(par), rv["ops"])
                    break
        _PARENT_CACHE[key] = found
    got = _PARENT_CACHE[key]
    if got is None or k >= len(got[1]):
        return None
    return got[0], got[1][k]


class Derive:
    def __init__(self):
        self.fields = set()  # field names (with ADT): ("model::Mesh", "vertex_buffer_offsets")
        self.names = set()  # plain field names
        self.calls = set()
        self.consts = set()
        self.params = set()
        self.ops = set()
        self.locals = set()
        self.skip_index = False
        self.paths = set()  # field paths of the places read, e.g. ("position", "#0")
        self.strs = set()  # string literals reaching the value (arguments of the calls it is computed from)
        self.outer_params = set()  # parameters of the enclosing function reached through captured variables
        self.captures = set()  # captured variables (upvar positions) of the closure the value is computed from

    def __repr__(self):
        return f"Derive(fields={sorted(self.names)}, calls={sorted(c.split('::')[-1] for c in self.calls)}, consts={sorted(self.consts)}, ops={sorted(self.ops)})"


def _place(d, p, ix, depth):
    # element k of a tuple / array / closure environment built in one piece: follow only that element
    if p["p"] and isinstance(p["p"][0], dict) and "f" in p["p"][0] and "n" not in p["p"][0]:
        dt = ix.single_def(p["l"])
        if dt and dt[0] == "assign" and dt[3]["rv"]["k"] == "agg" and dt[3]["rv"].get("ak") in ("tuple", "closure") and p["p"][0]["f"] < len(dt[3]["rv"]["ops"]):
            d.locals.add(p["l"])
            inner = dt[3]["rv"]["ops"][p["p"][0]["f"]]
            rest = p["p"][1:]
            q = op_place(inner)
            if q is not None:
                _place(d, {"l": q["l"], "p": list(q["p"]) + list(rest), "ty": p.get("ty", "")}, ix, depth + 1)
            else:
                _op(d, inner, ix, depth + 1)
            return
    # a captured variable of a closure: continue in the function that built the closure
    if p["l"] == 1 and ix.body.j.get("kind") == "Closure" and depth < 30:
        prj = [pr for pr in p["p"] if pr != "*"]
        if prj and isinstance(prj[0], dict) and "f" in prj[0] and "n" not in prj[0]:
            cap = _capture_operand(ix.body, prj[0]["f"])
            if cap is not None:
                pix, cop = cap
                d.captures.add(prj[0]["f"])
                sub = Derive()
                sub.skip_index = d.skip_index
                q = op_place(cop)
                if q is not None:
                    # the rest of the projection (fields read off the captured value) applies to the captured place;
                    # a capture by reference adds one dereference
                    _place(sub, {"l": q["l"], "p": list(q["p"]) + [x for x in prj[1:]], "ty": p.get("ty", "")}, pix, depth + 1)
                else:
                    _op(sub, cop, pix, depth + 1)
                d.fields |= sub.fields
                d.names |= sub.names
                d.calls |= sub.calls
                d.consts |= sub.consts
                d.ops |= sub.ops
                d.strs |= sub.strs
                d.paths |= sub.paths
                d.outer_params |= sub.params | sub.outer_params
                # the environment slot itself is accounted for by what it holds; the closure's environment parameter
                # stays in `params` (rules ask "is this a captured value" that way)
                _local(d, p["l"], ix, depth + 1)
                return
    path = tuple((pr.get("n") if "n" in pr else f"#{pr['f']}") for pr in p["p"] if isinstance(pr, dict) and "f" in pr)
    if path:
        d.paths.add(path)
    for pr in p["p"]:
        if isinstance(pr, dict) and "n" in pr:
            d.fields.add((pr.get("a"), pr["n"]))
            d.names.add(pr["n"])
        elif isinstance(pr, dict) and "f" in pr:
            d.names.add(f"#{pr['f']}")  # positional (tuple / closure) field
        if isinstance(pr, dict) and "i" in pr:
            _local(d, pr["i"], ix, depth + 1)
    _local(d, p["l"], ix, depth + 1)


def _local(d, l, ix, depth):
    if l in d.locals or depth > 40:
        return
    d.locals.add(l)
    if 1 <= l <= ix.body.argc:
        d.params.add(l)
        return
    for kind, _bi, _si, st in ix.defs.get(l, []):
        if kind == "call":
            t = st
            c = t.get("res") or (t["f"].get("k") or {}).get("fn") or "?"
            d.calls.add(c)
            args = t["args"]
            if d.skip_index and len(args) == 2 and (c.endswith("::index") or c.endswith("::index_mut") or c.endswith("<impl [T]>::get")):
                args = args[:1]  # the element's provenance is its container; the index is accounted for separately
            for a in args:
                _op(d, a, ix, depth + 1)
        else:
            rv = st.get("rv")
            if not rv:
                continue
            k = rv["k"]
            if k in ("use", "cast", "un", "repeat"):
                if k == "un":
                    d.ops.add(rv["op"])
                _op(d, rv["a"], ix, depth + 1)
            elif k == "bin":
                d.ops.add(rv["op"].replace("WithOverflow", ""))
                _op(d, rv["a"], ix, depth + 1)
                _op(d, rv["b"], ix, depth + 1)
            elif k in ("ref", "rawptr", "discr"):
                _place(d, rv["p"], ix, depth + 1)
            elif k == "agg":
                for o in rv["ops"]:
                    _op(d, o, ix, depth + 1)


def _op(d, o, ix, depth):
    v = const_int(o)
    if v is not None:
        d.consts.add(v)
        return
    k = o.get("k") if isinstance(o, dict) else None
    if isinstance(k, dict) and "str" in k:
        d.strs.add(k["str"])
        return
    p = op_place(o)
    if p is not None:
        _place(d, p, ix, depth)


def derive(ix, operand, skip_index=False):
    d = Derive()
    d.skip_index = skip_index
    _op(d, operand, ix, 0)
    return d


def index_of(body):
    return BodyIndex(body)
