"""Finite decision tables from switch nests.

A *table function* is loop-free; its paths (from pv.sym.Explorer) branch only on discriminants of parameters, on
integer/string comparisons of parameters with literals, and on results of calls that the rule can resolve by
composing other tables.  `Table.lookup` selects, for one point of the finite domain, the unique path whose
conditions hold and returns its leaf expression.  Nothing of the program is executed: conditions are matched
against the point, leaves are constants/aggregates read off the MIR.
"""
from .sym import Explorer, is_const


class Undecided(Exception):
    pass


def strip(e):
    """Look through casts, derefs of refs and reborrows for identification of parameters."""
    while isinstance(e, tuple) and e[0] in ("cast", "deref", "ref"):
        e = e[2] if e[0] == "cast" else e[1]
    return e


class Table:
    def __init__(self, body, max_paths=5000):
        self.body = body
        ex = Explorer(body, max_paths=max_paths)
        self.paths = ex.explore()
        self.is_table = not ex.truncated and all(p.end in ("return", "diverge", "unreachable") for p in self.paths) and not ex.loops()

    def value(self, e, point, call_eval):
        """Concrete value of a condition operand at a domain point (params only) or raise Undecided."""
        if is_const(e):
            return e[1]
        if isinstance(e, tuple):
            if e[0] == "discr":
                inner = strip(e[1])
                if isinstance(inner, tuple) and inner[0] == "p" and ("discr", inner[1]) in point:
                    return point[("discr", inner[1])]
                # discriminant of a field of a param, e.g. self.repo_type
                key = ("discr", _path_key(e[1]))
                if key in point:
                    return point[key]
            if e[0] == "p" and ("val", e[1]) in point:
                return point[("val", e[1])]
            if e[0] in ("cast",):
                return self.value(e[2], point, call_eval)
            if e[0] == "chk":
                return self.value(e[1], point, call_eval)
            if e[0] == "bin" and e[1] in ("Eq", "Ne", "Lt", "Le", "Gt", "Ge", "Add", "Sub"):
                a = self.value(e[2], point, call_eval)
                b = self.value(e[3], point, call_eval)
                return int({"Eq": a == b, "Ne": a != b, "Lt": a < b, "Le": a <= b, "Gt": a > b, "Ge": a >= b, "Add": a + b, "Sub": a - b}[e[1]])
            if e[0] == "deref":
                return self.value(e[1], point, call_eval)
            if e[0] == "call" and call_eval is not None:
                r = call_eval(e[1], e[2], point)
                if r is not None:
                    return int(r)
            key = ("expr", _path_key(e))
            if key in point:
                return point[key]
        raise Undecided(f"cannot resolve condition operand {e!r}")

    def lookup(self, point, call_eval=None):
        hits = []
        for p in self.paths:
            ok = True
            for d, c in p.conds:
                v = self.value(d, point, call_eval)
                if c[0] == "eq":
                    if int(v) != c[1]:
                        ok = False
                        break
                else:
                    if int(v) in c[1]:
                        ok = False
                        break
            if ok:
                hits.append(p)
        if len(hits) != 1:
            raise Undecided(f"{len(hits)} paths match point {point}")
        return hits[0]


def _path_key(e):
    """Stable key for a place-like expression rooted at a parameter: ('p',1,'repo_type')."""
    parts = []
    while isinstance(e, tuple):
        if e[0] == "fld":
            parts.append(str(e[2]))
            e = e[1]
        elif e[0] in ("deref", "ref"):
            e = e[1]
        elif e[0] == "down":
            parts.append("as:" + str(e[2]))
            e = e[1]
        elif e[0] == "cast":
            e = e[2]
        elif e[0] == "p":
            return ("p", e[1]) + tuple(reversed(parts))
        else:
            return None
    return None


def enum_variants(prog, path):
    """name -> discriminant value, in declaration order."""
    a = prog.adts.get(path)
    if not a:
        return None
    return [(v["name"], int(v["discr"])) for v in a["variants"]]


def leaf_variant(e):
    """Unit-variant aggregate -> variant name."""
    if isinstance(e, tuple) and e[0] == "agg" and e[1] == "adt":
        return e[2].split("::")[-1]
    return None


def leaf_option(e):
    """Option aggregate -> ('Some', inner) / ('None',) else None."""
    if isinstance(e, tuple) and e[0] == "agg" and e[1] == "adt" and e[2].startswith("std::option::Option::"):
        if e[2].endswith("::Some"):
            return ("Some", e[3][0])
        return ("None",)
    return None
