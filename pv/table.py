"""Finite decision tables from switch nests.

A *table function* is loop-free; its paths (from pv.sym.Explorer) branch only on discriminants of parameters, on
integer/string comparisons of parameters with literals, and on results of calls that the rule can resolve by
composing other tables.  `Table.lookup` selects, for one point of the finite domain, the unique path whose
conditions hold and returns its leaf expression.  Nothing of the program is executed: conditions are matched
against the point, leaves are constants/aggregates read off the MIR.
"""
from .sym import Explorer, is_const


class Undecided(Exception):
    pass


def strip(e):
    """Look through casts, derefs of refs and reborrows for identification of parameters."""
    while isinstance(e, tuple) and e[0] in ("cast", "deref", "ref"):
        e = e[2] if e[0] == "cast" else e[1]
    return e


class Composer:
    """Composition of decision tables across calls to local loop-free functions, on abstract values of a finite domain:
    ints/bools, ("enum", discriminant), lists (array literals), tuples, ("Some", v) / ("None",).  A call is resolved by
    looking up the callee's own table at the point induced by the argument values (nothing is executed: every step
    is the selection of the one path whose conditions hold, and the reading of its leaf)."""

    def __init__(self, prog, max_depth=8):
        self.prog = prog
        self.tables = {}
        self.max_depth = max_depth

    def table(self, fn):
        if fn not in self.tables:
            b = self.prog.bodies.get(fn)
            t = Table(b, composer=self) if b is not None else None
            self.tables[fn] = t if t is not None and t.is_table else None
        return self.tables[fn]

    def _discr(self, adt_variant, vidx):
        adt = adt_variant.rsplit("::", 1)[0]
        a = self.prog.adts.get(adt)
        if a and vidx is not None and vidx < len(a["variants"]):
            return int(a["variants"][vidx]["discr"])
        return None

    def absval(self, e, point, depth=0):
        if depth > 40:
            raise Undecided("expression too deep")
        if is_const(e):
            return e[1]
        if not isinstance(e, tuple):
            raise Undecided(f"cannot evaluate {e!r}")
        k = e[0]
        if k in ("deref", "ref"):
            return self.absval(e[1], point, depth + 1)
        if k == "cast":
            return self.absval(e[2], point, depth + 1)
        if k == "chk":
            return self.absval(e[1], point, depth + 1)
        if k == "p":
            if ("abs", e[1]) in point:
                return point[("abs", e[1])]
            for kind in ("discr", "val", "abs"):
                if (kind, e[1]) in point:
                    v = point[(kind, e[1])]
                    return ("enum", v) if kind == "discr" else v
            raise Undecided(f"parameter {e[1]} is not part of the domain point")
        if k == "kvariant":
            d = self._discr(e[1], e[2])
            if d is None:
                raise Undecided(f"unknown variant {e[1]}")
            return ("enum", d)
        if k == "agg" and e[1] == "closure":
            return ("closure", e[2], tuple(self.absval(x, point, depth + 1) for x in e[3]))
        if k == "agg":
            if e[1] == "adt":
                if e[2].startswith("std::option::Option::"):
                    return ("Some", self.absval(e[3][0], point, depth + 1)) if e[2].endswith("::Some") else ("None",)
                if not e[3]:
                    d = self._discr(e[2], e[4] if len(e) > 4 else None)
                    if d is not None:
                        return ("enum", d)
                return ("adt", e[2], tuple(self.absval(x, point, depth + 1) for x in e[3]))
            if e[1] == "array":
                return [self.absval(x, point, depth + 1) for x in e[3]]
            if e[1] == "tuple":
                return tuple(self.absval(x, point, depth + 1) for x in e[3])
        if k == "repeat":
            return [self.absval(e[1], point, depth + 1)] * int(e[2])
        if k == "kb":
            # constant bytes of an array of field-less enums (one discriminant per element)
            import re as _re

            m = _re.match(r"^&?\[([^;\]]+); (\d+)\]$", e[2])
            a = self.prog.adts.get(m.group(1)) if m else None
            if a and a.get("size") and all(not v.get("fields") for v in a["variants"]):
                sz, n = int(a["size"]), int(m.group(2))
                raw = bytes.fromhex(e[1])
                if len(raw) == sz * n:
                    return [("enum", int.from_bytes(raw[i * sz : (i + 1) * sz], "little")) for i in range(n)]
            raise Undecided(f"constant {e[2]} is not an array of field-less enums")
        if k == "ks":
            return e[1]
        if k == "agg" and e[1] == "closure":
            return ("closure", e[2], tuple(self.absval(x, point, depth + 1) for x in e[3]))
        if k == "discr":
            v = self.absval(e[1], point, depth + 1)
            if isinstance(v, tuple) and v and v[0] == "enum":
                return v[1]
            if isinstance(v, tuple) and v and v[0] in ("Some", "None"):
                return 1 if v[0] == "Some" else 0
            raise Undecided(f"discriminant of a non-enum value {v!r}")
        if k == "idx":
            base, i = self.absval(e[1], point, depth + 1), self.absval(e[2], point, depth + 1)
            if isinstance(base, list) and isinstance(i, int) and 0 <= i < len(base):
                return base[i]
            raise Undecided("index outside an array literal")
        if k == "fld":
            base = self.absval(e[1], point, depth + 1)
            if isinstance(base, tuple) and base and base[0] == "adt" and isinstance(e[2], int) and e[2] < len(base[2]):
                return base[2][e[2]]
            if isinstance(base, tuple) and base and base[0] == "Some" and e[2] in (0, "0"):
                return base[1]
            if isinstance(base, tuple) and base and base[0] == "closure" and isinstance(e[2], int) and e[2] < len(base[2]):
                return base[2][e[2]]
            if isinstance(base, tuple) and isinstance(e[2], int) and base and base[0] not in ("adt", "enum", "Some", "None") and e[2] < len(base):
                return base[e[2]]
            raise Undecided(f"field {e[2]!r} of {base!r}")
        if k == "down":
            return self.absval(e[1], point, depth + 1)
        if k == "un" and e[1] == "Not":
            v = self.absval(e[2], point, depth + 1)
            return (not v) if isinstance(v, bool) else ~v
        if k == "bin":
            a, b = self.absval(e[2], point, depth + 1), self.absval(e[3], point, depth + 1)
            op = e[1]
            if op in ("Eq", "Ne"):
                return (a == b) if op == "Eq" else (a != b)
            if isinstance(a, (int, bool)) and isinstance(b, (int, bool)):
                a, b = int(a), int(b)
                if op in ("Lt", "Le", "Gt", "Ge"):
                    return {"Lt": a < b, "Le": a <= b, "Gt": a > b, "Ge": a >= b}[op]
                if op in ("Add", "Sub", "Mul", "BitAnd", "BitOr", "BitXor"):
                    return {"Add": a + b, "Sub": a - b, "Mul": a * b, "BitAnd": a & b, "BitOr": a | b, "BitXor": a ^ b}[op]
            raise Undecided(f"operator {op} on {a!r}, {b!r}")
        if k == "call":
            return self.call(e[1], e[2], point, depth + 1)
        raise Undecided(f"cannot evaluate {e!r}")

    def call(self, callee, args, point, depth=0):
        import re as _re

        if depth > self.max_depth * 5:
            raise Undecided("call nesting too deep")
        base = _re.sub(r"::<[^<>]*>$", "", callee)
        if base.endswith("::contains") and len(args) == 2:
            hay, needle = self.absval(args[0], point, depth + 1), self.absval(args[1], point, depth + 1)
            if isinstance(hay, list):
                return needle in hay
        if "PartialEq" in base and base.endswith("::eq") and len(args) == 2:
            return self.absval(args[0], point, depth + 1) == self.absval(args[1], point, depth + 1)
        if "PartialEq" in base and base.endswith("::ne") and len(args) == 2:
            return self.absval(args[0], point, depth + 1) != self.absval(args[1], point, depth + 1)
        if base.endswith("intrinsics::discriminant_value") and len(args) == 1:
            v = self.absval(args[0], point, depth + 1)
            if isinstance(v, tuple) and v and v[0] == "enum":
                return v[1]
        last = base.split("::")[-1]
        if last in ("iter", "into_iter", "copied", "cloned", "clone", "by_ref", "as_slice", "deref", "as_ref", "borrow", "to_owned", "as_str") and len(args) == 1 and not (callee in self.prog.raw_bodies):
            return self.absval(args[0], point, depth + 1)
        if last in ("find", "position", "any", "all") and "Iterator" in base and len(args) == 2:
            seq, clo = self.absval(args[0], point, depth + 1), self.absval(args[1], point, depth + 1)
            if isinstance(seq, list) and isinstance(clo, tuple) and clo and clo[0] == "closure":
                t = self.table(clo[1])
                if t is None:
                    raise Undecided(f"closure {clo[1]} is not a loop-free table function")
                hits = []
                for i, el in enumerate(seq):
                    cp = {("abs", 1): clo, ("abs", 2): el}
                    path = t.lookup(cp)
                    r = self.absval(path.env.local(0), cp, depth + 1)
                    hits.append(bool(r))
                if last == "find":
                    return next((("Some", el) for el, h in zip(seq, hits) if h), ("None",))
                if last == "position":
                    return next((("Some", i) for i, h in enumerate(hits) if h), ("None",))
                return any(hits) if last == "any" else all(hits)
        # Option -> Result / Option -> value conversions of std
        if base.endswith("Option::<T>::ok_or") and len(args) == 2:
            v = self.absval(args[0], point, depth + 1)
            if isinstance(v, tuple) and v and v[0] == "Some":
                return ("Ok", v[1])
            if v == ("None",):
                return ("Err", None)
        if (base.endswith("Result::<T, E>::ok") or base.endswith("Result<T, E>::ok")) and len(args) == 1:
            v = self.absval(args[0], point, depth + 1)
            if isinstance(v, tuple) and v and v[0] == "Ok":
                return ("Some", v[1])
            if isinstance(v, tuple) and v and v[0] == "Err":
                return ("None",)
        if base.endswith("Option::<T>::is_some") or base.endswith("Option::<T>::is_none"):
            v = self.absval(args[0], point, depth + 1)
            if isinstance(v, tuple) and v and v[0] in ("Some", "None"):
                return (v[0] == "Some") == base.endswith("is_some")
        t = self.table(callee) or self.table(base)
        if t is None:
            raise Undecided(f"call to {callee} cannot be composed (not a local loop-free function)")
        cp = {}
        for i, a in enumerate(args, 1):
            v = self.absval(a, point, depth + 1)
            if isinstance(v, tuple) and v and v[0] == "enum":
                cp[("discr", i)] = v[1]
            elif isinstance(v, (int, bool)):
                cp[("val", i)] = int(v)
            else:
                cp[("abs", i)] = v
        path = t.lookup(cp)
        if path.end != "return":
            raise Undecided(f"{callee} diverges at {cp}")
        return self.absval(path.env.local(0), cp, depth + 1)


class Table:
    def __init__(self, body, max_paths=5000, composer=None):
        self.body = body
        self.composer = composer
        ex = Explorer(body, max_paths=max_paths)
        self.paths = ex.explore()
        self.is_table = not ex.truncated and all(p.end in ("return", "diverge", "unreachable") for p in self.paths) and not ex.loops()

    def value(self, e, point, call_eval):
        """Concrete value of a condition operand at a domain point (params only) or raise Undecided."""
        if is_const(e):
            return e[1]
        if isinstance(e, tuple):
            if e[0] == "discr":
                inner = strip(e[1])
                if isinstance(inner, tuple) and inner[0] == "p" and ("discr", inner[1]) in point:
                    return point[("discr", inner[1])]
                # discriminant of a field of a param, e.g. self.repo_type
                key = ("discr", _path_key(e[1]))
                if key in point:
                    return point[key]
            if e[0] == "p" and ("val", e[1]) in point:
                return point[("val", e[1])]
            if e[0] in ("cast",):
                return self.value(e[2], point, call_eval)
            if e[0] == "chk":
                return self.value(e[1], point, call_eval)
            if e[0] == "bin" and e[1] in ("Eq", "Ne", "Lt", "Le", "Gt", "Ge", "Add", "Sub"):
                a = self.value(e[2], point, call_eval)
                b = self.value(e[3], point, call_eval)
                return int({"Eq": a == b, "Ne": a != b, "Lt": a < b, "Le": a <= b, "Gt": a > b, "Ge": a >= b, "Add": a + b, "Sub": a - b}[e[1]])
            if e[0] == "deref":
                return self.value(e[1], point, call_eval)
            if e[0] == "call" and call_eval is not None:
                r = call_eval(e[1], e[2], point)
                if r is not None:
                    return int(r)
            key = ("expr", _path_key(e))
            if key in point:
                return point[key]
            if self.composer is not None:
                v = self.composer.absval(e, point)
                if isinstance(v, (int, bool)):
                    return int(v)
                if isinstance(v, tuple) and v and v[0] == "enum":
                    return v[1]
                raise Undecided(f"condition operand {e!r} evaluates to the non-scalar {v!r}")
        raise Undecided(f"cannot resolve condition operand {e!r}")

    def lookup(self, point, call_eval=None):
        hits = []
        for p in self.paths:
            ok = True
            for d, c in p.conds:
                v = self.value(d, point, call_eval)
                if c[0] == "eq":
                    if int(v) != c[1]:
                        ok = False
                        break
                else:
                    if int(v) in c[1]:
                        ok = False
                        break
            if ok:
                hits.append(p)
        if len(hits) != 1:
            raise Undecided(f"{len(hits)} paths match point {point}")
        return hits[0]


def _path_key(e):
    """Stable key for a place-like expression rooted at a parameter: ('p',1,'repo_type')."""
    parts = []
    while isinstance(e, tuple):
        if e[0] == "fld":
            parts.append(str(e[2]))
            e = e[1]
        elif e[0] in ("deref", "ref"):
            e = e[1]
        elif e[0] == "down":
            parts.append("as:" + str(e[2]))
            e = e[1]
        elif e[0] == "cast":
            e = e[2]
        elif e[0] == "p":
            return ("p", e[1]) + tuple(reversed(parts))
        else:
            return None
    return None


def enum_variants(prog, path):
    """name -> discriminant value, in declaration order."""
    a = prog.adts.get(path)
    if not a:
        return None
    return [(v["name"], int(v["discr"])) for v in a["variants"]]


def leaf_variant(e):
    """Unit-variant aggregate -> variant name."""
    if isinstance(e, tuple) and e[0] == "agg" and e[1] == "adt":
        return e[2].split("::")[-1]
    return None


def leaf_option(e):
    """Option aggregate -> ('Some', inner) / ('None',) else None."""
    if isinstance(e, tuple) and e[0] == "agg" and e[1] == "adt" and e[2].startswith("std::option::Option::"):
        if e[2].endswith("::Some"):
            return ("Some", e[3][0])
        return ("None",)
    return None


def const_name_search(prog, body, enum_path):
    """`TABLE.iter().find(|(name, _)| *name == s).map(|&(_, v)| v)` over a constant `[(&str, Enum); N]`: returns
    {name: variant name} read from the compiler-evaluated constant (strings through its relocations), or None when the
    body is not that search.  The closures are checked by provenance: the find closure compares the name half of the
    element with the captured argument, the map closure returns the other half; a forward `find` returns the first
    match, which for distinct names is the only one."""
    import re

    from .prov import derive, index_of

    ix = index_of(body)
    const = None
    operands = [o for _bi, t in body.calls() for o in t["args"]]
    for _bi, _si, st in body.stmts():
        rv = st.get("rv") or {}
        operands += [rv.get("a"), rv.get("b")] + list(rv.get("ops", []))
    for o in operands:
        k = o.get("k") if isinstance(o, dict) else None
        ty = str((k or {}).get("ty", "")).replace(" ", "").replace("'static", "")
        m = re.match(r"^&?\[\(&str,(.+)\);(\d+)\]$", ty)
        if isinstance(k, dict) and m and m.group(1) == enum_path:
            item = prog.consts.get(k.get("uneval") or "")
            if not item or not item.get("relocs"):
                # a promoted reference to the constant: find the constant item of that type with the same bytes
                for c_ in prog.consts.values():
                    cty = str(c_.get("ty", "")).replace(" ", "").replace("'static", "")
                    if cty == ty.lstrip("&") and c_.get("relocs") and (not k.get("bytes") or c_.get("bytes") == k.get("bytes")):
                        item = c_
            if item:
                const = (item, int(m.group(2)))
    if not const or not const[0] or not const[0].get("bytes") or not const[0].get("relocs"):
        return None
    raw = bytes.fromhex(const[0]["bytes"])
    n = const[1]
    if n == 0 or len(raw) % n:
        return None
    stride = len(raw) // n
    relocs = {int(o): bytes.fromhex(h) for o, h in const[0]["relocs"]}
    adt = prog.adts.get(enum_path)
    if not adt or stride < 17:
        return None
    by_discr = {int(v["discr"]) & 0xFF: v["name"] for v in adt["variants"]}
    po = min(relocs) % stride if relocs else None
    if po is None:
        return None
    eo = 16 if po == 0 else 0  # the enum byte lies outside the fat pointer
    table = {}
    for i in range(n):
        base = i * stride
        tgt = relocs.get(base + po)
        if tgt is None:
            return None
        ln = int.from_bytes(raw[base + po + 8 : base + po + 16], "little")
        name = tgt[:ln].decode("utf-8", "replace")
        var = by_discr.get(raw[base + eo])
        if var is None or name in table:
            return None
        table[name] = var
    # the search itself
    calls = [(bi, t) for bi, t in body.calls()]
    lasts = [(t.get("res") or "").split("::")[-1] for _bi, t in calls]
    if "find" not in lasts or {"rfind", "rev", "last", "rposition", "filter", "skip", "take"} & set(lasts):
        return None
    find_ok = map_ok = False
    for _bi, t in calls:
        last = (t.get("res") or "").split("::")[-1]
        if last not in ("find", "map") or len(t["args"]) != 2:
            continue
        kk = ix.resolve(t["args"][1])
        if not (kk[0] == "rv" and kk[1]["k"] == "agg" and kk[1].get("ak") == "closure"):
            continue
        cb = prog.body(kk[1]["closure"])
        if cb is None:
            continue
        cix = index_of(cb)
        if last == "find":
            for _b2, t2 in cb.calls():
                c2 = t2.get("res") or ""
                if "PartialEq" in c2 and c2.split("::")[-1] == "eq" and len(t2["args"]) == 2:
                    d0, d1 = derive(cix, t2["args"][0]), derive(cix, t2["args"][1])
                    for el, cap in ((d0, d1), (d1, d0)):
                        if 2 in el.params and any(p and p[-1] == "#0" for p in el.paths) and not any(p and p[-1] == "#1" for p in el.paths) and cap.outer_params == {1}:
                            find_ok = True
        else:
            d0 = derive(cix, {"c": {"l": 0, "p": [], "ty": ""}})
            map_ok = 2 in d0.params and any(p and p[-1] == "#1" for p in d0.paths) and not any(p and p[-1] == "#0" for p in d0.paths) and not d0.ops
    return table if find_ok and map_ok else None
