"""Regenerates /verif/MANIFEST.json from the per-property tables below (kept in one place so it stays valid)."""
import json
import os

VERIF = os.path.dirname(os.path.dirname(os.path.abspath(__file__)))

CLAIMED = {
    # id: (technique, level text, level note, design ref)
}

NOT_APPLICABLE = {}


def load_tables():
    with open(os.path.join(VERIF, "spec", "claims.json")) as fh:
        return json.load(fh)


def main():
    t = load_tables()
    checks = []
    for pid, c in sorted(t["claimed"].items()):
        checks.append(
            dict(
                property_id=pid,
                quick_cmd=f"./check {pid} --tier quick",
                thorough_cmd=f"./check {pid} --tier thorough",
                evidence_file=f"/verif/evidence/{pid}.json",
                replay_cmd_template=f"./check {pid} --replay {{path}}",
                engine="pv",
                level_claimed=dict(category="other", text=c["text"], design_ref=c.get("design_ref", "DESIGN.md §4")),
                level_note=c["note"],
                technique=c["technique"],
            )
        )
    man = dict(
        version=1,
        setup_cmd="./setup.sh",
        hooks=dict(guard="physis_verif", enable="none needed: the checks analyse the unmodified sources (no instrumentation in /repo)", baseline_off_cmd="cd /repo && cargo test --workspace --no-fail-fast --offline", source_commits=[], add_only=True),
        engines=[
            dict(name="mirfacts", path="tools/mirfacts", serves_properties=sorted(t["claimed"]), kind_free_text="rustc_private driver: MIR, monomorphic call graph, compiler-evaluated constants, ADT layouts as JSON facts"),
            dict(name="wirefacts", path="tools/wirefacts", serves_properties=sorted(t["claimed"]), kind_free_text="syn-based extractor of binrw declarations, macro templates and literals"),
            dict(name="pv", path="pv", serves_properties=sorted(t["claimed"]), kind_free_text="Python rule layer: dominators, provenance, expression reconstruction, decision tables, wire model, panic-site reachability"),
        ],
        checks=checks,
        notes=t.get("notes", ""),
        not_applicable=[dict(property_id=k, reason=v) for k, v in sorted(t["not_applicable"].items())],
    )
    with open(os.path.join(VERIF, "MANIFEST.json"), "w") as fh:
        json.dump(man, fh, indent=1)
    print("MANIFEST.json written:", len(checks), "checks,", len(man["not_applicable"]), "not applicable")


if __name__ == "__main__":
    main()
