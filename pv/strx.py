"""String expressions from MIR: what a `String` is built from, as a sequence of literal pieces and formatted arguments.

`format!`/`write!` lower to `fmt::Arguments::new(template, &[Argument::new_<trait>(&value), ..])` where `template` is
a constant byte string encoding the literal pieces and the placeholders with their options (core::fmt, "Placeholders
representation").  This module decodes that constant and follows the argument array back to the formatted operands,
so a rule can ask "which text does this function return" without depending on how the source spells it: positional
or inline arguments, a value hoisted into a `let`, a helper that was inlined (pv.inline), a `String` finished with
`push_str`/`push`.  Nothing is executed; an operand the module cannot follow is returned as an opaque piece.

Pieces:  ("lit", text)
         ("arg", kind, (width, radix, zero_pad), operand)      kind: display | lower_hex | upper_hex | debug | ...
         ("map", fn_name, [pieces])                            e.g. to_lowercase of a string expression
         ("opaque", operand)
"""
import re

from .mir import const_int, op_place
from .panic import BodyIndex

WIDTH_FLAG = 1 << 27
ZERO_PAD = 1 << 24


def decode_template(hexbytes):
    """core::fmt template bytes -> [("lit", str) | ("ph", dict)]"""
    b = bytes.fromhex(hexbytes)
    out = []
    i = 0
    nxt = 0
    while i < len(b):
        n = b[i]
        i += 1
        if n == 0:
            break
        if n < 0x80:
            out.append(("lit", b[i : i + n].decode("utf-8", "replace")))
            i += n
        elif n == 0x80:
            ln = int.from_bytes(b[i : i + 2], "little")
            i += 2
            out.append(("lit", b[i : i + ln].decode("utf-8", "replace")))
            i += ln
        elif n & 0xC0 == 0xC0:
            ph = {"flags": None, "width": None, "precision": None, "arg": None, "width_indirect": bool(n & 0x10), "precision_indirect": bool(n & 0x20)}
            if n & 1:
                ph["flags"] = int.from_bytes(b[i : i + 4], "little")
                i += 4
            if n & 2:
                ph["width"] = int.from_bytes(b[i : i + 2], "little")
                i += 2
            if n & 4:
                ph["precision"] = int.from_bytes(b[i : i + 2], "little")
                i += 2
            if n & 8:
                ph["arg"] = int.from_bytes(b[i : i + 2], "little")
                i += 2
                nxt = ph["arg"] + 1
            else:
                ph["arg"] = nxt
                nxt += 1
            out.append(("ph", ph))
        else:
            return None
    return out


def _last(c):
    return re.sub(r"::<[^<>]*>$", "", c or "").split("::")[-1]


PASS = ("must_use", "from", "to_string", "to_owned", "into", "clone", "deref", "as_str", "as_ref", "borrow", "as_mut_str", "to_str", "into_owned", "into_string", "unwrap", "expect")
MAPS = ("to_lowercase", "to_uppercase", "to_ascii_lowercase", "to_ascii_uppercase", "trim", "trim_matches", "trim_end", "trim_start")


class StrX:
    def __init__(self, body):
        self.b = body
        self.ix = BodyIndex(body)

    # ---- format_args
    def arguments(self, t):
        """Pieces of a call to fmt::Arguments::new / from_str."""
        c = self.ix.callee(t)
        if c.endswith("Arguments::<'a>::from_str") or c.endswith("Arguments::from_str"):
            k = t["args"][0].get("k") if isinstance(t["args"][0], dict) else None
            s = self._const_str(t["args"][0])
            return [("lit", s)] if s is not None else None
        if not (c.endswith("Arguments::<'a>::new") or c.endswith("fmt::Arguments::new")):
            return None
        tb = self._const_bytes(t["args"][0])
        if tb is None:
            return None
        tpl = decode_template(tb)
        if tpl is None:
            return None
        args = self._arg_array(t["args"][1])
        out = []
        for kind, v in tpl:
            if kind == "lit":
                out.append(("lit", v))
                continue
            a = args[v["arg"]] if args is not None and v["arg"] is not None and v["arg"] < len(args) else None
            flags = v["flags"] or 0
            width = v["width"] if (v["width"] is not None and not v["width_indirect"]) else 0
            akind, operand = a if a else ("?", None)
            radix = 16 if akind in ("lower_hex", "upper_hex") else 8 if akind == "octal" else 2 if akind == "binary" else 10
            out.append(("arg", akind, (width, radix, bool(flags & ZERO_PAD)), operand))
        return out

    def _const_bytes(self, op, depth=0):
        if depth > 6:
            return None
        k = op.get("k") if isinstance(op, dict) else None
        if isinstance(k, dict) and "bytes" in k:
            return k["bytes"]
        p = op_place(op)
        if p is None:
            return None
        d = self.ix.single_def(p["l"])
        if d and d[0] == "assign":
            rv = d[3]["rv"]
            if rv["k"] in ("use", "cast"):
                return self._const_bytes(rv["a"], depth + 1)
            if rv["k"] == "ref":
                return self._const_bytes({"c": {"l": rv["p"]["l"], "p": [], "ty": ""}}, depth + 1)
        return None

    def _const_str(self, op, depth=0):
        if depth > 6:
            return None
        k = op.get("k") if isinstance(op, dict) else None
        if isinstance(k, dict) and "str" in k:
            return k["str"]
        p = op_place(op)
        if p is None:
            return None
        d = self.ix.single_def(p["l"])
        if d and d[0] == "assign":
            rv = d[3]["rv"]
            if rv["k"] in ("use", "cast"):
                return self._const_str(rv["a"], depth + 1)
            if rv["k"] == "ref":
                return self._const_str({"c": {"l": rv["p"]["l"], "p": [], "ty": ""}}, depth + 1)
        return None

    def _arg_array(self, op):
        """[(kind, formatted operand)] of the &[Argument; M] operand."""
        p = op_place(op)
        for _ in range(6):
            if p is None:
                return None
            d = self.ix.single_def(p["l"])
            if not d or d[0] != "assign":
                return None
            rv = d[3]["rv"]
            if rv["k"] == "agg" and rv.get("ak") == "array":
                out = []
                for o in rv["ops"]:
                    r = self.ix.resolve(o)
                    if r[0] == "call":
                        m = re.search(r"Argument::<'_>::new_(\w+)$|Argument::new_(\w+)$", re.sub(r"::<[^<>]*>$", "", self.ix.callee(r[1])))
                        if m:
                            out.append(((m.group(1) or m.group(2)), self._deref(r[1]["args"][0])))
                            continue
                    out.append(("?", o))
                return out
            if rv["k"] == "ref":
                p = {"l": rv["p"]["l"], "p": []} if not [x for x in rv["p"]["p"] if x != "*"] else None
            elif rv["k"] in ("use", "cast"):
                p = op_place(rv["a"])
            else:
                return None
        return None

    def _deref(self, op, depth=0):
        """Operand a reference operand points to (`&x` -> x, through reborrows and tuple-of-references packing)."""
        if depth > 8:
            return op
        p = op_place(op)
        if p is None or p["p"]:
            return op
        d = self.ix.single_def(p["l"])
        if not d or d[0] != "assign":
            return op
        rv = d[3]["rv"]
        if rv["k"] == "ref":
            q = rv["p"]
            if q["p"] == ["*"]:
                return self._deref({"c": {"l": q["l"], "p": [], "ty": ""}}, depth + 1)
            return {"c": q}
        if rv["k"] == "use":
            q = op_place(rv["a"])
            # (tuple of references).k  - format_args packs its arguments in a tuple first
            if q is not None and len(q["p"]) == 1 and isinstance(q["p"][0], dict) and "f" in q["p"][0] and "n" not in q["p"][0]:
                dt = self.ix.single_def(q["l"])
                if dt and dt[0] == "assign" and dt[3]["rv"]["k"] == "agg" and dt[3]["rv"].get("ak") == "tuple":
                    return self._deref(dt[3]["rv"]["ops"][q["p"][0]["f"]], depth + 1)
            return self._deref(rv["a"], depth + 1)
        return op

    # ---- string values
    def string(self, op, depth=0):
        """Pieces of the string an operand holds."""
        if depth > 12:
            return [("opaque", op)]
        s = self._const_str(op)
        if s is not None:
            return [("lit", s)]
        p = op_place(op)
        if p is None:
            return [("opaque", op)]
        if p["p"]:
            # *ref / field: look through a plain deref
            if p["p"] == ["*"]:
                return self.string(self._deref({"c": {"l": p["l"], "p": [], "ty": ""}}), depth + 1) if self.ix.single_def(p["l"]) else [("opaque", op)]
            return [("opaque", op)]
        l = p["l"]
        d = self.ix.single_def(l)
        if d is None:
            return [("opaque", op)]
        base = None
        if d[0] == "assign":
            rv = d[3]["rv"]
            if rv["k"] in ("use", "cast"):
                base = self.string(rv["a"], depth + 1)
            elif rv["k"] == "ref":
                base = self.string({"c": rv["p"]} if rv["p"]["p"] else {"c": {"l": rv["p"]["l"], "p": [], "ty": ""}}, depth + 1)
            else:
                return [("opaque", op)]
        else:
            t = d[3]
            c = self.ix.callee(t)
            last = _last(c)
            if c.endswith("fmt::format") or c.endswith("fmt::format::format_inner"):
                a = self.ix.resolve(t["args"][0])
                pcs = self.arguments(a[1]) if a[0] == "call" else None
                base = self._flatten(pcs, depth) if pcs is not None else [("opaque", op)]
            elif last in PASS and t["args"] and not t.get("resl"):
                base = self.string(t["args"][0], depth + 1)
            elif last in MAPS and t["args"] and not t.get("resl"):
                base = [("map", last, self.string(t["args"][0], depth + 1))]
            elif last == "new" and c.endswith("String::new"):
                base = []
            else:
                base = [("opaque", op)]
        # later appends: push_str / push on &mut l, in dominance order
        muts = []
        for bi, si, st in self.b.stmts():
            if st["k"] == "assign" and st["rv"]["k"] == "ref" and st["rv"].get("mut") is True and st["rv"]["p"]["l"] == l and not st["rv"]["p"]["p"] and not st["lhs"]["p"]:
                tmp = st["lhs"]["l"]
                for bj, t in self.b.calls():
                    if any((op_place(a) or {}).get("l") == tmp for a in t["args"][:1]):
                        muts.append((bj, t))
        if muts:
            muts.sort(key=lambda x: (len([1 for y in muts if self.b.dominates(y[0], x[0])]), x[0]))
            # appends form a chain while each dominates the next; what comes after a fork (appends under a condition)
            # is not described: the known straight-line prefix is returned, followed by an opaque rest
            k = len(muts)
            for i in range(len(muts) - 1):
                if not self.b.dominates(muts[i][0], muts[i + 1][0]):
                    k = i + 1
                    break
            if k < len(muts) and depth > 0:
                return [("opaque", op)]
            rest_unknown = k < len(muts)
            for bj, t in muts[:k]:
                last = _last(self.ix.callee(t))
                if last == "push_str" and len(t["args"]) == 2:
                    base = base + self.string(t["args"][1], depth + 1)
                elif last == "push" and len(t["args"]) == 2:
                    ch = const_int(t["args"][1])
                    r = self.ix.resolve(t["args"][1])
                    ch = ch if ch is not None else (r[1] if r[0] == "const" else None)
                    base = base + ([("lit", chr(ch))] if ch is not None else [("opaque", t["args"][1])])
                else:
                    rest_unknown = True
                    break
            if rest_unknown:
                base = base + [("opaque", None)]
        return merge(base)

    def _flatten(self, pcs, depth):
        out = []
        for p in pcs:
            if p[0] == "arg" and p[1] == "display" and p[2] == (0, 10, False) and p[3] is not None:
                ty = (op_place(p[3]) or {}).get("ty", "")
                if ty.replace("&", "").replace("mut ", "").strip() in ("std::string::String", "str") or ty == "":
                    inner = self.string(p[3], depth + 1)
                    if not any(x[0] == "opaque" for x in inner):
                        out.extend(inner)
                        continue
            out.append(p)
        return merge(out)

    def returned(self):
        """Pieces of the String the function returns (its single assignment of the return place)."""
        d = self.ix.single_def(0)
        if not d:
            return [("opaque", None)]
        if d[0] == "call":
            t = d[3]
            c = self.ix.callee(t)
            if _last(c) == "must_use" and t["args"]:
                return self.string(t["args"][0])
            if c.endswith("fmt::format"):
                a = self.ix.resolve(t["args"][0])
                pcs = self.arguments(a[1]) if a[0] == "call" else None
                return self._flatten(pcs, 0) if pcs is not None else [("opaque", None)]
            return [("opaque", None)]
        rv = d[3]["rv"]
        if rv["k"] == "use":
            return self.string(rv["a"])
        return [("opaque", None)]

    def format_sites(self):
        """Every format_args in the body: (bb, pieces)."""
        out = []
        for bi, t in self.b.calls():
            c = self.ix.callee(t)
            if c.endswith("Arguments::<'a>::new") or c.endswith("Arguments::<'a>::from_str") or c.endswith("fmt::Arguments::new") or c.endswith("fmt::Arguments::from_str"):
                p = self.arguments(t)
                if p is not None:
                    out.append((bi, self._flatten(p, 0)))
        return out


def merge(pcs):
    out = []
    for p in pcs:
        if p[0] == "lit" and out and out[-1][0] == "lit":
            out[-1] = ("lit", out[-1][1] + p[1])
        elif p[0] == "lit" and p[1] == "":
            continue
        else:
            out.append(p)
    return out


def shape(pcs):
    """Comparable shape: literals verbatim, arguments by (kind, spec)."""
    return [(p[0], p[1]) if p[0] == "lit" else (p[0], p[1], p[2]) if p[0] == "arg" else (p[0], p[1] if p[0] == "map" else None) for p in pcs]


def show(pcs):
    out = []
    for p in pcs:
        if p[0] == "lit":
            out.append(p[1])
        elif p[0] == "arg":
            w, r, z = p[2]
            out.append("{" + (":" + ("0" if z else "") + (str(w) if w else "") + ("x" if r == 16 else "") if (w or z or r != 10) else "") + "}")
        elif p[0] == "map":
            out.append(f"{p[1]}({show(p[2])})")
        else:
            out.append("<?>")
    return "".join(out)
