"""Independent reference values computed by the checker (never read from the repository)."""
from math import isqrt


def pi_hex_digits(n):
    """First n hexadecimal digits of the fractional part of pi (Machin's formula in integer arithmetic)."""
    guard = 64
    bits = 4 * n + guard
    one = 1 << bits

    def arctan_inv(x):
        # arctan(1/x) * 2^bits
        total = 0
        term = one // x
        x2 = x * x
        k = 0
        while term:
            total += term // (2 * k + 1) if k % 2 == 0 else -(term // (2 * k + 1))
            term //= x2
            k += 1
        return total

    pi = 4 * (4 * arctan_inv(5) - arctan_inv(239))
    frac = pi - 3 * one
    frac >>= guard
    return f"{frac:0{n}x}"


def blowfish_tables():
    """P (18 words) and S (4x256 words) of Blowfish = consecutive 32-bit words of pi's fractional hex expansion."""
    d = pi_hex_digits(8 * (18 + 1024))
    words = [int(d[i * 8 : i * 8 + 8], 16) for i in range(18 + 1024)]
    return words[:18], [words[18 + 256 * k : 18 + 256 * (k + 1)] for k in range(4)]


def crc32_reflected_table(poly=0xEDB88320):
    t = []
    for i in range(256):
        c = i
        for _ in range(8):
            c = (c >> 1) ^ poly if c & 1 else c >> 1
        t.append(c)
    return t


def sha1_constants():
    """FIPS 180-4: H0..H4 and K0..K3.  K_t = floor(2^30 * sqrt(c)), c in 2,3,5,10; H from the byte pattern."""
    ks = [isqrt(c << 60) for c in (2, 3, 5, 10)]
    h = [0x67452301, 0xEFCDAB89, 0x98BADCFE, 0x10325476, 0xC3D2E1F0]
    return h, ks
