"""UNSAFE — the unsafe operations reachable from untrusted-input entry points keep inside the memory they were given.

A panic is the benign way for a parser to fail on damaged input; an out-of-bounds raw access is the other one.  The crate
has a handful of unsafe operations; each reachable one is decided by the shape of its operands:

  RAWPARTS  `slice::from_raw_parts(_mut)(p, n)`: `p` is `as_ptr()/as_mut_ptr()` of a slice or array S (through pointer
            casts only) and the bytes requested, `n * size_of(target element)`, are at most the bytes S holds —
            `n` is `len(S) * k` (plain, `checked_mul(..).unwrap()`, or both constants) with k * target size <= element size.
  DEREF     a raw pointer cast to `*const [T; N]` and dereferenced: the pointer is `as_ptr()` of a slice whose length was
            compared for equality with N on a dominating edge (`assert_eq!(input.len(), 64)`).
  FFI       calls into libz: the callee is one of those confirmed by reading and every (pointer, length) argument pair
            names the same slice (`crc32(crc, s.as_ptr(), s.len())`; the inflate stream is wired by rule BLOCK of C02).
  anything else that needs `unsafe` (an unlisted unsafe callee, a raw dereference of another shape) is reported: it has
  not been confirmed by reading.

What is decided is the extent, not the validity of the data viewed (every bit pattern is a valid u8/u16/u32).
"""
from .mir import const_int
from .prov import derive, index_of
from .sym import Explorer, show, walk

PRIM = {"u8": 1, "i8": 1, "bool": 1, "u16": 2, "i16": 2, "u32": 4, "i32": 4, "f32": 4, "u64": 8, "i64": 8, "f64": 8, "usize": 8, "isize": 8}
FFI_OK = {
    "libz_rs_sys::inflateInit2_": "stream initialised in place; released by inflateEnd on every exit (C02/C18 PAIR)",
    "libz_rs_sys::inflate": "stream buffers wired to the two slices with their own lengths (C02 BLOCK ffi-args)",
    "libz_rs_sys::inflateEnd": "release of the stream initialised above",
    "libz_rs_sys::zlibVersion": "returns a static string",
    "libz_rs_sys::crc32": "pointer and length of the same slice (checked here)",
}


def _elem_size(ty):
    ty = ty.strip()
    if ty in PRIM:
        return PRIM[ty]
    return None


def _src_of_ptr(e):
    """(source expression, element type) when e is as_ptr/as_mut_ptr of something, through casts."""
    for x in walk(e):
        if isinstance(x, tuple) and x and x[0] == "call" and str(x[1]).split("::")[-1] in ("as_ptr", "as_mut_ptr"):
            return x[2][0] if x[2] else None
    return None


def _bytes_coef(e):
    """n as (k, source) meaning k * len(source); (k, None) for a constant."""
    if isinstance(e, tuple) and e:
        if e[0] == "k" and isinstance(e[1], int):
            return e[1], None
        if e[0] == "len":
            return 1, e[1]
        if e[0] == "call" and str(e[1]).endswith("::len") and e[2]:
            return 1, e[2][0]
        if e[0] == "cast" and len(e) >= 2:
            return _bytes_coef(e[-1] if not isinstance(e[1], tuple) else e[1])
        if e[0] == "bin" and e[1] in ("Mul", "WMul"):
            a, b = _bytes_coef(e[2]), _bytes_coef(e[3])
            if a and b and (a[1] is None or b[1] is None):
                return a[0] * b[0], a[1] if a[1] is not None else b[1]
        if e[0] == "call":
            nm = str(e[1]).split("::")[-1]
            if nm in ("unwrap", "expect") and e[2]:
                return _bytes_coef(e[2][0])
            if nm in ("checked_mul", "wrapping_mul", "saturating_mul") and len(e[2]) == 2:
                a, b = _bytes_coef(e[2][0]), _bytes_coef(e[2][1])
                if a and b and (a[1] is None or b[1] is None):
                    return a[0] * b[0], a[1] if a[1] is not None else b[1]
            if nm == "size_of" or "size_of" in str(e[1]):
                return None
    return None


def _strip(e):
    while isinstance(e, tuple) and e and e[0] in ("ref", "deref", "cast", "reborrow", "unsize") and len(e) >= 2:
        e = e[-1] if isinstance(e[-1], tuple) else e[1]
    return e


def _same(a, b):
    return repr(_strip(a)) == repr(_strip(b))


def _array_len(ty):
    # "[u32; 4]" / "&[i32; 4]" -> (elem, n)
    t = ty.strip().lstrip("&").replace("mut ", "").strip()
    if t.startswith("[") and ";" in t:
        el, n = t[1:-1].rsplit(";", 1)
        try:
            return el.strip(), int(n.strip())
        except ValueError:
            return None
    return None


def _local_ty(body, e):
    e = _strip(e)
    if isinstance(e, tuple) and e and e[0] in ("p", "l", "h", "u") and isinstance(e[1], int) and e[1] < len(body.locals):
        return str(body.locals[e[1]].get("ty", ""))
    return None


def rule(ctx, defs, rule="UNSAFE"):
    """`defs`: names of the local functions reachable from the property's entry points."""
    prog = ctx.prog
    n_sites = 0
    inventory = []
    for name in sorted(defs):
        b = prog.raw_bodies.get(name)
        if b is None:
            continue
        sites = [(bi, t) for bi, t in b.calls() if t.get("unsafe") and not (t.get("sp") or {}).get("mx")]
        derefs = []
        for bi, blk in enumerate(b.blocks):
            if blk["cleanup"]:
                continue
            for st in blk["s"]:
                if st.get("k") != "assign" or (st.get("sp") or {}).get("mx"):
                    continue
                pl = st["rv"].get("p") if st["rv"].get("k") == "ref" else None
                if isinstance(pl, dict) and pl.get("p") and pl["p"][0] == "*" and str(b.locals[pl["l"]].get("ty", "")).startswith(("*const", "*mut")):
                    derefs.append((bi, pl))
        if not sites and not derefs:
            continue
        fn = name
        paths = None
        for bi, t in sites:
            callee = t.get("res") or ""
            short = callee.split("::")[-1]
            n_sites += 1
            inventory.append(f"{fn}: {callee}")
            if short in ("from_raw_parts", "from_raw_parts_mut") and "slice" in callee:
                if paths is None:
                    paths = Explorer(b).explore()
                ev = [(args) for p in paths for (bb, c, args, _r) in p.events if bb == bi]
                ok, det = False, "call not found on any explored path"
                if ev:
                    ptr_e, len_e = ev[0][0], ev[0][1]
                    src = _src_of_ptr(ptr_e)
                    tgt = _elem_size((t["f"]["k"].get("ga") or ["?"])[-1])
                    coef = _bytes_coef(len_e)
                    sty = _local_ty(b, src) if src is not None else None
                    s_el = None
                    s_n = None
                    if sty:
                        al = _array_len(sty)
                        if al:
                            s_el, s_n = _elem_size(al[0]), al[1]
                        else:
                            t_ = sty.strip().lstrip("&").replace("mut ", "").strip()
                            if t_.startswith("[") and t_.endswith("]"):
                                s_el = _elem_size(t_[1:-1])
                    det = f"pointer from {show(src)[:40] if src is not None else None} ({sty}), length {show(len_e)[:60]}, target element {tgt} byte(s)"
                    if src is not None and tgt and coef and s_el:
                        k, lsrc = coef
                        if lsrc is not None:
                            ok = _same(lsrc, src) and k * tgt <= s_el
                        elif s_n is not None:
                            ok = k * tgt <= s_el * s_n
                ctx.ob(rule, f"rawparts|{fn}", ok, f"{fn}: from_raw_parts view must stay inside its source: {det}; requested bytes = length x target size must not exceed len(source) x element size", b.file, b.line, sample=(n_sites == 1))
            elif callee in FFI_OK:
                ok, det = True, FFI_OK[callee]
                if callee.endswith("::crc32"):
                    if paths is None:
                        paths = Explorer(b).explore()
                    ev = [(args) for p in paths for (bb, c, args, _r) in p.events if bb == bi]
                    ok = False
                    if ev and len(ev[0]) == 3:
                        src = _src_of_ptr(ev[0][1])
                        coef = _bytes_coef(ev[0][2])
                        ok = src is not None and coef is not None and coef[0] == 1 and coef[1] is not None and _same(coef[1], src)
                        det = f"crc32(_, {show(ev[0][1])[:40]}, {show(ev[0][2])[:40]}): pointer and length must name the same slice"
                ctx.ob(rule, f"ffi|{fn}|{short}", ok, f"{fn}: {callee}: {det}", b.file, b.line, trivial=not callee.endswith("::crc32"))
            else:
                ctx.ob(rule, f"unlisted|{fn}|{short}", False, f"{fn} calls the unsafe function {callee}, which is not among the unsafe operations confirmed by reading (from_raw_parts over a slice's own bytes, the libz calls)", b.file, b.line)
        for bi, pl in derefs:
            n_sites += 1
            inventory.append(f"{fn}: raw dereference of {b.locals[pl['l']].get('ty')}")
            pty = str(b.locals[pl["l"]].get("ty", ""))
            al = _array_len(pty.replace("*const", "").replace("*mut", ""))
            ix = index_of(b)
            ok, det = False, f"pointer type {pty}"
            if al:
                d = derive(ix, {"c": {"l": pl["l"], "p": [], "ty": pty}})
                from_slice = any(c.split("::")[-1] in ("as_ptr", "as_mut_ptr") for c in d.calls)
                guard = None
                for gb, gblk in enumerate(b.blocks):
                    gt = gblk["t"]
                    if gt["k"] != "switch" or not b.dominates(gb, bi) or gb == bi:
                        continue
                    r = ix.resolve(gt["a"])
                    if r[0] == "rv" and r[1]["k"] == "bin" and r[1]["op"] == "Eq":
                        dd = derive(ix, gt["a"])
                        has_len = any(c.endswith("::len") for c in dd.calls)
                        consts = set(getattr(dd, "consts", set()) or set())
                        # promoted `&64`: look for the constant's bytes among the operands' definitions
                        raw = repr([s_ for _b, _s, s_ in b.stmts() if s_.get("k") == "assign"])
                        n_le = al[1].to_bytes(8, "little").hex()
                        if has_len and (al[1] in consts or n_le in raw):
                            # the equal side must lead to the dereference, the unequal side must not
                            zero_t = [int(tg) for v_, tg in gt["arms"] if int(v_) == 0]
                            eq_side = gt["else"]
                            if zero_t and not b.dominates(zero_t[0], bi) and (b.dominates(eq_side, bi) or eq_side == bi):
                                guard = gb
                ok = from_slice and guard is not None
                det = f"pointer type {pty}; derived from a slice's as_ptr(): {from_slice}; dominated by a `len == {al[1]}` test: {guard is not None}"
            ctx.ob(rule, f"deref|{fn}", ok, f"{fn}: raw pointer dereference: {det}; the cast to a fixed-size array is only sound behind a check that the slice has exactly that length", b.file, b.line)
    ctx.extra["unsafe_operations_reachable"] = inventory
    return n_sites
