"""PANIC rule family: crash constructs reachable from untrusted-input entry points (C17, C18).

scan(prog, entry_defs) -> list of Site for every panic-capable construct in local, user-written code that is
reachable in the monomorphic call graph from the entry points, each with the discharge (if any) that the analysis
could establish.  Sites inside derive/attribute expansions are attributed to binrw/bitflags (trusted base) and
are not reported; user expressions written inside attributes keep their own spans and are ordinary sites.
"""
import re
from collections import defaultdict

from .mir import const_int, is_user_span, op_place

UNWRAP_RE = re.compile(r"(option::Option|result::Result)::<.*>::(unwrap|expect|unwrap_err|expect_err|unwrap_unchecked)$")
PANIC_RE = re.compile(r"(^|::)(panicking::(panic|panic_fmt|panic_explicit|panic_display|assert_failed|assert_failed_inner|unreachable_display|panic_nounwind|panic_str_2015|panic_bounds_check)|rt::begin_panic|rt::panic_fmt|option::unwrap_failed|option::expect_failed|result::unwrap_failed|process::abort|process::exit|intrinsics::abort)$")
SLICE_PRE = {
    "copy_from_slice": "lengths must match",
    "clone_from_slice": "lengths must match",
    "split_at": "mid <= len",
    "split_at_mut": "mid <= len",
    "remove": "index < len",
    "insert": "index <= len",
    "swap_remove": "index < len",
    "drain": "range within len",
    "split_off": "at <= len",
    "swap": "indices < len",
    "chunks": "chunk size != 0",
    "chunks_exact": "chunk size != 0",
    "chunks_mut": "chunk size != 0",
    "windows": "size != 0",
    "step_by": "step != 0",
    "borrow": "not mutably borrowed",
    "borrow_mut": "not borrowed",
    "copy_within": "range within len",
    "rotate_left": "mid <= len",
    "rotate_right": "k <= len",
    "from_digit": "radix <= 36",
    "split_first_chunk": None,
}
STRING_PRE = {"truncate": "new_len on a char boundary", "insert_str": "idx on a char boundary", "replace_range": "range on char boundaries"}
SLICE_PRE_OWNERS = ("slice::<impl [T]>", "vec::Vec::<T, A>", "vec::Vec::<T>", "string::String", "str::<impl str>", "cell::RefCell::<T>", "iter::Iterator", "iter::traits::iterator::Iterator", "collections::VecDeque", "char::methods::<impl char>")
ALLOC_FNS = {"from_elem": 1, "with_capacity": 0, "with_capacity_in": 0, "reserve": 1, "reserve_exact": 1, "resize": 1, "resize_with": 1, "repeat": 1}
LEAK_RE = re.compile(r"(mem::forget|boxed::Box::<.*>::leak|mem::ManuallyDrop::<.*>::new|::into_raw|::into_raw_parts)$")


class Site:
    __slots__ = ("kind", "fn", "file", "line", "detail", "bb", "discharge", "key", "operands", "macros", "old_key", "kfn")

    def __init__(self, kind, fn, sp, detail, bb, operands=None):
        self.kind = kind
        self.fn = fn
        at = sp.get("at", "?:0:0")
        parts = at.rsplit(":", 2)
        self.file = parts[0]
        try:
            self.line = int(parts[1])
        except Exception:
            self.line = 0
        self.macros = [m for m in sp.get("mx", [])]
        self.detail = detail
        self.bb = bb
        self.discharge = None
        self.operands = operands or []
        # sites inside closures are attributed to the function that owns the closure: a loop body turned into an
        # iterator closure (or back) keeps its key
        self.kfn = fn.split("::{closure")[0]
        self.key = f"{kind}|{self.kfn}|{detail}"

    def __repr__(self):
        return f"<{self.kind} {self.fn} {self.file}:{self.line} {self.detail} {self.discharge or ''}>"


def short_callee(c):
    c = re.sub(r"^(core|alloc|std)::", "", c)
    return c


def classify_call(t):
    """(kind, detail) for a call terminator or None."""
    res = t.get("res") or (t["f"].get("k") or {}).get("fn") or ""
    decl = (t["f"].get("k") or {}).get("fn") or res
    if t.get("resl"):
        return None
    if UNWRAP_RE.search(res):
        m = UNWRAP_RE.search(res)
        # type of the unwrapped value gives the key its type-level detail
        arg_ty = ""
        if t["args"]:
            p = op_place(t["args"][0])
            if p:
                arg_ty = p["ty"]
            elif "k" in t["args"][0]:
                arg_ty = t["args"][0]["k"].get("ty", "")
        return "unwrap", f"{m.group(2)} {arg_ty}"
    if PANIC_RE.search(res):
        return "panic", short_callee(res).split("::")[-1]
    if decl.endswith("ops::Index::index") or decl.endswith("ops::IndexMut::index_mut") or decl.endswith("ops::index::Index::index") or decl.endswith("ops::index::IndexMut::index_mut"):
        ga = (t["f"].get("k") or {}).get("ga", [])
        return "index", " ".join(ga[:2]) if ga else short_callee(res)
    last = res.split("::")[-1]
    if last in SLICE_PRE and any(o in res for o in SLICE_PRE_OWNERS):
        return "slice-pre", short_callee(res)
    if last in STRING_PRE and "string::String" in res:
        # byte positions in a String must lie on a char boundary (and inside it): `truncate(20)` on text read from a file
        return "slice-pre", short_callee(res)
    if last in ALLOC_FNS and ("vec::" in res or "string::String" in res or "slice::" in res or "str::" in res or "collections::" in res):
        return "alloc", short_callee(res)
    if LEAK_RE.search(res):
        return "leak", short_callee(res)
    return None


def scan_body(body):
    """All panic-capable sites of one body (user spans only)."""
    sites = []
    for bi, blk in enumerate(body.blocks):
        if blk["cleanup"]:
            continue
        t = blk["t"]
        k = t["k"]
        if k == "call":
            if not is_user_span(t["sp"]):
                continue
            c = classify_call(t)
            if c:
                sites.append(Site(c[0], body.name, t["sp"], c[1], bi, t["args"]))
        elif k == "assert":
            if not is_user_span(t["sp"]):
                continue
            msg = t["msg"]
            if msg == "BoundsCheck":
                idx_ty = ""
                sites.append(Site("bounds", body.name, t["sp"], "BoundsCheck" + idx_ty, bi, t["mops"]))
            elif msg.startswith("Overflow:"):
                op = msg.split(":")[1]
                if op in ("Add", "Mul"):
                    sites.append(Site("arith-addmul", body.name, t["sp"], op, bi, t["mops"]))
                else:
                    sites.append(Site("arith", body.name, t["sp"], op, bi, t["mops"]))
            elif msg in ("OverflowNeg", "DivisionByZero", "RemainderByZero"):
                sites.append(Site("arith", body.name, t["sp"], msg, bi, t["mops"]))
            else:
                sites.append(Site("assert-other", body.name, t["sp"], msg, bi, t["mops"]))
    return sites


def local_sccs(prog, reach_ids):
    """Recursion: SCCs (size>1 or self loop) among reachable local instances, by def."""
    g = defaultdict(set)
    for n in reach_ids:
        inst = prog.instances[n]
        if not inst["local"]:
            continue
        for _bb, c, _k in inst["calls"]:
            ci = prog.instances[c]
            if ci["local"] and c in reach_ids:
                g[inst["def"]].add(ci["def"])
    # via external generic instances (e.g. Iterator::map(closure) -> closure): collapse external hops
    ext_reach = {}

    def ext_targets(n, seen):
        out = set()
        inst = prog.instances[n]
        for _bb, c, _k in inst["calls"]:
            if c in seen:
                continue
            seen.add(c)
            ci = prog.instances[c]
            if ci["local"]:
                out.add(ci["def"])
            else:
                out |= ext_targets(c, seen)
        return out

    for n in reach_ids:
        inst = prog.instances[n]
        if inst["local"]:
            for _bb, c, _k in inst["calls"]:
                ci = prog.instances[c]
                if not ci["local"]:
                    if c not in ext_reach:
                        ext_reach[c] = ext_targets(c, {c})
                    g[inst["def"]] |= ext_reach[c]
    # Tarjan
    index = {}
    low = {}
    onst = set()
    st = []
    out = []
    counter = [0]
    import sys

    sys.setrecursionlimit(10000)

    def sc(v):
        index[v] = low[v] = counter[0]
        counter[0] += 1
        st.append(v)
        onst.add(v)
        for w in g.get(v, ()):
            if w not in index:
                sc(w)
                low[v] = min(low[v], low[w])
            elif w in onst:
                low[v] = min(low[v], index[w])
        if low[v] == index[v]:
            comp = []
            while True:
                w = st.pop()
                onst.discard(w)
                comp.append(w)
                if w == v:
                    break
            if len(comp) > 1 or v in g.get(v, ()):
                out.append(sorted(comp))

    for v in list(g):
        if v not in index:
            sc(v)
    return out


def scan(prog, entry_defs):
    reach, parent = prog.reach(entry_defs)
    defs = {}
    for n in reach:
        inst = prog.instances[n]
        if inst["local"] and inst["kind"] == "item" and inst["def"] in prog.bodies:
            defs.setdefault(inst["def"], n)
    # bodies are analysed in their inlined form (pv.inline): a helper that is inlined at every call site is not
    # scanned on its own - its sites are attributed to the functions that call it
    prog.body(next(iter(defs))) if defs else None
    inl = getattr(prog, "_inliner", None)
    scan_set = {d for d in defs if inl is None or not (inl.inlinable(d) or inl.closure_fully_inlined(d))} | {d for d in entry_defs if d in defs}
    work = list(scan_set)
    while work:
        d = work.pop()
        for _bi, t in prog.body(d).calls():
            c = t.get("res")
            if c and t.get("resl") and c in defs and c not in scan_set:
                scan_set.add(c)
                work.append(c)
    sites = []
    for d, n in sorted(defs.items()):
        if d not in scan_set:
            continue
        b = prog.body(d)
        for s in scan_body(b):
            sites.append((s, n))
    return sites, reach, parent, defs


# ------------------------------------------------------------------------------------------------
# Discharges D1..D9: idioms under which a site cannot fire.  Each returns a short reason or None.

# analysis context set by analyse(): the program (ADT sizes) and binrw `count` facts {(adt, vec_field): count_expr}
ACTX = {"prog": None, "counts": {}}

INT_BITS = {"u8": 8, "i8": 8, "u16": 16, "i16": 16, "u32": 32, "i32": 32, "u64": 64, "i64": 64, "u128": 128, "i128": 128, "usize": 64, "isize": 64}


class BodyIndex:
    """Def-use helpers for one body (flow-insensitive; temporaries have one definition)."""

    def __init__(self, body):
        self.body = body
        self.defs = body.defs()

    def single_def(self, local):
        d = self.defs.get(local, [])
        whole = [x for x in d if (x[0] == "call" and not x[3]["dest"]["p"]) or (x[0] == "assign" and not x[3]["lhs"]["p"])]
        if len(d) == 1 and len(whole) == 1:
            return whole[0]
        return None

    def resolve(self, op, depth=0):
        """Follow copies/moves/casts of an operand back to its defining rvalue/call.
        Returns ('const', value) | ('rv', rvalue, bb) | ('call', term, bb) | ('local', n) | ('place', place)."""
        if depth > 12:
            return ("unknown",)
        v = const_int(op)
        if v is not None:
            return ("const", v)
        p = op_place(op)
        if p is None:
            return ("unknown",)
        if p["p"]:
            if len(p["p"]) == 1 and isinstance(p["p"][0], dict) and "f" in p["p"][0] and "n" not in p["p"][0]:
                # field k of a tuple built in one piece (closure-call argument packs after inlining)
                dt = self.single_def(p["l"])
                if dt and dt[0] == "assign" and dt[3]["rv"]["k"] == "agg" and dt[3]["rv"].get("ak") == "tuple" and p["p"][0]["f"] < len(dt[3]["rv"]["ops"]):
                    return self.resolve(dt[3]["rv"]["ops"][p["p"][0]["f"]], depth + 1)
            if len(p["p"]) == 1 and isinstance(p["p"][0], dict) and p["p"][0].get("f") == 0:
                d0 = self.single_def(p["l"])
                if d0 and d0[0] == "assign" and d0[3]["rv"]["k"] == "bin" and d0[3]["rv"]["op"].endswith("WithOverflow"):
                    v = self._fold(d0[3]["rv"], depth)
                    if v is not None:
                        return ("const", v)
            return ("place", p)
        l = p["l"]
        if 1 <= l <= self.body.argc:
            return ("param", l)
        d = self.single_def(l)
        if d is None:
            return ("local", l)
        if d[0] == "call":
            return ("call", d[3], d[1])
        rv = d[3]["rv"]
        if rv["k"] == "use":
            return self.resolve(rv["a"], depth + 1)
        if rv["k"] == "cast" and rv["ck"] in ("IntToInt",):
            inner = self.resolve(rv["a"], depth + 1)
            if inner[0] == "const":
                return inner
            return ("cast", rv, d[1], inner)
        if rv["k"] == "bin":
            v = self._fold(rv, depth)
            if v is not None:
                return ("const", v)
        if rv["k"] == "un" and rv["op"] == "Neg":
            inner = self.resolve(rv["a"], depth + 1)
            if inner[0] == "const" and abs(inner[1]) < (1 << 31):
                return ("const", -inner[1])
        return ("rv", rv, d[1])

    def _fold(self, rv, depth):
        """Value of Add/Sub/Mul on two operands that resolve to non-negative constants (no wrap below 2^64)."""
        op_ = rv["op"].replace("WithOverflow", "").replace("Unchecked", "")
        if op_ not in ("Add", "Sub", "Mul", "Shl", "Shr"):
            return None
        a, b = self.resolve(rv["a"], depth + 1), self.resolve(rv["b"], depth + 1)
        if a[0] != "const" or b[0] != "const" or a[1] < 0 or b[1] < 0:
            return None
        if op_ in ("Shl", "Shr"):
            if b[1] >= 31:
                return None
            v = a[1] << b[1] if op_ == "Shl" else a[1] >> b[1]
        else:
            v = a[1] + b[1] if op_ == "Add" else a[1] * b[1] if op_ == "Mul" else a[1] - b[1]
        return v if 0 <= v < (1 << 31) else None

    def callee(self, t):
        return t.get("res") or (t["f"].get("k") or {}).get("fn") or ""


PRIM_SIZE = {"u8": 1, "i8": 1, "bool": 1, "u16": 2, "i16": 2, "u32": 4, "i32": 4, "f32": 4, "u64": 8, "i64": 8, "f64": 8, "u128": 16, "i128": 16, "usize": 8, "isize": 8, "char": 4}


def type_size(ty):
    """Size in bytes of a primitive or local ADT type (compiler layout facts), or None."""
    if ty in PRIM_SIZE:
        return PRIM_SIZE[ty]
    prog = ACTX.get("prog")
    a = prog.adts.get(ty) if prog is not None else None
    if a and a.get("size"):
        return int(a["size"])
    return None


def const_slice_len(ix, op, depth=0):
    """Constant length of the slice an operand refers to: an unsized array reference, or a constant sub-range."""
    if depth > 8:
        return None
    p = op_place(op)
    if p is None or p["p"]:
        return None
    d = ix.single_def(p["l"])
    if not d:
        return None
    if d[0] == "assign":
        rv = d[3]["rv"]
        if rv["k"] == "cast" and rv["ck"].startswith("PointerCoercion"):
            m = re.match(r"^&(mut )?\[[^;\]]+; (\d+)\]$", rv.get("from", ""))
            return int(m.group(2)) if m else None
        if rv["k"] == "use":
            return const_slice_len(ix, rv["a"], depth + 1)
        if rv["k"] == "ref" and rv["p"]["p"] == ["*"]:
            return const_slice_len(ix, {"c": {"l": rv["p"]["l"], "p": [], "ty": ""}}, depth + 1)
        return None
    c = ix.callee(d[3])
    if (c.endswith("::index") or c.endswith("::index_mut")) and len(d[3]["args"]) == 2:
        rg = ix.resolve(d[3]["args"][1])
        if rg[0] == "rv" and rg[1]["k"] == "agg":
            adt = rg[1].get("adt", "")
            o = [ix.resolve(x) for x in rg[1]["ops"]]
            if adt.endswith("ops::Range") and len(o) == 2 and o[0][0] == "const" and o[1][0] == "const" and o[1][1] >= o[0][1]:
                return o[1][1] - o[0][1]
            if adt.endswith("ops::RangeTo") and len(o) == 1 and o[0][0] == "const":
                return o[0][1]
    return None


def widening_leaf(ix, op, depth=0, signed_ok=False):
    """Canonical key of an operand that is a place / constant seen through copies and value-preserving (unsigned
    widening) casts only; None otherwise.  Two operands with the same key hold the same integer value."""
    if depth > 8:
        return None
    v = const_int(op)
    if v is not None:
        return ("c", v)
    p = op_place(op)
    if p is None:
        return None
    if p["p"]:
        return ("pl", place_desc(ix, op))
    l = p["l"]
    if 1 <= l <= ix.body.argc:
        return ("pl", f"arg{l}")
    d = ix.single_def(l)
    if d is None or d[0] == "call":
        return ("pl", f"_{l}")
    rv = d[3]["rv"]
    if rv["k"] == "use":
        return widening_leaf(ix, rv["a"], depth + 1, signed_ok)
    if rv["k"] == "cast" and rv["ck"] == "IntToInt":
        fb, tb = INT_BITS.get(rv.get("from")), INT_BITS.get(rv.get("to"))
        if fb and tb and rv["from"].startswith("u") and (tb > fb or (tb == fb and rv["to"].startswith("u"))):
            return widening_leaf(ix, rv["a"], depth + 1, signed_ok)
        if fb and tb and signed_ok and tb >= fb:
            # value known to be non-negative by the caller (member of a range starting at a constant >= 0)
            return widening_leaf(ix, rv["a"], depth + 1, signed_ok)
        return None
    return ("pl", f"_{l}")


def loop_var(ix, op, depth=0):
    """range_loop_var seen through value-preserving casts of the induction variable (signed casts are value
    preserving when the range starts at a constant >= 0: every value of the variable is then non-negative)."""
    rl = range_loop_var(ix, op)
    if rl or depth > 4:
        return rl
    p = op_place(op)
    if p is None or p["p"]:
        return None
    d = ix.single_def(p["l"])
    if d and d[0] == "assign":
        rv = d[3]["rv"]
        if rv["k"] == "use":
            q = op_place(rv["a"])
            if q is not None and len(q["p"]) == 1 and isinstance(q["p"][0], dict) and "f" in q["p"][0] and "n" not in q["p"][0]:
                # element of an argument tuple (inlined closure call)
                dt = ix.single_def(q["l"])
                if dt and dt[0] == "assign" and dt[3]["rv"]["k"] == "agg" and dt[3]["rv"].get("ak") == "tuple" and q["p"][0]["f"] < len(dt[3]["rv"]["ops"]):
                    return loop_var(ix, dt[3]["rv"]["ops"][q["p"][0]["f"]], depth + 1)
            return loop_var(ix, rv["a"], depth + 1)
        if rv["k"] == "cast" and rv["ck"] == "IntToInt":
            fb, tb = INT_BITS.get(rv.get("from")), INT_BITS.get(rv.get("to"))
            if fb and tb and tb >= fb:
                rl = loop_var(ix, rv["a"], depth + 1)
                if rl and (rv["from"].startswith("u") or ((const_int(rl[0]) or -1) >= 0 or const_int(rl[0]) == 0)):
                    return rl
    return None


LEN_KEEPING = ("::into_iter", "::index_mut", "::index", "::deref_mut", "::deref", "::iter_mut", "::iter", "::as_mut_slice", "::as_slice", "::len", "::is_empty", "::fill", "::copy_from_slice", "::clone_from_slice", "::get_mut", "::get", "::swap", "::sort", "::sort_by", "::sort_by_key", "::reverse", "::first", "::last", "::contains", "::to_vec", "::clone")


def place_prefix_touched(ix, local, proj_names, allow_calls=LEN_KEEPING):
    """Flow-insensitive: is the place `local.proj...` (or a prefix of it) ever re-assigned, or mutably borrowed and
    handed to anything but a length-preserving method?  proj_names: list of field names ([] = the whole local)."""
    body = ix.body

    def names(pl):
        return [pr.get("n", pr.get("f")) for pr in pl["p"] if isinstance(pr, dict) and "f" in pr]

    def covers(pl):
        # pl is a prefix of (or equal to / extends) the tracked place
        if pl["l"] != local:
            return False
        if any(pr == "*" for pr in pl["p"]):
            return False
        n = names(pl)
        k = min(len(n), len(proj_names))
        return n[:k] == proj_names[:k]

    ndefs = 0
    for bi, si, st in body.stmts():
        if st["k"] != "assign":
            continue
        lhs = st["lhs"]
        if covers(lhs):
            if not lhs["p"]:
                ndefs += 1
                if ndefs > 1:
                    return True
            else:
                return True
        rv = st["rv"]
        if rv["k"] in ("ref", "rawptr") and rv.get("mut") in (True, "Mut") and covers(rv["p"]):
            tmp = lhs["l"]
            if lhs["p"]:
                return True
            used = False
            for bj, t in body.calls():
                for a in t["args"]:
                    q = op_place(a)
                    if q and q["l"] == tmp:
                        used = True
                        if not any(ix.callee(t).endswith(x) for x in allow_calls):
                            return True
            for bj, sj, s2 in body.stmts():
                if s2["k"] != "assign" or s2 is st:
                    continue
                r2 = s2["rv"]
                cand = []
                if r2["k"] in ("use", "cast", "un", "repeat"):
                    cand = [r2["a"]]
                elif r2["k"] == "bin":
                    cand = [r2["a"], r2["b"]]
                elif r2["k"] == "agg":
                    cand = r2["ops"]
                elif r2["k"] in ("ref", "rawptr"):
                    if r2["p"]["l"] == tmp:
                        return True
                for a in cand:
                    q = op_place(a)
                    if q and q["l"] == tmp:
                        return True
    for bj, t in body.calls():
        d = t.get("dest")
        if d and covers(d):
            if not d["p"]:
                ndefs += 1
                if ndefs > 1:
                    return True
            else:
                return True
    return False


PARSE_PASS = ("Try>::branch", "::ok", "::unwrap", "::expect", "::ok_or", "::map_err", "::unwrap_or_default")


def parsed_by_binrw(ix, local, depth=0):
    """Is the local the (unwrapped) result of a binrw read call?"""
    if depth > 8:
        return False
    d = ix.single_def(local)
    if not d:
        return False
    if d[0] == "assign":
        rv = d[3]["rv"]
        if rv["k"] == "use":
            q = op_place(rv["a"])
            if q is None or any(pr == "*" for pr in q["p"]):
                return False
            return parsed_by_binrw(ix, q["l"], depth + 1)
        return False
    t = d[3]
    c = ix.callee(t)
    if "binrw::BinRead" in c or "binrw::BinReaderExt" in c:
        return True
    if any(c.endswith(x) for x in PARSE_PASS) and t["args"]:
        q = op_place(t["args"][0])
        if q is None or q["p"]:
            return False
        return parsed_by_binrw(ix, q["l"], depth + 1)
    return False


def field_place(ix, op):
    """(base_local, [field names], adt_of_last_field) of the container place an operand refers to (through refs and
    copies), or None."""
    p = op_place(op)
    depth = 0
    while p is not None and depth < 8:
        depth += 1
        if p["p"]:
            fl = [pr for pr in p["p"] if isinstance(pr, dict) and "f" in pr]
            if len(fl) != len(p["p"]) or not fl or "n" not in fl[-1]:
                return None
            return p["l"], [pr.get("n", pr["f"]) for pr in fl], fl[-1].get("a")
        d = ix.single_def(p["l"])
        if not d or d[0] != "assign":
            return None
        rv = d[3]["rv"]
        if rv["k"] == "ref":
            p = rv["p"]
        elif rv["k"] == "use":
            p = op_place(rv["a"])
        else:
            return None
    return None


def binrw_count_discharge(ix, cont, idx):
    """D7: `v.field[i]` where `field: Vec<_>` is declared `#[br(count = N)]` (N literal or sibling field) on a value
    freshly parsed by binrw and not modified since."""
    fp = field_place(ix, cont)
    if not fp:
        return None
    base, names, adt = fp
    fact = ACTX["counts"].get((adt, names[-1]))
    if not fact:
        return None
    if not parsed_by_binrw(ix, base):
        return None
    if place_prefix_touched(ix, base, names):
        return None
    return _count_index(ix, base, names, fact, idx, "a freshly parsed, unmodified value")


def adt_only_parsed(adt, fields):
    """Whole-crate fact: values of `adt` are only ever built by derive-generated (binrw) code, and no user code assigns
    or mutably borrows the given fields of any such value."""
    prog = ACTX.get("prog")
    key = (adt, tuple(sorted(fields)))
    memo = ACTX.setdefault("only_parsed", {})
    if key in memo:
        return memo[key]
    ok = prog is not None
    if ok:
        for name, b in prog.raw_bodies.items():
            for bi, si, st in b.stmts():
                if st["k"] != "assign":
                    continue
                rv = st["rv"]
                user = is_user_span(st["sp"])
                if rv["k"] == "agg" and rv.get("ak") == "adt" and rv.get("adt") == adt and user:
                    ok = False
                for pl, is_write in ((st["lhs"], True), (rv.get("p") if rv["k"] in ("ref", "rawptr") and rv.get("mut") in (True, "Mut") else None, True)):
                    if pl is None:
                        continue
                    for pr in pl["p"]:
                        if isinstance(pr, dict) and pr.get("a") == adt and pr.get("n") in fields and user:
                            ok = False
            if not ok:
                break
    memo[key] = ok
    return ok


def binrw_count_shared(ix, cont, idx):
    """D7 for a value behind a shared reference (`&T` parameter or a reference obtained from one): `t.field[i]` with
    `field` declared `#[br(count = sibling)]`, `i` ranging over `0..t.sibling`, where values of T are only ever produced
    by the binrw reader and the two fields are never written by user code anywhere in the crate."""
    p = op_place(cont)
    for _ in range(6):
        if p is None:
            return None
        if p["p"]:
            break
        d = ix.single_def(p["l"])
        if not d or d[0] != "assign":
            return None
        rv = d[3]["rv"]
        p = rv["p"] if rv["k"] == "ref" else op_place(rv["a"]) if rv["k"] == "use" else None
    if p is None or not p["p"] or p["p"][0] != "*":
        return None
    fl = p["p"][1:]
    if len(fl) != 1 or not isinstance(fl[0], dict) or "n" not in fl[0]:
        return None
    ty = ix.body.j["locals"][p["l"]]["ty"]
    if not ty.startswith("&") or ty.startswith("&mut"):
        return None
    adt, vecf = fl[0].get("a"), fl[0]["n"]
    fact = ACTX["counts"].get((adt, vecf))
    if not fact or fact[0] != "field":
        return None
    rl = loop_var(ix, idx)
    if not rl:
        return None
    hk = widening_leaf(ix, rl[1])
    want = ("pl", place_desc(ix, {"c": {"l": p["l"], "p": ["*", {"f": 0, "n": fact[1]}], "ty": ""}}))
    if hk != want:
        return None
    if not adt_only_parsed(adt, [vecf, fact[1]]):
        return None
    return f"D7 induction variable bounded by `{fact[1]}`, the binrw `count` of this Vec, on a shared reference to a {adt} (only built by its reader, fields never written)"


def _count_index(ix, base, names, fact, idx, what):
    r = ix.resolve(idx)
    if fact[0] == "const":
        if r[0] == "const" and 0 <= r[1] < fact[1]:
            return f"D7 constant index below the binrw `count = {fact[1]}` of {what}"
        rl = loop_var(ix, idx)
        if rl:
            lo, hi = ix.resolve(rl[0]), ix.resolve(rl[1])
            if hi[0] == "const" and hi[1] <= fact[1]:
                return f"D7 induction variable of a constant range within the binrw `count = {fact[1]}`"
        return None
    if fact[0] == "field":
        rl = loop_var(ix, idx)
        if not rl:
            return None
        hk = widening_leaf(ix, rl[1])
        want = ("pl", place_desc(ix, {"c": {"l": base, "p": [{"f": 0, "n": n} for n in names[:-1] + [fact[1]]], "ty": ""}}))
        if hk == want and not place_prefix_touched(ix, base, names[:-1] + [fact[1]]):
            return f"D7 induction variable bounded by the sibling field `{fact[1]}` that is the binrw `count` of this Vec (freshly parsed, unmodified)"
    return None


def stable_value(ix, op, depth=0):
    """Is the operand read from storage that is written once (single-definition locals, fields of values that are never
    re-assigned or mutably borrowed, shared-reference parameters)?  Two reads of such an operand see the same value."""
    if depth > 10:
        return False
    if const_int(op) is not None:
        return True
    p = op_place(op)
    if p is None:
        return False
    names = []
    for pr in p["p"]:
        if pr == "*":
            ty = ix.body.j["locals"][p["l"]]["ty"]
            if not ty.startswith("&") or ty.startswith("&mut"):
                return False
            continue
        if isinstance(pr, dict) and "f" in pr:
            names.append(pr.get("n", pr["f"]))
        elif isinstance(pr, dict) and "d" in pr:
            continue
        else:
            return False
    l = p["l"]
    if place_prefix_touched(ix, l, names if "*" not in p["p"] else []):
        return False
    if 1 <= l <= ix.body.argc:
        return True
    d = ix.single_def(l)
    if d is None:
        return False
    if d[0] == "call":
        return True
    rv = d[3]["rv"]
    if rv["k"] in ("use", "cast"):
        return stable_value(ix, rv["a"], depth + 1)
    if rv["k"] == "ref":
        return stable_value(ix, {"c": rv["p"]}, depth + 1)
    return True


def from_elem_discharge(ix, s, cont, idx):
    """D3: `v[i]` where `v = vec![x; n]` (never resized) and `i` ranges over `0..n`."""
    p = op_place(cont)
    # the container operand is `&v` / `&mut v` of a plain local
    cur = p
    L = None
    for _ in range(4):
        if cur is None or cur["p"]:
            return None
        d = ix.single_def(cur["l"])
        if d and d[0] == "assign" and d[3]["rv"]["k"] in ("ref",) and not d[3]["rv"]["p"]["p"]:
            L = d[3]["rv"]["p"]["l"]
            break
        if d and d[0] == "assign" and d[3]["rv"]["k"] == "use":
            cur = op_place(d[3]["rv"]["a"])
            continue
        return None
    if L is None:
        return None
    dv = ix.single_def(L)
    if not dv or dv[0] != "call" or not ix.callee(dv[3]).endswith("vec::from_elem"):
        return None
    if not ix.body.dominates(dv[1], s.bb):
        return None
    rl = loop_var(ix, idx)
    if not rl:
        return None
    nonneg = const_int(rl[0]) is not None and const_int(rl[0]) >= 0
    n_key = widening_leaf(ix, dv[3]["args"][1], signed_ok=nonneg)
    h_key = widening_leaf(ix, rl[1], signed_ok=nonneg)
    if n_key is None or n_key != h_key:
        return None
    if not stable_value(ix, dv[3]["args"][1]) or not stable_value(ix, rl[1]):
        return None
    if place_prefix_touched(ix, L, []):
        return None
    return "D3 induction variable of 0..n indexing vec![_; n] that is never resized"



def len_bounded(ix, op, depth=0):
    """Is the operand at most len() of some existing data: len(), or such a value reduced by -, /, >>, min, or a cast?"""
    if depth > 8:
        return False
    if len_of(ix, op):
        return True
    r = ix.resolve(op)
    if r[0] == "cast":
        return len_bounded(ix, r[1]["a"], depth + 1)
    if r[0] == "call":
        c = ix.callee(r[1])
        if c.endswith("cmp::min") or c.endswith("::min"):
            return any(len_bounded(ix, a, depth + 1) for a in r[1]["args"])
        if c.endswith("::checked_sub") or c.endswith("::saturating_sub") or c.endswith("::wrapping_div") or c.endswith("::checked_div"):
            return len_bounded(ix, r[1]["args"][0], depth + 1)
        if any(c.endswith(x) for x in ("::unwrap", "::unwrap_or", "::unwrap_or_default", "::expect", "Try>::branch", "::ok_or", "::ok")):
            return len_bounded(ix, r[1]["args"][0], depth + 1)
        return False
    if r[0] == "rv" and r[1]["k"] == "bin" and r[1]["op"].replace("WithOverflow", "") in ("Sub", "Div", "Shr", "Rem", "BitAnd"):
        return len_bounded(ix, r[1]["a"], depth + 1)
    if r[0] == "place":
        pl = r[1]
        # (checked op).0  /  (Option as Some).0 / (ControlFlow as Continue).0
        d = ix.single_def(pl["l"])
        if d and d[0] == "assign" and d[3]["rv"]["k"] == "bin" and d[3]["rv"]["op"] in ("SubWithOverflow",):
            return len_bounded(ix, d[3]["rv"]["a"], depth + 1)
        if d and d[0] == "call" and any(isinstance(pr, dict) and pr.get("n") in ("Some", "Ok", "Continue") for pr in pl["p"]):
            return len_bounded(ix, {"c": {"l": pl["l"], "p": [], "ty": ""}}, depth + 1)
    return False


def len_upper_of(ix, op, depth=0):
    """Containers whose len() bounds the operand from above: len(c), or such a value reduced by -, /, >>, %, &, min or a
    cast (the subtraction panics instead of wrapping in the analysed build).  Returns a set of place descriptions."""
    if depth > 8:
        return set()
    lo = len_of(ix, op)
    if lo:
        return {lo}
    r = ix.resolve(op)
    if r[0] == "cast":
        return len_upper_of(ix, r[1]["a"], depth + 1)
    if r[0] == "call":
        c = ix.callee(r[1])
        if c.endswith("cmp::min") or c.endswith("::min"):
            out = set()
            for a in r[1]["args"]:
                out |= len_upper_of(ix, a, depth + 1)
            return out
        if any(c.endswith(x) for x in ("::checked_sub", "::saturating_sub", "::wrapping_div", "::checked_div", "::unwrap", "::unwrap_or_default", "::expect", "Try>::branch", "::ok")):
            return len_upper_of(ix, r[1]["args"][0], depth + 1)
        return set()
    if r[0] == "rv" and r[1]["k"] == "bin" and r[1]["op"].replace("WithOverflow", "") in ("Sub", "Div", "Shr", "Rem", "BitAnd"):
        return len_upper_of(ix, r[1]["a"], depth + 1)
    if r[0] == "place":
        pl = r[1]
        d = ix.single_def(pl["l"])
        if d and d[0] == "assign" and d[3]["rv"]["k"] == "bin" and d[3]["rv"]["op"] in ("SubWithOverflow",):
            return len_upper_of(ix, d[3]["rv"]["a"], depth + 1)
        if d and d[0] == "call" and any(isinstance(pr, dict) and pr.get("n") in ("Some", "Ok", "Continue") for pr in pl["p"]):
            return len_upper_of(ix, {"c": {"l": pl["l"], "p": [], "ty": ""}}, depth + 1)
    return set()


ALLOC_CAP = 4 << 20  # a fixed few MiB regardless of input is not "out of proportion"


def alloc_count_bound(ix, op, depth=0):
    """Strict upper bound of an allocation count that is a (converted) 8/16-bit unsigned value."""
    if depth > 6:
        return None
    ub = upper_bound(ix, op)
    if ub is not None:
        return ub
    r = ix.resolve(op)
    if r[0] == "call" and ix.callee(r[1]).endswith("::into") and r[1]["args"]:
        ga = (r[1]["f"].get("k") or {}).get("ga", [])
        if ga and ga[0] in ("u8", "u16"):
            return 1 << INT_BITS[ga[0]]
        return alloc_count_bound(ix, r[1]["args"][0], depth + 1)
    return None


def const_array_len(ix, op):
    """N when the operand is `arr.len()` of a fixed-size array `[T; N]` (the slice handed to len() is an unsize
    coercion of a reference to the array), else None."""
    r = ix.resolve(op)
    if r[0] == "cast":
        return const_array_len(ix, r[1]["a"])
    if not (r[0] == "call" and ix.callee(r[1]).endswith("]>::len") and r[1]["args"]):
        return None
    a = ix.resolve(r[1]["args"][0])
    ty_ = (op_place(r[1]["args"][0]) or {}).get("ty", "")
    if a[0] in ("cast", "rv") and isinstance(a[1], dict) and "Unsize" in str(a[1].get("ck", "")):
        ty_ = a[1].get("from", "")
    m = re.search(r"^&(?:mut )?\[[^;\]]+; (\d+)\]$", ty_)
    return int(m.group(1)) if m else None


def upper_bound(ix, op, depth=0):
    """A constant strict upper bound for an integer operand, or None.  Only masks, remainders, narrow casts, shifts."""
    if depth > 8:
        return None
    r = ix.resolve(op)
    if r[0] == "const":
        return r[1] + 1 if r[1] >= 0 else None
    if r[0] == "cast":
        frm = r[1]["from"]
        inner = upper_bound(ix, r[1]["a"], depth + 1)
        width = INT_BITS.get(frm)
        if frm.startswith("u") and width and width <= 16:
            return min(inner, 1 << width) if inner else 1 << width
        return inner if frm.startswith("u") else None
    if r[0] == "rv":
        rv = r[1]
        if rv["k"] == "bin":
            op_ = rv["op"]
            a, b = rv["a"], rv["b"]
            if op_ == "BitAnd":
                for x, y in ((a, b), (b, a)):
                    v = const_int(x)
                    if v is not None and v >= 0:
                        uy = upper_bound(ix, y, depth + 1)
                        if uy:
                            # y < uy: only the bits below uy's bit length can survive the mask
                            full = (1 << (uy - 1).bit_length()) - 1
                            return min(v, full & v) + 1
                        return v + 1
                ua, ub = upper_bound(ix, a, depth + 1), upper_bound(ix, b, depth + 1)
                cands = [u for u in (ua, ub) if u]
                return min(cands) if cands else None
            if op_ == "Rem":
                v = const_int(b)
                if v and v > 0:
                    return v
                n_ = const_array_len(ix, b)
                if n_:
                    return n_
            if op_ in ("Shr", "ShrUnchecked"):
                v = const_int(b)
                ua = upper_bound(ix, a, depth + 1)
                if v is not None and ua:
                    return ((ua - 1) >> v) + 1
                # width-based
                pa = op_place(a)
                if v is not None and pa and INT_BITS.get(pa["ty"]) and pa["ty"].startswith("u"):
                    return 1 << max(INT_BITS[pa["ty"]] - v, 0)
            if op_ == "Div":
                v = const_int(b)
                ua = upper_bound(ix, a, depth + 1)
                if v and v > 0 and ua:
                    return (ua - 1) // v + 1
    if r[0] == "call":
        # lossless integer conversions spelled as calls: usize::from(x), x.into()
        c_ = ix.callee(r[1])
        if (re.search(r"convert::From<(u8|u16|bool)>( for \w+)?>::from$", c_) or c_.endswith("convert::Into<T>>::into") or c_.endswith("Into<U>>::into")) and r[1]["args"]:
            a0 = op_place(r[1]["args"][0])
            inner = upper_bound(ix, r[1]["args"][0], depth + 1)
            if inner:
                return inner
            if a0 and a0["ty"] == "u16":
                return 1 << 16
    if r[0] == "rv" and r[1]["k"] == "bin" and r[1]["op"] in ("BitXor", "BitOr"):
        # bitwise combination of two operands below 2^k stays below 2^k
        ua, ub = upper_bound(ix, r[1]["a"], depth + 1), upper_bound(ix, r[1]["b"], depth + 1)
        if ua and ub:
            return 1 << (max(ua, ub) - 1).bit_length()
    # typed bound for narrow unsigned operands
    p = op_place(op)
    if p and p["ty"] in ("u8",):
        return 256
    if p and p["ty"] in ("bool",):
        return 2
    return None


def range_loop_var(ix, op):
    """If operand is the induction variable of `for i in lo..hi` (Range<usize>::next), return (lo_op, hi_op) else None."""
    p = op_place(op)
    if p is None or p["p"]:
        return None
    body = ix.body
    # i = ((_opt as Some).0)  with _opt = Iterator::next(&mut iter), iter = into_iter(Range{lo,hi})
    seen = 0
    l = p["l"]
    while seen < 6:
        seen += 1
        d = ix.defs.get(l, [])
        if len(d) != 1 or d[0][0] != "assign":
            return None
        rv = d[0][3]["rv"]
        if rv["k"] != "use":
            return None
        src = op_place(rv["a"])
        if src is None:
            return None
        if not src["p"]:
            l = src["l"]
            continue
        prj = src["p"]
        if len(prj) == 2 and isinstance(prj[0], dict) and prj[0].get("n") == "Some" and isinstance(prj[1], dict) and prj[1].get("f") == 0:
            optl = src["l"]
            dd = ix.defs.get(optl, [])
            if len(dd) != 1 or dd[0][0] != "call":
                return None
            t = dd[0][3]
            c = ix.callee(t)
            if not (c.endswith("range::<impl std::iter::Iterator for std::ops::Range<A>>::next") or c.endswith("Iterator for std::ops::Range<A>>::next")):
                return None
            # the iterator local: &mut iter
            a0 = op_place(t["args"][0])
            if a0 is None:
                return None
            itl = None
            cur_l = a0["l"] if not a0["p"] else None
            for _ in range(4):
                r0 = ix.single_def(cur_l) if cur_l is not None else None
                if r0 and r0[0] == "assign" and r0[3]["rv"]["k"] == "ref":
                    rp = r0[3]["rv"]["p"]
                    if not rp["p"]:
                        itl = rp["l"]
                        break
                    if rp["p"] == ["*"]:
                        cur_l = rp["l"]  # reborrow &mut *x
                        continue
                break
            if itl is None:
                return None
            # iter = move (into_iter result) ; into_iter(Range{lo,hi})
            cur = itl
            for _ in range(4):
                dd2 = ix.defs.get(cur, [])
                dd2 = [x for x in dd2 if not (x[0] == "assign" and x[3]["lhs"]["p"])]
                if len(dd2) != 1:
                    return None
                if dd2[0][0] == "call":
                    t2 = dd2[0][3]
                    if ix.callee(t2).endswith("::into_iter"):
                        rr = ix.resolve(t2["args"][0])
                        if rr[0] == "rv" and rr[1]["k"] == "agg" and rr[1].get("adt", "").endswith("ops::Range") and len(rr[1]["ops"]) == 2:
                            return rr[1]["ops"][0], rr[1]["ops"][1]
                    return None
                rv2 = dd2[0][3]["rv"]
                if rv2["k"] == "use" and op_place(rv2["a"]) and not op_place(rv2["a"])["p"]:
                    cur = op_place(rv2["a"])["l"]
                    continue
                return None
            return None
        return None
    return None


def len_of(ix, op):
    """If operand is `len()` of some container place, return a stable description of that place, else None."""
    r = ix.resolve(op)
    if r[0] == "call":
        c = ix.callee(r[1])
        if c.endswith("::len") and r[1]["args"]:
            return place_desc(ix, r[1]["args"][0])
    if r[0] == "rv" and r[1]["k"] == "un" and r[1]["op"] == "PtrMetadata":
        return place_desc(ix, r[1]["a"])
    if r[0] == "cast":
        return len_of(ix, r[1]["a"])
    return None


def place_desc(ix, op, depth=0):
    """Canonical string for the place an operand refers to, looking through refs/derefs/copies."""
    if depth > 8:
        return None
    p = op_place(op)
    if p is None:
        k = op.get("k") if isinstance(op, dict) else None
        if k and re.match(r"^&(mut )?\[[^;\]]+; \d+\]$", k.get("ty", "")):
            return "const:" + k["ty"].replace("mut ", "")
        return None

    def proj(pl):
        out = []
        for pr in pl["p"]:
            if pr == "*":
                continue
            if isinstance(pr, dict) and "f" in pr:
                out.append("." + str(pr.get("n", pr["f"])))
            elif isinstance(pr, dict) and "i" in pr:
                out.append("[_]")
            elif isinstance(pr, dict) and "ci" in pr:
                out.append(f"[{pr['ci']}]")
            elif isinstance(pr, dict) and "d" in pr:
                out.append(f"@{pr.get('n')}")
            else:
                out.append("?")
        return "".join(out)

    l = p["l"]
    suffix = proj(p)
    if 1 <= l <= ix.body.argc:
        return f"arg{l}{suffix}"
    d = ix.single_def(l)
    if d and d[0] == "assign":
        rv = d[3]["rv"]
        if rv["k"] in ("ref", "rawptr"):
            inner = place_desc(ix, {"c": rv["p"]}, depth + 1)
            return (inner + suffix) if inner else None
        if rv["k"] == "use":
            inner = place_desc(ix, rv["a"], depth + 1)
            return (inner + suffix) if inner else None
        if rv["k"] == "cast" and rv["ck"].startswith("PointerCoercion"):
            inner = place_desc(ix, rv["a"], depth + 1)
            return (inner + suffix) if inner else None
    if d and d[0] == "call":
        c = ix.callee(d[3])
        if any(c.endswith(s) for s in ("Deref::deref", "DerefMut::deref_mut", "::as_slice", "::as_mut_slice", "AsRef::as_ref", "::as_bytes", "::as_str", "::as_mut", "::as_ref", "Borrow::borrow", "::deref", "::deref_mut")) and d[3]["args"]:
            inner = place_desc(ix, d[3]["args"][0], depth + 1)
            return (inner + suffix) if inner else None
    return f"_{l}{suffix}"


def guard_dominates(ix, bb, pred):
    """Is there a dominating switch whose edge towards `bb` satisfies pred(discr_operand_resolution, taken_value_or_None)?"""
    body = ix.body
    idom = body.idom()
    cur = bb
    seen = 0
    while cur in idom and seen < 400:
        seen += 1
        par = idom[cur]
        if par == cur:
            break
        t = body.term(par)
        if t["k"] == "switch":
            # which edge of par leads (dominatingly) to cur?
            for v, tgt in t["arms"]:
                if tgt == cur or body.dominates(tgt, bb) and tgt != t["else"]:
                    if [x for x in t["arms"] if x[1] == tgt] == [[v, tgt]] and tgt != t["else"]:
                        if pred(t["a"], int(v), par):
                            return True
            if t["else"] == cur or (body.dominates(t["else"], bb) and all(a[1] != t["else"] for a in t["arms"])):
                if pred(t["a"], ("not", tuple(int(a[0]) for a in t["arms"])), par):
                    return True
        cur = par
    return False


def discharge(ix, s):
    k = s.kind
    ops = s.operands
    body = ix.body
    if k == "slice-pre" and s.detail in ("cell::RefCell::<T>::borrow", "cell::RefCell::<T>::borrow_mut") and ACTX.get("refcell", {}).get("ok"):
        # set by the rule REFCELL (C18) after its typestate check over the whole reachable call graph
        return "D11 RefCell borrow under the REFCELL discipline: no conflicting guard is alive at any borrow in the reachable code"
    if k == "bounds":
        ln, idx = ops
        lc, ic = const_int(ln), None
        r = ix.resolve(idx)
        if r[0] == "const":
            ic = r[1]
        if lc is not None and ic is not None and 0 <= ic < lc:
            return "D1 constant index below constant length"
        ub = upper_bound(ix, idx)
        if lc is not None and ub is not None and ub <= lc:
            return "D2 index bounded by mask/remainder/width below the constant length"
        rl = loop_var(ix, idx)
        if rl:
            hi = ix.resolve(rl[1])
            if lc is not None and hi[0] == "const" and hi[1] <= lc:
                return "D3 induction variable of a constant range within the array length"
            hl = len_of(ix, rl[1])
            ll = len_of(ix, ln)
            if hl and ll and hl == ll:
                return "D3 induction variable bounded by len() of the same container"
        # (i - c) with i the counter of a constant range within the array length (the subtraction is its own site)
        pi = op_place(idx)
        if pi is not None and lc is not None:
            cur = pi
            for _ in range(4):
                if cur is None:
                    break
                if len(cur["p"]) == 1 and isinstance(cur["p"][0], dict) and cur["p"][0].get("f") == 0:
                    d0 = ix.single_def(cur["l"])
                    if d0 and d0[0] == "assign" and d0[3]["rv"]["k"] == "bin" and d0[3]["rv"]["op"] == "SubWithOverflow" and (const_int(d0[3]["rv"]["b"]) or 0) >= 0 and const_int(d0[3]["rv"]["b"]) is not None:
                        rl2 = loop_var(ix, d0[3]["rv"]["a"])
                        if rl2:
                            hi2 = ix.resolve(rl2[1])
                            if hi2[0] == "const" and hi2[1] <= lc:
                                return "D3 induction variable of a constant range minus a constant, within the array length"
                    break
                if cur["p"]:
                    break
                dd = ix.single_def(cur["l"])
                if dd and dd[0] == "assign" and dd[3]["rv"]["k"] == "use":
                    cur = op_place(dd[3]["rv"]["a"])
                else:
                    break
        return None
    if k == "arith":
        if s.detail in ("Shl", "Shr"):
            sh = ix.resolve(ops[1])
            pa = op_place(ops[0])
            ty = pa["ty"] if pa else (ops[0].get("k") or {}).get("ty")
            bits = INT_BITS.get(ty)
            if sh[0] == "const" and bits and 0 <= sh[1] < bits:
                return "D2 constant shift amount below the operand width"
            ub = upper_bound(ix, ops[1])
            if ub is not None and bits and ub <= bits:
                return "D2 shift amount bounded below the operand width"
            # the amount is the induction variable of a range with a constant end not above the width (`for bit in 0..8`)
            rlv = loop_var(ix, ops[1])
            if rlv and bits:
                lo_, hi_ = ix.resolve(rlv[0]), ix.resolve(rlv[1])
                if lo_[0] == "const" and hi_[0] == "const" and 0 <= lo_[1] and hi_[1] <= bits:
                    return "D2 shift amount is the induction variable of a constant range within the operand width"
            # the amount is a counter tested against a constant <= width on a dominating edge (`while bit < 8 { x >> bit }`)
            ak = expr_key(ix, ops[1], casts=True)
            if ak and bits:
                hit = []

                def pred_lt(dop, val, par):
                    r = ix.resolve(dop)
                    if not (r[0] == "rv" and r[1]["k"] == "bin" and r[1]["op"] in ("Lt", "Le", "Gt", "Ge")):
                        return False
                    op_, x, y = r[1]["op"], r[1]["a"], r[1]["b"]
                    is_true = val == 1 or (isinstance(val, tuple) and val[0] == "not" and val[1] == (0,))
                    is_false = val == 0
                    ok_ = False
                    if expr_key(ix, x, casts=True) == ak:
                        cy = ix.resolve(y)
                        if cy[0] == "const":
                            c_ = cy[1]
                            ok_ = (op_ == "Lt" and c_ <= bits and is_true) or (op_ == "Le" and c_ < bits and is_true) or (op_ == "Ge" and c_ <= bits and is_false) or (op_ == "Gt" and c_ < bits and is_false)
                    elif expr_key(ix, y, casts=True) == ak:
                        cx = ix.resolve(x)
                        if cx[0] == "const":
                            c_ = cx[1]
                            ok_ = (op_ == "Gt" and c_ <= bits and is_true) or (op_ == "Ge" and c_ < bits and is_true) or (op_ == "Le" and c_ <= bits and is_false) or (op_ == "Lt" and c_ < bits and is_false)
                    if ok_:
                        hit.append(par)
                    return ok_

                if guard_dominates(ix, s.bb, pred_lt) and unchanged_between(ix, hit[-1], s.bb, _key_locals(ak, set())):
                    return "D2 shift amount under a dominating comparison with a constant not above the operand width"
            return None
        if s.detail == "OverflowNeg":
            r0 = ix.resolve(ops[0]) if ops else ("unknown",)
            if r0[0] == "const" and abs(r0[1]) < (1 << 31):
                return "D2 negation of a constant that is not the minimum value"
            return None
        if s.detail in ("DivisionByZero", "RemainderByZero"):
            # divisor is the operand compared with zero in the assert condition
            t = body.term(s.bb)
            cr = ix.resolve(t["cond"])
            if cr[0] == "rv" and cr[1]["k"] == "bin" and cr[1]["op"] == "Eq":
                for x in (cr[1]["a"], cr[1]["b"]):
                    d = ix.resolve(x)
                    if d[0] == "const" and d[1] != 0:
                        return "D2 non-zero constant divisor"
                    # usize::from(K) / u32::from(K) of a non-zero constant (lossless widening keeps it non-zero)
                    dd = d
                    for _hop in range(3):
                        if dd[0] == "call" and len(dd[1]["args"]) == 1 and re.search(r"impl std::convert::From<(u8|u16|u32|u64|usize)> for (u16|u32|u64|u128|usize|i32|i64|i128)>::from$", ix.callee(dd[1])):
                            dd = ix.resolve(dd[1]["args"][0])
                        else:
                            break
                    if dd is not d and dd[0] == "const" and dd[1] != 0:
                        return "D2 non-zero constant divisor (widened with From)"
                    if const_array_len(ix, x):
                        return "D2 divisor is the length of a non-empty fixed-size array"
                    if d[0] == "cast" and d[3][0] == "call":
                        d = d[3]  # value-preserving for the small sizes accepted below
                    if d[0] == "call" and ix.callee(d[1]).endswith("mem::size_of"):
                        ga = (d[1]["f"].get("k") or {}).get("ga", [])
                        sz = type_size(ga[0]) if ga else None
                        if sz and sz < 256:
                            return f"D2 divisor is size_of::<{ga[0]}>() = {sz}"
                    if d[0] == "local":
                        # a local assigned on several branches, every time a non-zero constant (if c {8} else {16})
                        dd = ix.defs.get(d[1], [])
                        vals = [const_int(x[3]["rv"]["a"]) if x[0] == "assign" and not x[3]["lhs"]["p"] and x[3]["rv"]["k"] == "use" else None for x in dd]
                        if dd and all(v is not None and v != 0 for v in vals):
                            return f"D2 divisor is one of the non-zero constants {sorted(set(vals))}"
            return None
        if s.detail in ("Div", "Rem"):
            d = ix.resolve(ops[1])
            if d[0] == "const" and d[1] not in (0, -1):
                return "D2 constant divisor (no MIN / -1)"
            pa = op_place(ops[0])
            if pa and pa["ty"].startswith("u"):
                return "D2 unsigned division cannot overflow"
            return None
        if s.detail == "Sub":
            a, b = ops
            ra_, rb_ = ix.resolve(a), ix.resolve(b)
            if ra_[0] == "const" and rb_[0] == "const" and ra_[1] >= rb_[1] >= 0:
                return "D1 subtraction of constants that does not underflow"
            # a - min(a, _)
            rb = ix.resolve(b)
            if rb[0] == "call" and (ix.callee(rb[1]).endswith("cmp::min") or ix.callee(rb[1]).split("::")[-1] == "min"):
                da = place_desc(ix, a)
                if da and any(place_desc(ix, x) == da for x in rb[1]["args"]):
                    m_ = re.match(r"^_(\d+)$", da)
                    if m_ is None or unchanged_between(ix, rb[2], s.bb, {int(m_.group(1))}):
                        return "D4 subtrahend is min(minuend, _)"
            # (x + c1) - c2 with c1 >= c2 on an unsigned type: the checked addition comes first
            cb0 = ix.resolve(b)
            pa0 = op_place(a)
            if cb0[0] == "const" and pa0 is not None and not pa0["p"] and pa0["ty"].startswith("u"):
                da = ix.single_def(pa0["l"])
                if da and da[0] == "assign" and da[3]["rv"]["k"] == "use":
                    q = op_place(da[3]["rv"]["a"])
                    if q and len(q["p"]) == 1 and isinstance(q["p"][0], dict) and q["p"][0].get("f") == 0:
                        dq = ix.single_def(q["l"])
                        if dq and dq[0] == "assign" and dq[3]["rv"]["k"] == "bin" and dq[3]["rv"]["op"] == "AddWithOverflow":
                            for x in (dq[3]["rv"]["a"], dq[3]["rv"]["b"]):
                                cx = ix.resolve(x)
                                if cx[0] == "const" and cx[1] >= cb0[1] >= 0:
                                    return "D4 (x + c1) - c2 with c1 >= c2 on an unsigned operand"
            # x - c dominated by a comparison that implies x >= c  (x != 0, x > k, x >= k)
            if cb0[0] == "const" and cb0[1] >= 1 and pa0 is not None and pa0["ty"].startswith("u"):
                ak = expr_key(ix, a, casts=True)
                c_ = cb0[1]
                hit = []

                def pred_ge(dop, val, par):
                    r = ix.resolve(dop)
                    if not (r[0] == "rv" and r[1]["k"] == "bin" and r[1]["op"] in ("Eq", "Ne", "Gt", "Ge", "Lt", "Le")):
                        return False
                    op_ = r[1]["op"]
                    x, y = r[1]["a"], r[1]["b"]
                    is_true = val == 1 or (isinstance(val, tuple) and val[0] == "not" and val[1] == (0,))
                    is_false = val == 0
                    ok_ = False
                    if expr_key(ix, x, casts=True) == ak:
                        cy = ix.resolve(y)
                        if cy[0] == "const":
                            k = cy[1]
                            ok_ = (op_ == "Eq" and k == 0 and c_ == 1 and is_false) or (op_ == "Ne" and k == 0 and c_ == 1 and is_true) or (op_ == "Gt" and k >= c_ - 1 and is_true) or (op_ == "Ge" and k >= c_ and is_true) or (op_ == "Lt" and k >= c_ and is_false) or (op_ == "Le" and k >= c_ - 1 and is_false)
                    if ok_:
                        hit.append(par)
                    return ok_

                if ak and guard_dominates(ix, s.bb, pred_ge) and unchanged_between(ix, hit[-1], s.bb, _key_locals(ak, set())):
                    return "D4 x - c under a dominating comparison that implies x >= c"
            # len(x) - 1 dominated by !is_empty(x)
            la = len_of(ix, a)
            cb = ix.resolve(b)
            if la and cb[0] == "const" and cb[1] == 1:
                def pred(dop, val, par):
                    r = ix.resolve(dop)
                    if r[0] == "call" and ix.callee(r[1]).endswith("::is_empty") and place_desc(ix, r[1]["args"][0]) == la:
                        return val == 0
                    if r[0] == "rv" and r[1]["k"] == "un" and r[1]["op"] == "Not":
                        r2 = ix.resolve(r[1]["a"])
                        if r2[0] == "call" and ix.callee(r2[1]).endswith("::is_empty") and place_desc(ix, r2[1]["args"][0]) == la:
                            return val != 0 and val == 1
                    return False
                if guard_dominates(ix, s.bb, pred):
                    return "D4 len() - 1 under a dominating !is_empty() of the same value"
            return None
        return None
    if k == "unwrap":
        # D8: uninhabited error type
        if "std::convert::Infallible>" in s.detail and "Result<" in s.detail:
            return "D8 Result<_, Infallible> cannot be Err"
        a0 = ops[0] if ops else None
        r = ix.resolve(a0) if a0 else ("unknown",)
        if r[0] == "rv" and r[1]["k"] == "agg" and r[1].get("variant") in ("Some", "Ok"):
            return "D5 value constructed as Some/Ok"
        if r[0] == "call":
            c = ix.callee(r[1])
            # try_into() from a constant-width sub-slice into an array of the same width
            if c.endswith("TryInto<U>>::try_into") or c.endswith("::try_into"):
                ga = (r[1]["f"].get("k") or {}).get("ga", [])
                m = re.match(r"^\[u8; (\d+)\]$", ga[1]) if len(ga) > 1 else None
                if m and const_slice_len(ix, r[1]["args"][0]) == int(m.group(1)):
                    return "D5 try_into from a constant-width sub-slice into an array of that width"
                src = ix.resolve(r[1]["args"][0])
                if m and src[0] == "call" and ix.callee(src[1]).endswith("::index"):
                    rg = ix.resolve(src[1]["args"][1])
                    if rg[0] == "rv" and rg[1]["k"] == "agg" and rg[1].get("adt", "").endswith("ops::Range"):
                        lo, hi = ix.resolve(rg[1]["ops"][0]), ix.resolve(rg[1]["ops"][1])
                        if lo[0] == "const" and hi[0] == "const" and hi[1] - lo[1] == int(m.group(1)):
                            return "D5 try_into from a constant-width sub-slice into an array of that width"
        # D5: dominated by is_some()/is_ok() of the same place
        dsc = place_desc(ix, a0) if a0 else None
        if dsc:
            def pred(dop, val, par):
                rr = ix.resolve(dop)
                if rr[0] == "call" and (ix.callee(rr[1]).endswith("::is_ok") or ix.callee(rr[1]).endswith("::is_some")) and place_desc(ix, rr[1]["args"][0]) == dsc:
                    return val != 0 and val == 1 or (isinstance(val, tuple) and 0 in val[1])
                return False
            if guard_dominates(ix, s.bb, pred):
                return "D5 dominated by is_ok()/is_some() of the same value"
        return None
    if k == "index":
        # container[index]
        if len(ops) < 2:
            return None
        cont, idx = ops
        cdesc = place_desc(ix, cont)
        r = ix.resolve(idx)
        # usize index
        rl = range_loop_var(ix, idx)
        if rl and cdesc:
            hl = len_of(ix, rl[1])
            if hl and hl == cdesc:
                return "D3 induction variable bounded by len() of the same container"
            # hi = len(container) - k
            hr = ix.resolve(rl[1])
            if hr[0] == "rv" and hr[1]["k"] == "use":
                hr = ix.resolve(hr[1]["a"])
            if hr[0] == "place" and len(hr[1]["p"]) == 1 and isinstance(hr[1]["p"][0], dict) and hr[1]["p"][0].get("f") == 0:
                # (tuple from SubWithOverflow).0
                d = ix.single_def(hr[1]["l"])
                if d and d[0] == "assign" and d[3]["rv"]["k"] == "bin" and d[3]["rv"]["op"].startswith("Sub"):
                    if len_of(ix, d[3]["rv"]["a"]) == cdesc and const_int(d[3]["rv"]["b"]) is not None:
                        return "D3 induction variable bounded by len() - k of the same container (the subtraction is a separate site)"
        g4 = lt_len_guard(ix, s, cont, idx)
        if g4:
            return g4
        d7 = binrw_count_discharge(ix, cont, idx) or binrw_count_shared(ix, cont, idx)
        if d7:
            return d7
        d3 = from_elem_discharge(ix, s, cont, idx)
        if d3:
            return d3
        # ranges
        if r[0] == "rv" and r[1]["k"] == "agg":
            adt = r[1].get("adt", "")
            o = r[1]["ops"]
            if adt.endswith("ops::RangeFrom") and cdesc:
                st = ix.resolve(o[0])
                if st[0] == "call" and any(ix.callee(st[1]).endswith(x) for x in ("::find", "::rfind")):
                    pass
                if _from_find(ix, o[0], cdesc):
                    return "D9 start position returned by find() on the same string"
            if adt.endswith("ops::RangeTo") and cdesc and o:
                # `s[..end]` is `s[0..end]`
                if _from_find(ix, o[0], cdesc):
                    return "D9 end position returned by find() on the same string"
                hi_ = ix.resolve(o[0])
                if hi_[0] == "call" and ix.callee(hi_[1]).split("::")[-1] == "min" and any(len_of(ix, x) == cdesc for x in hi_[1]["args"]):
                    return "D4 range end is min(len(), _) of the same container"
            if adt.endswith("ops::Range") and cdesc:
                lo, hi = ix.resolve(o[0]), ix.resolve(o[1])
                if lo[0] == "const" and lo[1] == 0:
                    if _from_find(ix, o[1], cdesc):
                        return "D9 end position returned by find() on the same string"
                    if hi[0] == "call" and (ix.callee(hi[1]).endswith("cmp::min") or ix.callee(hi[1]).split("::")[-1] == "min"):
                        m_ = re.search(r"\[[^;\]]+; (\d+)\]", (op_place(cont) or {}).get("ty", ""))
                        for x in hi[1]["args"]:
                            if len_of(ix, x) == cdesc:
                                return "D4 range end is min(len(), _) of the same container"
                            xr = ix.resolve(x)
                            if m_ and xr[0] == "const" and xr[1] <= int(m_.group(1)):
                                return "D4 range end is min(constant <= array length, _)"
                # constant range within a constant-length array
                m = re.search(r"\[[^;\]]+; (\d+)\]", (op_place(cont) or {}).get("ty", ""))
                if lo[0] == "const" and hi[0] == "const" and m and lo[1] <= hi[1] <= int(m.group(1)):
                    return "D1 constant range within the array length"
            if adt.endswith("ops::RangeTo") and cdesc:
                hi = ix.resolve(o[0])
                m = re.search(r"\[[^;\]]+; (\d+)\]", (op_place(cont) or {}).get("ty", ""))
                if hi[0] == "const" and m and hi[1] <= int(m.group(1)):
                    return "D1 constant range within the array length"
                ub_ = upper_bound(ix, o[0])
                if m and ub_ and ub_ - 1 <= int(m.group(1)):
                    return "D2 range end is a remainder / masked value not above the array length"
                if hi[0] == "call" and ix.callee(hi[1]).split("::")[-1] == "min":
                    for x in hi[1]["args"]:
                        if len_of(ix, x) == cdesc:
                            return "D4 range end is min(len(), _) of the same container"
                        xr = ix.resolve(x)
                        if m and xr[0] == "const" and xr[1] <= int(m.group(1)):
                            return "D4 range end is min(constant <= array length, _)"
                        # len() of a constant-length array, spelled as a call
                        if m and xr[0] == "call" and ix.callee(xr[1]).endswith("::len"):
                            ty_ = (op_place(xr[1]["args"][0]) or {}).get("ty", "") if xr[1]["args"] else ""
                            m2 = re.search(r"\[[^;\]]+; (\d+)\]", ty_)
                            if m2 and int(m2.group(1)) <= int(m.group(1)):
                                return "D4 range end is min(len of an array not longer than this one, _)"
        return None
    if k == "alloc":
        # size argument is a constant or a len() of existing data
        last = s.detail.split("::")[-1]
        argi = ALLOC_FNS.get(last, 0)
        if argi < len(ops):
            r = ix.resolve(ops[argi])
            if r[0] == "const":
                return "D6 constant allocation size"
            if len_of(ix, ops[argi]):
                return "D6 allocation size is len() of existing data"
            if len_bounded(ix, ops[argi]):
                return "D6 allocation size is computed from len() of existing data by subtraction / division / min only"
            ub = alloc_count_bound(ix, ops[argi])
            if ub is not None:
                t = body.term(s.bb)
                ga = (t["f"].get("k") or {}).get("ga", [])
                esz = type_size(ga[0]) if ga else None
                if esz is not None and ub * max(esz, 1) <= ALLOC_CAP:
                    return f"D6 allocation bounded by the width of its count: at most {ub} x {esz} bytes"
        return None
    if k == "assert-other":
        if ("NullPointerDereference" in s.detail or "MisalignedPointerDereference" in s.detail) and s.macros and s.macros[-1] == "Bang:vec" and not ACTX.get("local_vec_macro"):
            return "D10 debug-build pointer check on the freshly boxed array inside std's vec! expansion (allocator pointers are non-null and aligned)"
        return None
    if k == "slice-pre":
        last = s.detail.split("::")[-1]
        if last in ("clone_from_slice", "copy_from_slice") and len(ops) >= 2:
            a, b = const_slice_len(ix, ops[0]), const_slice_len(ix, ops[1])
            if a is not None and a == b:
                return f"D10 both slices have the constant length {a}"
        if last in ("chunks", "chunks_exact", "chunks_mut", "windows", "step_by") and len(ops) >= 2:
            r = ix.resolve(ops[1])
            if r[0] == "const" and r[1] != 0:
                return "D2 non-zero constant size"
        return None
    return None


def _from_find(ix, op, cdesc):
    """op is the payload of Some(..) matched from find()/rfind() called on the container `cdesc`."""
    p = op_place(op)
    seen = 0
    while p is not None and seen < 6:
        seen += 1
        if p["p"]:
            prj = p["p"]
            if len(prj) == 2 and isinstance(prj[0], dict) and prj[0].get("n") == "Some":
                d = ix.single_def(p["l"])
                if d and d[0] == "call" and any(ix.callee(d[3]).endswith(x) for x in ("::find", "::rfind")):
                    return place_desc(ix, d[3]["args"][0]) == cdesc
            return False
        d = ix.single_def(p["l"])
        if not d or d[0] != "assign" or d[3]["rv"]["k"] != "use":
            return False
        p = op_place(d[3]["rv"]["a"])
    return False


def producer(ix, s):
    """Short name of the call that produced the unwrapped / indexed value (type-level key detail)."""
    if not s.operands:
        return ""
    r = ix.resolve(s.operands[0])
    if r[0] == "call":
        c = ix.callee(r[1])
        c = re.sub(r"<[^<>]*>", "", c)
        c = re.sub(r"<[^<>]*>", "", c)
        return "<-" + "::".join(c.split("::")[-2:])
    if r[0] == "param":
        return "<-param"
    return ""


def index_shape(ix, s):
    if len(s.operands) < 2:
        return ""
    r = ix.resolve(s.operands[1])
    if r[0] == "const":
        return f"[{r[1]}]"
    if r[0] == "rv" and r[1]["k"] == "agg":
        adt = r[1].get("adt", "").split("::")[-1]
        parts = []
        for o in r[1]["ops"]:
            rr = ix.resolve(o)
            parts.append(str(rr[1]) if rr[0] == "const" else "_")
        return f"[{adt} {','.join(parts)}]"
    return "[_]"


def elem_type(container):
    """Element type of an indexable container type as rustc prints it."""
    c = container.strip()
    c = re.sub(r"^&(mut )?", "", c)
    m = re.match(r"^std::vec::Vec<(.*)>$", c)
    if m:
        return m.group(1)
    m = re.match(r"^\[(.*); [^;\]]+\]$", c)
    if m:
        return m.group(1)
    m = re.match(r"^\[(.*)\]$", c)
    if m:
        return m.group(1)
    if c in ("std::string::String", "str"):
        return "str"
    return c


def bounds_elem_type(ix, s):
    """Element type behind an inline bounds check: the type of the place indexed in the block the assert leads to."""
    body = ix.body
    t = body.term(s.bb)
    idx = op_place(s.operands[1])
    tgt = t.get("t", -1)
    if idx is None or tgt is None or tgt < 0:
        return "?"

    def scan_place(pl):
        if isinstance(pl, dict) and any(isinstance(pr, dict) and pr.get("i") == idx["l"] for pr in pl.get("p", [])):
            # type of the element = type after the index projection; when further projections follow we only know the
            # final type, so name it through them
            return pl.get("ty", "?") if isinstance(pl["p"][-1], dict) and pl["p"][-1].get("i") == idx["l"] else "(" + pl.get("ty", "?") + ")"
        return None

    for st in body.blocks[tgt]["s"]:
        if st["k"] != "assign":
            continue
        cands = [st["lhs"]]
        rv = st["rv"]
        for o in [rv.get("a"), rv.get("b")] + list(rv.get("ops", [])):
            pl = op_place(o) if isinstance(o, dict) else None
            if pl:
                cands.append(pl)
        if isinstance(rv.get("p"), dict):
            cands.append(rv["p"])
        for pl in cands:
            r = scan_place(pl)
            if r:
                return r
    return "?"


def analyse(prog, entry_defs, counts=None, wire=None):
    """Full PANIC analysis: sites with discharges and final keys."""
    sites, reach, parent, defs = scan(prog, entry_defs)
    ACTX["prog"] = prog
    ACTX["counts"] = counts or {}
    ACTX["wire"] = wire
    cache = {}
    out = []
    for s, n in sites:
        ix = cache.get(s.fn)
        if ix is None:
            ix = cache[s.fn] = BodyIndex(prog.body(s.fn))
        try:
            s.discharge = discharge(ix, s)
        except Exception as e:  # a discharge that cannot be evaluated is no discharge
            s.discharge = None
        s.old_key = s.key
        if s.kind == "unwrap":
            s.key = f"{s.kind}|{s.kfn}|{s.detail}{producer(ix, s)}"
            s.old_key = s.key
        elif s.kind in ("index",):
            s.old_key = f"{s.kind}|{s.kfn}|{s.detail}{index_shape(ix, s)}"
            # element accesses are keyed by element type and index shape, whatever the container (Vec / slice / array)
            # and whether the compiler emitted an Index call or an inline bounds check
            ga_ = (ix.body.term(s.bb)["f"].get("k") or {}).get("ga", [])
            s.key = f"index|{s.kfn}|{elem_type(ga_[0] if ga_ else s.detail)}{index_shape(ix, s)}"
        elif s.kind == "bounds":
            r = ix.resolve(s.operands[1])
            lc = const_int(s.operands[0])
            s.old_key = f"{s.kind}|{s.kfn}|len={lc if lc is not None else '_'} idx={r[1] if r[0]=='const' else '_'}"
            s.key = f"index|{s.kfn}|{bounds_elem_type(ix, s)}[{r[1] if r[0]=='const' else '_'}]"
        out.append((s, n))
    return out, reach, parent, defs


def expr_key(ix, op, depth=0, casts=False, limit=6):
    """Canonical structural key of a scalar operand (consts, places, +,-,*, casts), for comparing two operands.
    casts=True keeps every cast that is not an unsigned widening in the key (two equal keys then mean equal values)."""
    if depth > limit:
        return None
    v = const_int(op)
    if v is not None:
        return ("c", v)
    p = op_place(op)
    if p is None:
        return None
    if p["p"]:
        # (tuple from a checked op).0
        if len(p["p"]) == 1 and isinstance(p["p"][0], dict) and p["p"][0].get("f") == 0:
            d = ix.single_def(p["l"])
            if d and d[0] == "assign" and d[3]["rv"]["k"] == "bin" and d[3]["rv"]["op"].endswith("WithOverflow"):
                rv = d[3]["rv"]
                return (rv["op"][: -len("WithOverflow")], expr_key(ix, rv["a"], depth + 1, casts, limit), expr_key(ix, rv["b"], depth + 1, casts, limit))
        return ("pl", place_desc(ix, op))
    l = p["l"]
    if 1 <= l <= ix.body.argc:
        return ("pl", f"arg{l}")
    d = ix.single_def(l)
    if d is None:
        return ("pl", f"_{l}")
    if d[0] == "call":
        c = ix.callee(d[3])
        if c.endswith("::len") and d[3]["args"]:
            return ("len", place_desc(ix, d[3]["args"][0]))
        return ("pl", f"_{l}")
    rv = d[3]["rv"]
    if rv["k"] == "use":
        return expr_key(ix, rv["a"], depth + 1, casts, limit)
    if rv["k"] == "cast":
        inner = expr_key(ix, rv["a"], depth + 1, casts, limit)
        if casts:
            fb, tb = INT_BITS.get(rv.get("from")), INT_BITS.get(rv.get("to"))
            if not (fb and tb and rv["from"].startswith("u") and tb >= fb and (tb > fb or rv["to"].startswith("u"))):
                return ("cast", rv.get("from"), rv.get("to"), inner)
        return inner
    if rv["k"] == "bin":
        return (rv["op"].replace("WithOverflow", ""), expr_key(ix, rv["a"], depth + 1, casts, limit), expr_key(ix, rv["b"], depth + 1, casts, limit))
    return ("pl", f"_{l}")


def _key_locals(k, out):
    if isinstance(k, tuple):
        if k and k[0] == "pl" and isinstance(k[1], str):
            m = re.match(r"^_(\d+)", k[1])
            if m:
                out.add(int(m.group(1)))
        else:
            for x in k:
                _key_locals(x, out)
    return out


def unchanged_between(ix, guard_bb, site_bb, locals_):
    """No statement on any path from the guard to the site (without passing the guard again) assigns or mutably
    borrows one of the locals (multi-definition locals such as loop counters): the value tested by the guard is the
    value used at the site.  The blocks in question are those reachable from the guard's successors that can still
    reach the site, both without going through the guard block."""
    body = ix.body
    multi = {l for l in locals_ if ix.single_def(l) is None and not (1 <= l <= body.argc)}
    if not multi:
        return True
    if guard_bb == site_bb:
        return True
    fwd, todo = set(), [s_ for s_ in body.succ(guard_bb) if not body.blocks[s_]["cleanup"]]
    while todo:
        x = todo.pop()
        if x in fwd or x == guard_bb:
            continue
        fwd.add(x)
        if len(fwd) > 4000:
            return False
        todo += [s_ for s_ in body.succ(x) if not body.blocks[s_]["cleanup"]]
    if site_bb not in fwd:
        return False
    bwd, todo = set(), [site_bb]
    while todo:
        x = todo.pop()
        if x in bwd or x == guard_bb:
            continue
        bwd.add(x)
        todo += [p_ for p_ in body.pred(x) if not body.blocks[p_]["cleanup"]]
    region = fwd & bwd
    # is the site block itself on a cycle that avoids the guard?  then its own terminator result counts too
    site_cyclic = any(s_ in region for s_ in body.succ(site_bb))
    for cur in region:
        blk = body.blocks[cur]
        for st in blk["s"]:
            if st["k"] == "assign":
                if st["lhs"]["l"] in multi:
                    return False
                rv = st["rv"]
                if rv["k"] in ("ref", "rawptr") and rv.get("mut") in (True, "Mut") and rv["p"]["l"] in multi:
                    return False
        t = blk["t"]
        if (cur != site_bb or site_cyclic) and t["k"] == "call" and t.get("dest") and t["dest"]["l"] in multi:
            return False
    return True


def lt_len_guard(ix, s, cont, idx):
    """D4: `v[e]` dominated by the true edge of `e < v.len()` (or the false edge of `e >= v.len()`), with `e` and `v`
    unchanged in between."""
    cdesc = place_desc(ix, cont)
    ek = expr_key(ix, idx, casts=True)
    if not cdesc or not ek or ek[0] == "c":
        return None
    hit = []

    def pred(dop, val, par):
        r = ix.resolve(dop)
        if not (r[0] == "rv" and r[1]["k"] == "bin" and r[1]["op"] in ("Lt", "Ge", "Gt", "Le")):
            return False
        a, b, op_ = r[1]["a"], r[1]["b"], r[1]["op"]
        if op_ in ("Lt", "Ge") and expr_key(ix, a, casts=True) == ek and cdesc in len_upper_of(ix, b):
            want_true = op_ == "Lt"
        elif op_ in ("Gt", "Le") and expr_key(ix, b, casts=True) == ek and cdesc in len_upper_of(ix, a):
            want_true = op_ == "Gt"
        else:
            return False
        is_true = val == 1 or (isinstance(val, tuple) and val[0] == "not" and val[1] == (0,))
        is_false = val == 0
        if (want_true and is_true) or (not want_true and is_false):
            hit.append(par)
            return True
        return False

    if not guard_dominates(ix, s.bb, pred):
        return None
    if not unchanged_between(ix, hit[-1], s.bb, _key_locals(ek, set())):
        return None
    if not container_stable(ix, cont):
        return None
    return "D4 index dominated by a comparison with len() of the same container"


def container_stable(ix, cont):
    """The container behind an operand cannot change length in this function: it lives behind a shared-reference
    parameter, or it is a local place that is never re-assigned or handed out mutably to a length-changing call."""
    p = op_place(cont)
    for _ in range(8):
        if p is None:
            return False
        if any(pr == "*" for pr in p["p"]):
            ty = ix.body.j["locals"][p["l"]]["ty"]
            if ty.startswith("&") and not ty.startswith("&mut") and 1 <= p["l"] <= ix.body.argc:
                return True
            # deref of a local reference: follow the reference
            d = ix.single_def(p["l"])
            if not d or d[0] != "assign":
                return False
            rv = d[3]["rv"]
            p = rv["p"] if rv["k"] == "ref" else op_place(rv["a"]) if rv["k"] == "use" else None
            continue
        if p["p"] or not ix.single_def(p["l"]) or 1 <= p["l"] <= ix.body.argc:
            names = [pr.get("n", pr["f"]) for pr in p["p"] if isinstance(pr, dict) and "f" in pr]
            return not place_prefix_touched(ix, p["l"], names)
        d = ix.single_def(p["l"])
        if d[0] == "call":
            c = ix.callee(d[3])
            if any(c.endswith(x) for x in ("Deref::deref", "::deref", "::as_slice", "::as_ref", "::as_bytes", "::as_str")) and d[3]["args"]:
                p = op_place(d[3]["args"][0])
                continue
            return not place_prefix_touched(ix, p["l"], [])
        rv = d[3]["rv"]
        if rv["k"] == "ref":
            p = rv["p"]
        elif rv["k"] in ("use", "cast"):
            p = op_place(rv["a"])
        else:
            return not place_prefix_touched(ix, p["l"], [])
    return False


def requires_ne_len_guard(ix, s, exc=None):
    """Exception guard: the index expression of `container[e]` is compared `e == container.len()` by a dominating
    branch whose not-equal edge leads to the site."""
    if len(s.operands) < 2:
        return False
    cdesc = place_desc(ix, s.operands[0])
    ek = expr_key(ix, s.operands[1])
    if not cdesc or not ek:
        return False

    def pred(dop, val, par):
        r = ix.resolve(dop)
        if r[0] == "rv" and r[1]["k"] == "bin" and r[1]["op"] == "Eq":
            a, b = r[1]["a"], r[1]["b"]
            for x, y in ((a, b), (b, a)):
                if expr_key(ix, x) == ek and len_of(ix, y) == cdesc:
                    return val == 0
        return False

    return guard_dominates(ix, s.bb, pred)


def _actual_args(ix, t, callee_is_closure):
    """User-level argument operands of a call (closure calls pass them as one tuple)."""
    if not callee_is_closure:
        return list(t["args"])
    if len(t["args"]) < 2:
        return []
    r = ix.resolve(t["args"][1])
    if r[0] == "rv" and r[1]["k"] == "agg":
        return [None] + list(r[1]["ops"])  # index 0 = the closure itself
    return []


def requires_const_arg(ix, s, exc):
    """Exception guard: every call of `fn` in the crate passes, at argument `arg` (1-based, as in MIR), a constant
    below `lt` or the counter of a constant range ending at or below `lt`; the function is called directly only."""
    prm = exc.get("params", {})
    fn, argi, lt = prm.get("fn"), prm.get("arg"), prm.get("lt")
    prog = ACTX.get("prog")
    if prog is None or fn is None or fn not in prog.raw_bodies:
        return False
    is_closure = prog.raw_bodies[fn].j.get("kind") == "Closure"
    n = 0
    for name, b in prog.raw_bodies.items():
        cix = None
        for bi, t in b.calls():
            if (t.get("res") or "") != fn:
                continue
            f = (t["f"].get("k") or {}).get("fn") or ""
            if is_closure and not any(x in f for x in ("FnMut::call_mut", "Fn::call", "FnOnce::call_once")):
                return False
            cix = cix or BodyIndex(b)
            args = _actual_args(cix, t, is_closure)
            k = argi if is_closure else argi - 1
            if k >= len(args) or args[k] is None:
                return False
            r = cix.resolve(args[k])
            if r[0] == "const" and 0 <= r[1] < lt:
                n += 1
                continue
            rl = loop_var(cix, args[k])
            if rl:
                lo, hi = cix.resolve(rl[0]), cix.resolve(rl[1])
                if lo[0] == "const" and lo[1] >= 0 and hi[0] == "const" and hi[1] <= lt:
                    n += 1
                    continue
            return False
        # the function must not escape as a value (fn pointer / closure handed to an adaptor)
        for bi, si, st in b.stmts():
            rv = st.get("rv") or {}
            if rv.get("reify") == fn:
                return False
    if is_closure:
        # the closure value is only ever borrowed for a direct call
        par = fn.rsplit("::{closure", 1)[0]
        pb = prog.raw_bodies.get(par)
        if pb is None:
            return False
        pix = BodyIndex(pb)
        cl = [st["lhs"]["l"] for _b, _s, st in pb.stmts() if st["k"] == "assign" and st["rv"]["k"] == "agg" and st["rv"].get("ak") == "closure" and st["rv"].get("closure") == fn]
        for bi, t in pb.calls():
            if (t.get("res") or "") == fn:
                continue
            for a in t["args"]:
                q = op_place(a)
                if q is None:
                    continue
                d = pix.single_def(q["l"]) if not q["p"] else None
                tgt = q["l"]
                if d and d[0] == "assign" and d[3]["rv"]["k"] == "ref":
                    tgt = d[3]["rv"]["p"]["l"]
                if tgt in cl:
                    return False
    return n > 0


def requires_instances_only(ix, s, exc):
    """Exception guard: every monomorphic instance of the (generic) function containing the site mentions `needle`
    in its instantiation (e.g. it is only ever instantiated with std::io::Cursor)."""
    needle = exc.get("params", {}).get("needle")
    prog = ACTX.get("prog")
    if prog is None or not needle:
        return False
    insts = [i for i in prog.instances if i.get("def") == s.fn and i.get("local")]
    return bool(insts) and all(needle in i["name"] for i in insts)


def source_name(ix, op):
    """Source-level name an operand was read from: the debug name of the first named local on its copy chain, or the
    last field name of a projected place."""
    p = op_place(op)
    names = ix.body.local_names()
    for _ in range(8):
        if p is None:
            return None
        fl = [pr for pr in p["p"] if isinstance(pr, dict) and "n" in pr and "f" in pr]
        if fl:
            return fl[-1]["n"]
        if p["l"] in names:
            return names[p["l"]].rsplit("~", 1)[-1]  # locals of an inlined helper carry `helper~name`
        d = ix.single_def(p["l"])
        if d and d[0] == "call" and d[3]["args"] and any(ix.callee(d[3]).endswith(x) for x in ("Deref::deref", "DerefMut::deref_mut", "::deref", "::as_slice", "::as_ref", "::as_str", "::as_bytes", "::iter", "::borrow")):
            p = op_place(d[3]["args"][0])
            continue
        if not d or d[0] != "assign" or d[3]["rv"]["k"] not in ("use", "cast", "ref"):
            return None
        p = d[3]["rv"]["p"] if d[3]["rv"]["k"] == "ref" else op_place(d[3]["rv"]["a"])
    return None


def requires_dominating_eq(ix, s, exc):
    """Exception guard: the site is dominated by the true edge of a comparison `<place ending in field> == <const>`."""
    prm = exc.get("params", {})
    field, value = prm.get("field"), prm.get("value")

    def pred(dop, val, par):
        r = ix.resolve(dop)
        if r[0] == "rv" and r[1]["k"] == "bin" and r[1]["op"] == "Eq":
            for x, y in ((r[1]["a"], r[1]["b"]), (r[1]["b"], r[1]["a"])):
                cy = ix.resolve(y)
                nm = source_name(ix, x)
                if cy[0] == "const" and cy[1] == value and nm == field:
                    return val == 1 or (isinstance(val, tuple) and val[0] == "not" and val[1] == (0,))
        return False

    return guard_dominates(ix, s.bb, pred)


def requires_sizeof_equals_wire(ix, s, exc):
    """Exception guard: the in-memory size of a binrw struct equals the number of bytes its reader consumes, so
    `buffer.len() - size_of::<T>()` after a successful `T::read` from the start of `buffer` cannot underflow."""
    prm = exc.get("params", {})
    prog, wire = ACTX.get("prog"), ACTX.get("wire")
    if prog is None or wire is None:
        return False
    from . import wire as W

    wm = W.WireModel(wire, prog)
    it = wm.find_item(prm.get("item", ""))
    adt = prog.adts.get(prm.get("adt", ""))
    if not it or not adt:
        return False
    try:
        ws = wm.item_size(it)
    except Exception:
        return False
    if not (isinstance(ws, int) and ws == int(adt.get("size", -1))):
        return False
    # the subtraction is size_of::<adt>() from len() of the parameter, after the read of that type
    t = ix.body.term(s.bb)
    ops = t.get("mops", [])
    if len(ops) != 2:
        return False
    rb = ix.resolve(ops[1])
    okb = rb[0] == "call" and ix.callee(rb[1]).endswith("mem::size_of") and ((rb[1]["f"].get("k") or {}).get("ga") or [None])[0] == prm.get("adt")
    # the same number through a named constant (`const HEADER_SIZE: usize = size_of::<T>()` is evaluated by the compiler)
    okb = okb or (rb[0] == "const" and rb[1] == ws)
    reads = [bi for bi, tt in ix.body.calls() if "BinRead" in ix.callee(tt) and prm.get("adt") in " ".join((tt["f"].get("k") or {}).get("ga", []))]
    return okb and len_of(ix, ops[0]) is not None and any(ix.body.dominates(bi, s.bb) for bi in reads)


REQUIRES = {"sizeof-equals-wire": requires_sizeof_equals_wire, "ne-len-guard": requires_ne_len_guard, "const-arg": requires_const_arg, "instances-only": requires_instances_only, "dominating-eq": requires_dominating_eq}
