"""PANIC rule family: crash constructs reachable from untrusted-input entry points (C17, C18).

scan(prog, entry_defs) -> list of Site for every panic-capable construct in local, user-written code that is
reachable in the monomorphic call graph from the entry points, each with the discharge (if any) that the analysis
could establish.  Sites inside derive/attribute expansions are attributed to binrw/bitflags (trusted base) and
are not reported; user expressions written inside attributes keep their own spans and are ordinary sites.
"""
import re
from collections import defaultdict

from .mir import const_int, is_user_span, op_place

UNWRAP_RE = re.compile(r"(option::Option|result::Result)::<.*>::(unwrap|expect|unwrap_err|expect_err|unwrap_unchecked)$")
PANIC_RE = re.compile(r"(^|::)(panicking::(panic|panic_fmt|panic_explicit|panic_display|assert_failed|assert_failed_inner|unreachable_display|panic_nounwind|panic_str_2015|panic_bounds_check)|rt::begin_panic|rt::panic_fmt|option::unwrap_failed|option::expect_failed|result::unwrap_failed|process::abort|process::exit|intrinsics::abort)$")
SLICE_PRE = {
    "copy_from_slice": "lengths must match",
    "clone_from_slice": "lengths must match",
    "split_at": "mid <= len",
    "split_at_mut": "mid <= len",
    "remove": "index < len",
    "insert": "index <= len",
    "swap_remove": "index < len",
    "drain": "range within len",
    "split_off": "at <= len",
    "swap": "indices < len",
    "chunks": "chunk size != 0",
    "chunks_exact": "chunk size != 0",
    "chunks_mut": "chunk size != 0",
    "windows": "size != 0",
    "step_by": "step != 0",
    "borrow": "not mutably borrowed",
    "borrow_mut": "not borrowed",
    "copy_within": "range within len",
    "rotate_left": "mid <= len",
    "rotate_right": "k <= len",
    "from_digit": "radix <= 36",
    "split_first_chunk": None,
}
SLICE_PRE_OWNERS = ("slice::<impl [T]>", "vec::Vec::<T, A>", "vec::Vec::<T>", "string::String", "str::<impl str>", "cell::RefCell::<T>", "iter::Iterator", "iter::traits::iterator::Iterator", "collections::VecDeque", "char::methods::<impl char>")
ALLOC_FNS = {"from_elem": 1, "with_capacity": 0, "with_capacity_in": 0, "reserve": 1, "reserve_exact": 1, "resize": 1, "resize_with": 1, "repeat": 1}
LEAK_RE = re.compile(r"(mem::forget|boxed::Box::<.*>::leak|mem::ManuallyDrop::<.*>::new|::into_raw|::into_raw_parts)$")


class Site:
    __slots__ = ("kind", "fn", "file", "line", "detail", "bb", "discharge", "key", "operands", "macros")

    def __init__(self, kind, fn, sp, detail, bb, operands=None):
        self.kind = kind
        self.fn = fn
        at = sp.get("at", "?:0:0")
        parts = at.rsplit(":", 2)
        self.file = parts[0]
        try:
            self.line = int(parts[1])
        except Exception:
            self.line = 0
        self.macros = [m for m in sp.get("mx", [])]
        self.detail = detail
        self.bb = bb
        self.discharge = None
        self.operands = operands or []
        self.key = f"{kind}|{fn}|{detail}"

    def __repr__(self):
        return f"<{self.kind} {self.fn} {self.file}:{self.line} {self.detail} {self.discharge or ''}>"


def short_callee(c):
    c = re.sub(r"^(core|alloc|std)::", "", c)
    return c


def classify_call(t):
    """(kind, detail) for a call terminator or None."""
    res = t.get("res") or (t["f"].get("k") or {}).get("fn") or ""
    decl = (t["f"].get("k") or {}).get("fn") or res
    if t.get("resl"):
        return None
    if UNWRAP_RE.search(res):
        m = UNWRAP_RE.search(res)
        # type of the unwrapped value gives the key its type-level detail
        arg_ty = ""
        if t["args"]:
            p = op_place(t["args"][0])
            if p:
                arg_ty = p["ty"]
            elif "k" in t["args"][0]:
                arg_ty = t["args"][0]["k"].get("ty", "")
        return "unwrap", f"{m.group(2)} {arg_ty}"
    if PANIC_RE.search(res):
        return "panic", short_callee(res).split("::")[-1]
    if decl.endswith("ops::Index::index") or decl.endswith("ops::IndexMut::index_mut") or decl.endswith("ops::index::Index::index") or decl.endswith("ops::index::IndexMut::index_mut"):
        ga = (t["f"].get("k") or {}).get("ga", [])
        return "index", " ".join(ga[:2]) if ga else short_callee(res)
    last = res.split("::")[-1]
    if last in SLICE_PRE and any(o in res for o in SLICE_PRE_OWNERS):
        return "slice-pre", short_callee(res)
    if last in ALLOC_FNS and ("vec::" in res or "string::String" in res or "slice::" in res or "str::" in res or "collections::" in res):
        return "alloc", short_callee(res)
    if LEAK_RE.search(res):
        return "leak", short_callee(res)
    return None


def scan_body(body):
    """All panic-capable sites of one body (user spans only)."""
    sites = []
    for bi, blk in enumerate(body.blocks):
        if blk["cleanup"]:
            continue
        t = blk["t"]
        k = t["k"]
        if k == "call":
            if not is_user_span(t["sp"]):
                continue
            c = classify_call(t)
            if c:
                sites.append(Site(c[0], body.name, t["sp"], c[1], bi, t["args"]))
        elif k == "assert":
            if not is_user_span(t["sp"]):
                continue
            msg = t["msg"]
            if msg == "BoundsCheck":
                idx_ty = ""
                sites.append(Site("bounds", body.name, t["sp"], "BoundsCheck" + idx_ty, bi, t["mops"]))
            elif msg.startswith("Overflow:"):
                op = msg.split(":")[1]
                if op in ("Add", "Mul"):
                    sites.append(Site("arith-addmul", body.name, t["sp"], op, bi, t["mops"]))
                else:
                    sites.append(Site("arith", body.name, t["sp"], op, bi, t["mops"]))
            elif msg in ("OverflowNeg", "DivisionByZero", "RemainderByZero"):
                sites.append(Site("arith", body.name, t["sp"], msg, bi, t["mops"]))
            else:
                sites.append(Site("assert-other", body.name, t["sp"], msg, bi, t["mops"]))
    return sites


def local_sccs(prog, reach_ids):
    """Recursion: SCCs (size>1 or self loop) among reachable local instances, by def."""
    g = defaultdict(set)
    for n in reach_ids:
        inst = prog.instances[n]
        if not inst["local"]:
            continue
        for _bb, c, _k in inst["calls"]:
            ci = prog.instances[c]
            if ci["local"] and c in reach_ids:
                g[inst["def"]].add(ci["def"])
    # via external generic instances (e.g. Iterator::map(closure) -> closure): collapse external hops
    ext_reach = {}

    def ext_targets(n, seen):
        out = set()
        inst = prog.instances[n]
        for _bb, c, _k in inst["calls"]:
            if c in seen:
                continue
            seen.add(c)
            ci = prog.instances[c]
            if ci["local"]:
                out.add(ci["def"])
            else:
                out |= ext_targets(c, seen)
        return out

    for n in reach_ids:
        inst = prog.instances[n]
        if inst["local"]:
            for _bb, c, _k in inst["calls"]:
                ci = prog.instances[c]
                if not ci["local"]:
                    if c not in ext_reach:
                        ext_reach[c] = ext_targets(c, {c})
                    g[inst["def"]] |= ext_reach[c]
    # Tarjan
    index = {}
    low = {}
    onst = set()
    st = []
    out = []
    counter = [0]
    import sys

    sys.setrecursionlimit(10000)

    def sc(v):
        index[v] = low[v] = counter[0]
        counter[0] += 1
        st.append(v)
        onst.add(v)
        for w in g.get(v, ()):
            if w not in index:
                sc(w)
                low[v] = min(low[v], low[w])
            elif w in onst:
                low[v] = min(low[v], index[w])
        if low[v] == index[v]:
            comp = []
            while True:
                w = st.pop()
                onst.discard(w)
                comp.append(w)
                if w == v:
                    break
            if len(comp) > 1 or v in g.get(v, ()):
                out.append(sorted(comp))

    for v in list(g):
        if v not in index:
            sc(v)
    return out


def scan(prog, entry_defs):
    reach, parent = prog.reach(entry_defs)
    defs = {}
    for n in reach:
        inst = prog.instances[n]
        if inst["local"] and inst["kind"] == "item" and inst["def"] in prog.bodies:
            defs.setdefault(inst["def"], n)
    sites = []
    for d, n in sorted(defs.items()):
        b = prog.bodies[d]
        for s in scan_body(b):
            sites.append((s, n))
    return sites, reach, parent, defs


# ------------------------------------------------------------------------------------------------
# Discharges D1..D9: idioms under which a site cannot fire.  Each returns a short reason or None.

INT_BITS = {"u8": 8, "i8": 8, "u16": 16, "i16": 16, "u32": 32, "i32": 32, "u64": 64, "i64": 64, "u128": 128, "i128": 128, "usize": 64, "isize": 64}


class BodyIndex:
    """Def-use helpers for one body (flow-insensitive; temporaries have one definition)."""

    def __init__(self, body):
        self.body = body
        self.defs = body.defs()

    def single_def(self, local):
        d = self.defs.get(local, [])
        whole = [x for x in d if (x[0] == "call" and not x[3]["dest"]["p"]) or (x[0] == "assign" and not x[3]["lhs"]["p"])]
        if len(d) == 1 and len(whole) == 1:
            return whole[0]
        return None

    def resolve(self, op, depth=0):
        """Follow copies/moves/casts of an operand back to its defining rvalue/call.
        Returns ('const', value) | ('rv', rvalue, bb) | ('call', term, bb) | ('local', n) | ('place', place)."""
        if depth > 12:
            return ("unknown",)
        v = const_int(op)
        if v is not None:
            return ("const", v)
        p = op_place(op)
        if p is None:
            return ("unknown",)
        if p["p"]:
            return ("place", p)
        l = p["l"]
        if 1 <= l <= self.body.argc:
            return ("param", l)
        d = self.single_def(l)
        if d is None:
            return ("local", l)
        if d[0] == "call":
            return ("call", d[3], d[1])
        rv = d[3]["rv"]
        if rv["k"] == "use":
            return self.resolve(rv["a"], depth + 1)
        if rv["k"] == "cast" and rv["ck"] in ("IntToInt",):
            inner = self.resolve(rv["a"], depth + 1)
            if inner[0] == "const":
                return inner
            return ("cast", rv, d[1], inner)
        return ("rv", rv, d[1])

    def callee(self, t):
        return t.get("res") or (t["f"].get("k") or {}).get("fn") or ""


def upper_bound(ix, op, depth=0):
    """A constant strict upper bound for an integer operand, or None.  Only masks, remainders, narrow casts, shifts."""
    if depth > 8:
        return None
    r = ix.resolve(op)
    if r[0] == "const":
        return r[1] + 1 if r[1] >= 0 else None
    if r[0] == "cast":
        frm = r[1]["from"]
        inner = upper_bound(ix, r[1]["a"], depth + 1)
        width = INT_BITS.get(frm)
        if frm.startswith("u") and width and width <= 16:
            return min(inner, 1 << width) if inner else 1 << width
        return inner if frm.startswith("u") else None
    if r[0] == "rv":
        rv = r[1]
        if rv["k"] == "bin":
            op_ = rv["op"]
            a, b = rv["a"], rv["b"]
            if op_ == "BitAnd":
                for x in (a, b):
                    v = const_int(x)
                    if v is not None and v >= 0:
                        return v + 1
                ua, ub = upper_bound(ix, a, depth + 1), upper_bound(ix, b, depth + 1)
                cands = [u for u in (ua, ub) if u]
                return min(cands) if cands else None
            if op_ == "Rem":
                v = const_int(b)
                if v and v > 0:
                    return v
            if op_ in ("Shr", "ShrUnchecked"):
                v = const_int(b)
                ua = upper_bound(ix, a, depth + 1)
                if v is not None and ua:
                    return ((ua - 1) >> v) + 1
                # width-based
                pa = op_place(a)
                if v is not None and pa and INT_BITS.get(pa["ty"]) and pa["ty"].startswith("u"):
                    return 1 << max(INT_BITS[pa["ty"]] - v, 0)
            if op_ == "Div":
                v = const_int(b)
                ua = upper_bound(ix, a, depth + 1)
                if v and v > 0 and ua:
                    return (ua - 1) // v + 1
    if r[0] == "place" or r[0] == "local" or r[0] == "param":
        pass
    # typed bound for narrow unsigned operands
    p = op_place(op)
    if p and p["ty"] in ("u8",):
        return 256
    if p and p["ty"] in ("bool",):
        return 2
    return None


def range_loop_var(ix, op):
    """If operand is the induction variable of `for i in lo..hi` (Range<usize>::next), return (lo_op, hi_op) else None."""
    p = op_place(op)
    if p is None or p["p"]:
        return None
    body = ix.body
    # i = ((_opt as Some).0)  with _opt = Iterator::next(&mut iter), iter = into_iter(Range{lo,hi})
    seen = 0
    l = p["l"]
    while seen < 6:
        seen += 1
        d = ix.defs.get(l, [])
        if len(d) != 1 or d[0][0] != "assign":
            return None
        rv = d[0][3]["rv"]
        if rv["k"] != "use":
            return None
        src = op_place(rv["a"])
        if src is None:
            return None
        if not src["p"]:
            l = src["l"]
            continue
        prj = src["p"]
        if len(prj) == 2 and isinstance(prj[0], dict) and prj[0].get("n") == "Some" and isinstance(prj[1], dict) and prj[1].get("f") == 0:
            optl = src["l"]
            dd = ix.defs.get(optl, [])
            if len(dd) != 1 or dd[0][0] != "call":
                return None
            t = dd[0][3]
            c = ix.callee(t)
            if not (c.endswith("range::<impl std::iter::Iterator for std::ops::Range<A>>::next") or c.endswith("Iterator for std::ops::Range<A>>::next")):
                return None
            # the iterator local: &mut iter
            a0 = op_place(t["args"][0])
            if a0 is None:
                return None
            itl = None
            cur_l = a0["l"] if not a0["p"] else None
            for _ in range(4):
                r0 = ix.single_def(cur_l) if cur_l is not None else None
                if r0 and r0[0] == "assign" and r0[3]["rv"]["k"] == "ref":
                    rp = r0[3]["rv"]["p"]
                    if not rp["p"]:
                        itl = rp["l"]
                        break
                    if rp["p"] == ["*"]:
                        cur_l = rp["l"]  # reborrow &mut *x
                        continue
                break
            if itl is None:
                return None
            # iter = move (into_iter result) ; into_iter(Range{lo,hi})
            cur = itl
            for _ in range(4):
                dd2 = ix.defs.get(cur, [])
                dd2 = [x for x in dd2 if not (x[0] == "assign" and x[3]["lhs"]["p"])]
                if len(dd2) != 1:
                    return None
                if dd2[0][0] == "call":
                    t2 = dd2[0][3]
                    if ix.callee(t2).endswith("::into_iter"):
                        rr = ix.resolve(t2["args"][0])
                        if rr[0] == "rv" and rr[1]["k"] == "agg" and rr[1].get("adt", "").endswith("ops::Range") and len(rr[1]["ops"]) == 2:
                            return rr[1]["ops"][0], rr[1]["ops"][1]
                    return None
                rv2 = dd2[0][3]["rv"]
                if rv2["k"] == "use" and op_place(rv2["a"]) and not op_place(rv2["a"])["p"]:
                    cur = op_place(rv2["a"])["l"]
                    continue
                return None
            return None
        return None
    return None


def len_of(ix, op):
    """If operand is `len()` of some container place, return a stable description of that place, else None."""
    r = ix.resolve(op)
    if r[0] == "call":
        c = ix.callee(r[1])
        if c.endswith("::len") and r[1]["args"]:
            return place_desc(ix, r[1]["args"][0])
    if r[0] == "rv" and r[1]["k"] == "un" and r[1]["op"] == "PtrMetadata":
        return place_desc(ix, r[1]["a"])
    if r[0] == "cast":
        return len_of(ix, r[1]["a"])
    return None


def place_desc(ix, op, depth=0):
    """Canonical string for the place an operand refers to, looking through refs/derefs/copies."""
    if depth > 8:
        return None
    p = op_place(op)
    if p is None:
        k = op.get("k") if isinstance(op, dict) else None
        if k and re.match(r"^&(mut )?\[[^;\]]+; \d+\]$", k.get("ty", "")):
            return "const:" + k["ty"].replace("mut ", "")
        return None

    def proj(pl):
        out = []
        for pr in pl["p"]:
            if pr == "*":
                continue
            if isinstance(pr, dict) and "f" in pr:
                out.append("." + str(pr.get("n", pr["f"])))
            elif isinstance(pr, dict) and "i" in pr:
                out.append("[_]")
            elif isinstance(pr, dict) and "ci" in pr:
                out.append(f"[{pr['ci']}]")
            elif isinstance(pr, dict) and "d" in pr:
                out.append(f"@{pr.get('n')}")
            else:
                out.append("?")
        return "".join(out)

    l = p["l"]
    suffix = proj(p)
    if 1 <= l <= ix.body.argc:
        return f"arg{l}{suffix}"
    d = ix.single_def(l)
    if d and d[0] == "assign":
        rv = d[3]["rv"]
        if rv["k"] in ("ref", "rawptr"):
            inner = place_desc(ix, {"c": rv["p"]}, depth + 1)
            return (inner + suffix) if inner else None
        if rv["k"] == "use":
            inner = place_desc(ix, rv["a"], depth + 1)
            return (inner + suffix) if inner else None
        if rv["k"] == "cast" and rv["ck"].startswith("PointerCoercion"):
            inner = place_desc(ix, rv["a"], depth + 1)
            return (inner + suffix) if inner else None
    if d and d[0] == "call":
        c = ix.callee(d[3])
        if any(c.endswith(s) for s in ("Deref::deref", "DerefMut::deref_mut", "::as_slice", "::as_mut_slice", "AsRef::as_ref", "::as_bytes", "::as_str", "::as_mut", "::as_ref", "Borrow::borrow", "::deref", "::deref_mut")) and d[3]["args"]:
            inner = place_desc(ix, d[3]["args"][0], depth + 1)
            return (inner + suffix) if inner else None
    return f"_{l}{suffix}"


def guard_dominates(ix, bb, pred):
    """Is there a dominating switch whose edge towards `bb` satisfies pred(discr_operand_resolution, taken_value_or_None)?"""
    body = ix.body
    idom = body.idom()
    cur = bb
    seen = 0
    while cur in idom and seen < 400:
        seen += 1
        par = idom[cur]
        if par == cur:
            break
        t = body.term(par)
        if t["k"] == "switch":
            # which edge of par leads (dominatingly) to cur?
            for v, tgt in t["arms"]:
                if tgt == cur or body.dominates(tgt, bb) and tgt != t["else"]:
                    if [x for x in t["arms"] if x[1] == tgt] == [[v, tgt]] and tgt != t["else"]:
                        if pred(t["a"], int(v), par):
                            return True
            if t["else"] == cur or (body.dominates(t["else"], bb) and all(a[1] != t["else"] for a in t["arms"])):
                if pred(t["a"], ("not", tuple(int(a[0]) for a in t["arms"])), par):
                    return True
        cur = par
    return False


def discharge(ix, s):
    k = s.kind
    ops = s.operands
    body = ix.body
    if k == "bounds":
        ln, idx = ops
        lc, ic = const_int(ln), None
        r = ix.resolve(idx)
        if r[0] == "const":
            ic = r[1]
        if lc is not None and ic is not None and 0 <= ic < lc:
            return "D1 constant index below constant length"
        ub = upper_bound(ix, idx)
        if lc is not None and ub is not None and ub <= lc:
            return "D2 index bounded by mask/remainder/width below the constant length"
        rl = range_loop_var(ix, idx)
        if rl:
            hi = ix.resolve(rl[1])
            if lc is not None and hi[0] == "const" and hi[1] <= lc:
                return "D3 induction variable of a constant range within the array length"
            hl = len_of(ix, rl[1])
            ll = len_of(ix, ln)
            if hl and ll and hl == ll:
                return "D3 induction variable bounded by len() of the same container"
        return None
    if k == "arith":
        if s.detail in ("Shl", "Shr"):
            sh = ix.resolve(ops[1])
            pa = op_place(ops[0])
            ty = pa["ty"] if pa else (ops[0].get("k") or {}).get("ty")
            bits = INT_BITS.get(ty)
            if sh[0] == "const" and bits and 0 <= sh[1] < bits:
                return "D2 constant shift amount below the operand width"
            ub = upper_bound(ix, ops[1])
            if ub is not None and bits and ub <= bits:
                return "D2 shift amount bounded below the operand width"
            return None
        if s.detail in ("DivisionByZero", "RemainderByZero"):
            # divisor is the operand compared with zero in the assert condition
            t = body.term(s.bb)
            cr = ix.resolve(t["cond"])
            if cr[0] == "rv" and cr[1]["k"] == "bin" and cr[1]["op"] == "Eq":
                for x in (cr[1]["a"], cr[1]["b"]):
                    d = ix.resolve(x)
                    if d[0] == "const" and d[1] != 0:
                        return "D2 non-zero constant divisor"
            return None
        if s.detail in ("Div", "Rem"):
            d = ix.resolve(ops[1])
            if d[0] == "const" and d[1] not in (0, -1):
                return "D2 constant divisor (no MIN / -1)"
            pa = op_place(ops[0])
            if pa and pa["ty"].startswith("u"):
                return "D2 unsigned division cannot overflow"
            return None
        if s.detail == "Sub":
            a, b = ops
            # a - min(a, _)
            rb = ix.resolve(b)
            if rb[0] == "call" and ix.callee(rb[1]).endswith("cmp::min"):
                da = place_desc(ix, a)
                if da and any(place_desc(ix, x) == da for x in rb[1]["args"]):
                    return "D4 subtrahend is min(minuend, _)"
            # len(x) - 1 dominated by !is_empty(x)
            la = len_of(ix, a)
            cb = ix.resolve(b)
            if la and cb[0] == "const" and cb[1] == 1:
                def pred(dop, val, par):
                    r = ix.resolve(dop)
                    if r[0] == "call" and ix.callee(r[1]).endswith("::is_empty") and place_desc(ix, r[1]["args"][0]) == la:
                        return val == 0
                    if r[0] == "rv" and r[1]["k"] == "un" and r[1]["op"] == "Not":
                        r2 = ix.resolve(r[1]["a"])
                        if r2[0] == "call" and ix.callee(r2[1]).endswith("::is_empty") and place_desc(ix, r2[1]["args"][0]) == la:
                            return val != 0 and val == 1
                    return False
                if guard_dominates(ix, s.bb, pred):
                    return "D4 len() - 1 under a dominating !is_empty() of the same value"
            return None
        return None
    if k == "unwrap":
        # D8: uninhabited error type
        if "std::convert::Infallible>" in s.detail and "Result<" in s.detail:
            return "D8 Result<_, Infallible> cannot be Err"
        a0 = ops[0] if ops else None
        r = ix.resolve(a0) if a0 else ("unknown",)
        if r[0] == "rv" and r[1]["k"] == "agg" and r[1].get("variant") in ("Some", "Ok"):
            return "D5 value constructed as Some/Ok"
        if r[0] == "call":
            c = ix.callee(r[1])
            # try_into() from a constant-width sub-slice into an array of the same width
            if c.endswith("TryInto<U>>::try_into") or c.endswith("::try_into"):
                ga = (r[1]["f"].get("k") or {}).get("ga", [])
                m = re.match(r"^\[u8; (\d+)\]$", ga[1]) if len(ga) > 1 else None
                src = ix.resolve(r[1]["args"][0])
                if m and src[0] == "call" and ix.callee(src[1]).endswith("::index"):
                    rg = ix.resolve(src[1]["args"][1])
                    if rg[0] == "rv" and rg[1]["k"] == "agg" and rg[1].get("adt", "").endswith("ops::Range"):
                        lo, hi = ix.resolve(rg[1]["ops"][0]), ix.resolve(rg[1]["ops"][1])
                        if lo[0] == "const" and hi[0] == "const" and hi[1] - lo[1] == int(m.group(1)):
                            return "D5 try_into from a constant-width sub-slice into an array of that width"
        # D5: dominated by is_some()/is_ok() of the same place
        dsc = place_desc(ix, a0) if a0 else None
        if dsc:
            def pred(dop, val, par):
                rr = ix.resolve(dop)
                if rr[0] == "call" and (ix.callee(rr[1]).endswith("::is_ok") or ix.callee(rr[1]).endswith("::is_some")) and place_desc(ix, rr[1]["args"][0]) == dsc:
                    return val != 0 and val == 1 or (isinstance(val, tuple) and 0 in val[1])
                return False
            if guard_dominates(ix, s.bb, pred):
                return "D5 dominated by is_ok()/is_some() of the same value"
        return None
    if k == "index":
        # container[index]
        if len(ops) < 2:
            return None
        cont, idx = ops
        cdesc = place_desc(ix, cont)
        r = ix.resolve(idx)
        # usize index
        rl = range_loop_var(ix, idx)
        if rl and cdesc:
            hl = len_of(ix, rl[1])
            if hl and hl == cdesc:
                return "D3 induction variable bounded by len() of the same container"
            # hi = len(container) - k
            hr = ix.resolve(rl[1])
            if hr[0] == "rv" and hr[1]["k"] == "use":
                hr = ix.resolve(hr[1]["a"])
            if hr[0] == "place" and len(hr[1]["p"]) == 1 and isinstance(hr[1]["p"][0], dict) and hr[1]["p"][0].get("f") == 0:
                # (tuple from SubWithOverflow).0
                d = ix.single_def(hr[1]["l"])
                if d and d[0] == "assign" and d[3]["rv"]["k"] == "bin" and d[3]["rv"]["op"].startswith("Sub"):
                    if len_of(ix, d[3]["rv"]["a"]) == cdesc and const_int(d[3]["rv"]["b"]) is not None:
                        return "D3 induction variable bounded by len() - k of the same container (the subtraction is a separate site)"
        # ranges
        if r[0] == "rv" and r[1]["k"] == "agg":
            adt = r[1].get("adt", "")
            o = r[1]["ops"]
            if adt.endswith("ops::RangeFrom") and cdesc:
                st = ix.resolve(o[0])
                if st[0] == "call" and any(ix.callee(st[1]).endswith(x) for x in ("::find", "::rfind")):
                    pass
                if _from_find(ix, o[0], cdesc):
                    return "D9 start position returned by find() on the same string"
            if adt.endswith("ops::Range") and cdesc:
                lo, hi = ix.resolve(o[0]), ix.resolve(o[1])
                if lo[0] == "const" and lo[1] == 0:
                    if _from_find(ix, o[1], cdesc):
                        return "D9 end position returned by find() on the same string"
                    if hi[0] == "call" and ix.callee(hi[1]).endswith("cmp::min"):
                        m_ = re.search(r"\[[^;\]]+; (\d+)\]", (op_place(cont) or {}).get("ty", ""))
                        for x in hi[1]["args"]:
                            if len_of(ix, x) == cdesc:
                                return "D4 range end is min(len(), _) of the same container"
                            xr = ix.resolve(x)
                            if m_ and xr[0] == "const" and xr[1] <= int(m_.group(1)):
                                return "D4 range end is min(constant <= array length, _)"
                # constant range within a constant-length array
                m = re.search(r"\[[^;\]]+; (\d+)\]", (op_place(cont) or {}).get("ty", ""))
                if lo[0] == "const" and hi[0] == "const" and m and lo[1] <= hi[1] <= int(m.group(1)):
                    return "D1 constant range within the array length"
            if adt.endswith("ops::RangeTo") and cdesc:
                hi = ix.resolve(o[0])
                m = re.search(r"\[[^;\]]+; (\d+)\]", (op_place(cont) or {}).get("ty", ""))
                if hi[0] == "const" and m and hi[1] <= int(m.group(1)):
                    return "D1 constant range within the array length"
        return None
    if k == "alloc":
        # size argument is a constant or a len() of existing data
        last = s.detail.split("::")[-1]
        argi = ALLOC_FNS.get(last, 0)
        if argi < len(ops):
            r = ix.resolve(ops[argi])
            if r[0] == "const":
                return "D6 constant allocation size"
            if len_of(ix, ops[argi]):
                return "D6 allocation size is len() of existing data"
        return None
    if k == "slice-pre":
        last = s.detail.split("::")[-1]
        if last in ("chunks", "chunks_exact", "chunks_mut", "windows", "step_by") and len(ops) >= 2:
            r = ix.resolve(ops[1])
            if r[0] == "const" and r[1] != 0:
                return "D2 non-zero constant size"
        return None
    return None


def _from_find(ix, op, cdesc):
    """op is the payload of Some(..) matched from find()/rfind() called on the container `cdesc`."""
    p = op_place(op)
    seen = 0
    while p is not None and seen < 6:
        seen += 1
        if p["p"]:
            prj = p["p"]
            if len(prj) == 2 and isinstance(prj[0], dict) and prj[0].get("n") == "Some":
                d = ix.single_def(p["l"])
                if d and d[0] == "call" and any(ix.callee(d[3]).endswith(x) for x in ("::find", "::rfind")):
                    return place_desc(ix, d[3]["args"][0]) == cdesc
            return False
        d = ix.single_def(p["l"])
        if not d or d[0] != "assign" or d[3]["rv"]["k"] != "use":
            return False
        p = op_place(d[3]["rv"]["a"])
    return False


def producer(ix, s):
    """Short name of the call that produced the unwrapped / indexed value (type-level key detail)."""
    if not s.operands:
        return ""
    r = ix.resolve(s.operands[0])
    if r[0] == "call":
        c = ix.callee(r[1])
        c = re.sub(r"<[^<>]*>", "", c)
        c = re.sub(r"<[^<>]*>", "", c)
        return "<-" + "::".join(c.split("::")[-2:])
    if r[0] == "param":
        return "<-param"
    return ""


def index_shape(ix, s):
    if len(s.operands) < 2:
        return ""
    r = ix.resolve(s.operands[1])
    if r[0] == "const":
        return f"[{r[1]}]"
    if r[0] == "rv" and r[1]["k"] == "agg":
        adt = r[1].get("adt", "").split("::")[-1]
        parts = []
        for o in r[1]["ops"]:
            rr = ix.resolve(o)
            parts.append(str(rr[1]) if rr[0] == "const" else "_")
        return f"[{adt} {','.join(parts)}]"
    return "[_]"


def analyse(prog, entry_defs):
    """Full PANIC analysis: sites with discharges and final keys."""
    sites, reach, parent, defs = scan(prog, entry_defs)
    cache = {}
    out = []
    for s, n in sites:
        ix = cache.get(s.fn)
        if ix is None:
            ix = cache[s.fn] = BodyIndex(prog.bodies[s.fn])
        try:
            s.discharge = discharge(ix, s)
        except Exception as e:  # a discharge that cannot be evaluated is no discharge
            s.discharge = None
        if s.kind == "unwrap":
            s.key = f"{s.kind}|{s.fn}|{s.detail}{producer(ix, s)}"
        elif s.kind in ("index",):
            s.key = f"{s.kind}|{s.fn}|{s.detail}{index_shape(ix, s)}"
        elif s.kind == "bounds":
            r = ix.resolve(s.operands[1])
            lc = const_int(s.operands[0])
            s.key = f"{s.kind}|{s.fn}|len={lc if lc is not None else '_'} idx={r[1] if r[0]=='const' else '_'}"
        out.append((s, n))
    return out, reach, parent, defs


def expr_key(ix, op, depth=0):
    """Canonical structural key of a scalar operand (consts, places, +,-,*, casts), for comparing two operands."""
    if depth > 6:
        return None
    v = const_int(op)
    if v is not None:
        return ("c", v)
    p = op_place(op)
    if p is None:
        return None
    if p["p"]:
        # (tuple from a checked op).0
        if len(p["p"]) == 1 and isinstance(p["p"][0], dict) and p["p"][0].get("f") == 0:
            d = ix.single_def(p["l"])
            if d and d[0] == "assign" and d[3]["rv"]["k"] == "bin" and d[3]["rv"]["op"].endswith("WithOverflow"):
                rv = d[3]["rv"]
                return (rv["op"][: -len("WithOverflow")], expr_key(ix, rv["a"], depth + 1), expr_key(ix, rv["b"], depth + 1))
        return ("pl", place_desc(ix, op))
    l = p["l"]
    if 1 <= l <= ix.body.argc:
        return ("pl", f"arg{l}")
    d = ix.single_def(l)
    if d is None:
        return ("pl", f"_{l}")
    if d[0] == "call":
        c = ix.callee(d[3])
        if c.endswith("::len") and d[3]["args"]:
            return ("len", place_desc(ix, d[3]["args"][0]))
        return ("pl", f"_{l}")
    rv = d[3]["rv"]
    if rv["k"] == "use":
        return expr_key(ix, rv["a"], depth + 1)
    if rv["k"] == "cast":
        return expr_key(ix, rv["a"], depth + 1)
    if rv["k"] == "bin":
        return (rv["op"].replace("WithOverflow", ""), expr_key(ix, rv["a"], depth + 1), expr_key(ix, rv["b"], depth + 1))
    return ("pl", f"_{l}")


def requires_ne_len_guard(ix, s):
    """Exception guard: the index expression of `container[e]` is compared `e == container.len()` by a dominating
    branch whose not-equal edge leads to the site."""
    if len(s.operands) < 2:
        return False
    cdesc = place_desc(ix, s.operands[0])
    ek = expr_key(ix, s.operands[1])
    if not cdesc or not ek:
        return False

    def pred(dop, val, par):
        r = ix.resolve(dop)
        if r[0] == "rv" and r[1]["k"] == "bin" and r[1]["op"] == "Eq":
            a, b = r[1]["a"], r[1]["b"]
            for x, y in ((a, b), (b, a)):
                if expr_key(ix, x) == ek and len_of(ix, y) == cdesc:
                    return val == 0
        return False

    return guard_dominates(ix, s.bb, pred)


REQUIRES = {"ne-len-guard": requires_ne_len_guard}
