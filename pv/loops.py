"""Termination arguments for natural loops, read off the CFG.

Every natural loop (pv.sym.Explorer.loops) is given one of the structural arguments below, or none:

  ITER     some call `Iterator::next` / `next_back` on a finite std iterator dominates every latch of the loop (it runs
           on every iteration) and the switch on its result's discriminant has an edge leaving the loop
  COUNTER  a local is stepped by a positive constant (`c += k` / `c -= k`, or `c -= min(c, n)` with n a positive
           constant or a length) in a block dominating every latch, and an
           edge leaving the loop is controlled by an ordering comparison of that local with a loop-invariant value, taken
           in the direction the counter moves
  ACCESS   a local is stepped up by a positive constant in a block dominating every latch and, also on every iteration,
           indexes a slice / Vec through a bounds-checked access (`v[c]`, `v.get(c)` whose result reaches an exit test):
           at most len(v) iterations
  READ     a call that consumes input from a cursor (binrw reads, the crate's scalar read helpers) dominates every latch
           and the loop does not reposition the cursor: at most one iteration per remaining input byte (a failed read
           returns an error or panics; zero-width reads are not in the list)
  None     no argument recognised: the rule using this module decides what to do (table of confirmed instances)

Nothing here evaluates the loop; the arguments are necessary-condition shapes of bounded loops (a counter that stops
being stepped on some path, an exit test that no longer looks at the counter, a `next()` that moved under a condition
all lose their classification).
"""
from .mir import const_int, op_place
from .panic import BodyIndex
from .prov import derive
from .sym import Explorer

import re

CONSUMING_READ = re.compile(
    r"(binrw::BinReaderExt::read_(le|be|ne)(_args)?$|binrw::BinRead>::read(_options|_le|_be|_ne|_args|_le_args|_be_args)?$|binrw::BinRead::read(_options|_le|_be|_args)?$"
    r"|sqpack::read_data_block_patch$|sqpack::data::read_data_block$"  # consume at least the 16-byte block header (their relative seek is forward unless a listed PANIC subtraction wraps)
    r"|exd::EXD::read_data_raw$|havok::byte_reader::ByteReader::<'a>::read(_u16_le|_f32_le|_bytes)?$|HavokBinaryTagFileReader::<'a>::read_packed_int$)"
)
INFINITE_ITERATORS = ("RangeFrom", "Repeat", "Cycle", "Successors", "FromFn", "RepeatWith", "iter::Once")  # Once is finite but never loops; listed to keep the table honest


def _exit_targets(body, blocks, bi):
    return [s_ for s_ in body.succ(bi) if s_ not in blocks and not body.blocks[s_]["cleanup"] and body.blocks[s_]["t"]["k"] != "unreachable"]


def _strip_cast(ix, op, depth=0):
    """Follow copies and integer casts of an operand to a multi-definition local; returns the local or None."""
    if depth > 8:
        return None
    r = ix.resolve(op)
    if r[0] == "local":
        return r[1]
    if r[0] == "cast" and len(r) >= 4 and isinstance(r[3], tuple) and r[3][0] == "local":
        return r[3][1]
    if r[0] == "rv" and r[1]["k"] in ("cast", "use") and isinstance(r[1].get("a"), dict):
        return _strip_cast(ix, r[1]["a"], depth + 1)
    return None


def classify(body):
    """-> list of dicts {head, blocks, kind, detail} for every natural loop of the body."""
    ex = Explorer(body)
    loops = ex.loops()
    if not loops:
        return []
    ix = BodyIndex(body)
    out = []
    for h, (blocks, assigned) in sorted(loops.items()):
        latches = [p for p in body.pred(h) if p in blocks]
        mut_borrowed = set()
        for bi in blocks:
            for st in body.blocks[bi]["s"]:
                rv = st.get("rv") or {}
                if st["k"] == "assign" and rv.get("k") in ("ref", "rawptr") and rv.get("mut") not in (False, "Not", "Const", None):
                    mut_borrowed.add(rv["p"]["l"])
        kind, detail = None, ""
        # ---- ITER
        for bi in sorted(blocks):
            t = body.blocks[bi]["t"]
            if t["k"] != "call" or "dest" not in t:
                continue
            c = t.get("res") or ""
            if c.split("::")[-1] not in ("next", "next_back") or "Iterator" not in c and "iter" not in c:
                continue
            if any(x in c for x in INFINITE_ITERATORS):
                continue
            if not all(body.dominates(bi, l_) for l_ in latches):
                continue
            dl = t["dest"]["l"]
            for si in blocks:
                ts = body.blocks[si]["t"]
                if ts["k"] != "switch" or not _exit_targets(body, blocks, si):
                    continue
                r = ix.resolve(ts["a"])
                if r[0] == "rv" and r[1]["k"] == "discr" and r[1]["p"]["l"] == dl and not [pr for pr in r[1]["p"]["p"] if pr != "*"]:
                    kind, detail = "ITER", c
                    break
            if kind:
                break
        # ---- COUNTER
        steps = {}  # local -> (direction, block)
        exact_down = set()  # counters that move down by one or by min(c, n): they reach 0 without passing it
        if not kind:
            for bi in blocks:
                for st in body.blocks[bi]["s"]:
                    if st["k"] != "assign" or st["lhs"]["p"]:
                        continue
                    c_ = st["lhs"]["l"]
                    rv = st["rv"]
                    binrv = None
                    if rv["k"] == "use":
                        p = op_place(rv["a"])
                        if p and len(p["p"]) == 1 and isinstance(p["p"][0], dict) and p["p"][0].get("f") == 0:
                            d0 = ix.single_def(p["l"])
                            if d0 and d0[0] == "assign" and d0[3]["rv"]["k"] == "bin":
                                binrv = d0[3]["rv"]
                    elif rv["k"] == "bin":
                        binrv = rv
                    if not binrv:
                        continue
                    op = binrv["op"].replace("WithOverflow", "").replace("Unchecked", "")
                    if op not in ("Add", "Sub"):
                        continue
                    k = const_int(binrv["b"])
                    src = _strip_cast(ix, binrv["a"])
                    if op == "Add" and k is None:
                        k, src = const_int(binrv["a"]), _strip_cast(ix, binrv["b"])
                    if k is None and op == "Sub" and src == c_:
                        # c -= min(c, positive): never underflows and shrinks c while c > 0
                        rk = ix.resolve(binrv["b"])
                        if rk[0] == "call" and (ix.callee(rk[1]) or "").split("::")[-1] == "min" and len(rk[1]["args"]) == 2:
                            a0, a1 = rk[1]["args"]
                            for me, other in ((a0, a1), (a1, a0)):
                                if _strip_cast(ix, me) == c_:
                                    ro = ix.resolve(other)
                                    if (ro[0] == "const" and ro[1] > 0) or (ro[0] == "call" and (ix.callee(ro[1]) or "").split("::")[-1] == "len"):
                                        k = 1
                                        exact_down.add(c_)
                    if k is None or k <= 0 or src != c_:
                        continue
                    if all(body.dominates(bi, l_) for l_ in latches):
                        steps[c_] = ("up" if op == "Add" else "down", bi)
                        if op == "Sub" and k == 1:
                            exact_down.add(c_)
            for si in sorted(blocks):
                ts = body.blocks[si]["t"]
                if ts["k"] != "switch" or kind:
                    continue
                outs = _exit_targets(body, blocks, si)
                if not outs:
                    continue
                r = ix.resolve(ts["a"])
                if r[0] == "rv" and r[1]["k"] == "bin" and r[1]["op"] in ("Ne", "Eq"):
                    # `while c != 0` with a counter that moves down by exactly one, or by min(c, n): it reaches 0 exactly
                    for cnt_op, other in ((r[1]["a"], r[1]["b"]), (r[1]["b"], r[1]["a"])):
                        c_ = _strip_cast(ix, cnt_op)
                        if c_ in steps and steps[c_][0] == "down" and c_ in exact_down and const_int(other) == 0:
                            false_t = next((tg for v, tg in ts["arms"] if int(v) == 0), None)
                            leaves_on = (false_t in outs) if r[1]["op"] == "Ne" else (ts.get("else") in outs)
                            if leaves_on:
                                kind, detail = "COUNTER", f"{body.local_names().get(c_) or '_' + str(c_)} stepped down to exactly 0, exit on {r[1]['op']} 0"
                    continue
                if not (r[0] == "rv" and r[1]["k"] == "bin" and r[1]["op"] in ("Lt", "Le", "Gt", "Ge")):
                    continue
                a, b_ = r[1]["a"], r[1]["b"]
                for cnt_op, other, left in ((a, b_, True), (b_, a, False)):
                    c_ = _strip_cast(ix, cnt_op)
                    if c_ not in steps:
                        continue
                    d_ = derive(ix, other)
                    varying = {l for l in d_.locals if l in assigned and (ix.single_def(l) is None or l in mut_borrowed) and not (1 <= l <= body.argc)}
                    if varying:
                        continue
                    # exit on `true` (else-target) or on `false` (arm 0)?
                    false_t = next((tg for v, tg in ts["arms"] if int(v) == 0), None)
                    true_t = ts.get("else")
                    exit_on_true = true_t in outs
                    exit_on_false = false_t in outs
                    op = r[1]["op"]
                    big_when_true = (op in ("Gt", "Ge")) == left  # the comparison is true when the counter is large
                    direction = steps[c_][0]
                    ok = (direction == "up" and ((big_when_true and exit_on_true) or (not big_when_true and exit_on_false))) or (direction == "down" and ((big_when_true and exit_on_false) or (not big_when_true and exit_on_true)))
                    if ok:
                        nm = body.local_names().get(c_) or f"_{c_}"
                        kind, detail = "COUNTER", f"{nm} stepped {direction}, exit on {op}"
                        break
        # ---- ACCESS
        if not kind:
            for c_, (direction, _sb) in sorted(steps.items()):
                if direction != "up" or kind:
                    continue
                for bi in sorted(blocks):
                    t = body.blocks[bi]["t"]
                    if not all(body.dominates(bi, l_) for l_ in latches):
                        continue
                    if t["k"] == "call" and len(t.get("args", [])) >= 2:
                        c = t.get("res") or ""
                        last = c.split("::")[-1]
                        if last in ("index", "index_mut", "get", "get_mut") and ("slice" in c or "Vec" in c or "Index" in c) and _strip_cast(ix, t["args"][1]) == c_:
                            if last.startswith("get"):
                                # the None result must be able to leave the loop
                                leaves = False
                                for si in blocks:
                                    ts = body.blocks[si]["t"]
                                    if ts["k"] == "switch" and _exit_targets(body, blocks, si) and any(x.split("::")[-1] in ("get", "get_mut") for x in derive(ix, ts["a"]).calls):
                                        leaves = True
                                if not leaves:
                                    continue
                            kind, detail = "ACCESS", f"{body.local_names().get(c_) or '_' + str(c_)} stepped up and used in {last}() on every iteration"
                            break
                    if t["k"] == "assert" and t.get("msg", "").startswith("BoundsCheck") and any(_strip_cast(ix, m) == c_ for m in t.get("mops", [])):
                        kind, detail = "ACCESS", f"{body.local_names().get(c_) or '_' + str(c_)} stepped up and bounds-checked on every iteration"
                        break
        # ---- READ
        if not kind:
            seeks = [bi for bi in blocks if body.blocks[bi]["t"]["k"] == "call" and (body.blocks[bi]["t"].get("res") or "").endswith("Seek>::seek")]
            for bi in sorted(blocks):
                t = body.blocks[bi]["t"]
                if t["k"] == "call" and CONSUMING_READ.search(t.get("res") or "") and all(body.dominates(bi, l_) for l_ in latches):
                    if seeks:
                        detail = "a consuming read runs on every iteration but the loop also seeks"
                    else:
                        kind, detail = "READ", (t.get("res") or "").split("::")[-1]
                    break
        def _sig(t):
            ga = ((t.get("f") or {}).get("k") or {}).get("ga") or []
            return (t.get("res") or "") + ("<" + ",".join(ga) + ">" if ga else "")

        dom_calls = [_sig(body.blocks[bi]["t"]) for bi in sorted(blocks) if body.blocks[bi]["t"]["k"] == "call" and all(body.dominates(bi, l_) for l_ in latches)]
        out.append(dict(head=h, blocks=blocks, kind=kind, detail=detail, size=len(blocks), dom_calls=dom_calls))
    return out


def stepped_up_counters(body):
    """Locals that some loop of the body steps up by a positive constant on every iteration (COUNTER/ACCESS shape)."""
    ix = BodyIndex(body)
    out = set()
    for h, (blocks, _assigned) in Explorer(body).loops().items():
        latches = [p for p in body.pred(h) if p in blocks]
        for bi in blocks:
            for st in body.blocks[bi]["s"]:
                if st["k"] != "assign" or st["lhs"]["p"]:
                    continue
                rv = st["rv"]
                binrv = None
                if rv["k"] == "use":
                    p = op_place(rv["a"])
                    if p and len(p["p"]) == 1 and isinstance(p["p"][0], dict) and p["p"][0].get("f") == 0:
                        d0 = ix.single_def(p["l"])
                        if d0 and d0[0] == "assign" and d0[3]["rv"]["k"] == "bin":
                            binrv = d0[3]["rv"]
                elif rv["k"] == "bin":
                    binrv = rv
                if not binrv or binrv["op"].replace("WithOverflow", "").replace("Unchecked", "") != "Add":
                    continue
                k, src = const_int(binrv["b"]), _strip_cast(ix, binrv["a"])
                if k is None:
                    k, src = const_int(binrv["a"]), _strip_cast(ix, binrv["b"])
                if k is not None and k > 0 and src == st["lhs"]["l"] and all(body.dominates(bi, l_) for l_ in latches):
                    out.add(st["lhs"]["l"])
    return out


def trip_counts(body):
    """head -> (N, blocks, next-call block, element operands or None) for loops that run a statically known number of times: a `for` over a
    fixed-size array (by value, `iter()` or `iter_mut()`) or over a range with constant bounds, whose only exits are the
    exhaustion of that iterator and error/return edges.  Used to count effects written once in a loop over an array."""
    import re as _re

    ix = BodyIndex(body)
    out = {}
    for lp in classify(body):
        if lp["kind"] != "ITER":
            continue
        blocks = lp["blocks"]
        latches = [p for p in body.pred(lp["head"]) if p in blocks]
        for bi in sorted(blocks):
            t = body.blocks[bi]["t"]
            if t["k"] != "call" or (t.get("res") or "").split("::")[-1] != "next" or not all(body.dominates(bi, l_) for l_ in latches):
                continue
            # the iterator operand -> the local holding the iterator -> how it was made
            d = derive(ix, t["args"][0]) if t.get("args") else None
            if d is None:
                continue
            n = None
            elems = None
            for c in d.calls:
                last = c.split("::")[-1]
                if last in ("into_iter", "iter", "iter_mut"):
                    # find that call and the type of its argument
                    for _bj, tj in body.calls():
                        if (tj.get("res") or "") == c and tj.get("args"):
                            q = op_place(tj["args"][0])
                            ty = (q or {}).get("ty") or ((tj["args"][0].get("k") or {}).get("ty") if isinstance(tj["args"][0], dict) else "") or ""
                            m = _re.search(r"\[[^\[\];]+; (\d+)\]", ty)
                            if m and tj.get("dest") and tj["dest"]["l"] in d.locals:
                                n = int(m.group(1))
                                ra = ix.resolve(tj["args"][0])
                                if ra[0] == "rv" and ra[1]["k"] == "ref":
                                    ra = ix.resolve({"c": ra[1]["p"]}) if not ra[1]["p"]["p"] else ra
                                if ra[0] == "rv" and ra[1]["k"] == "agg" and ra[1].get("ak") == "array" and len(ra[1]["ops"]) == n:
                                    elems = list(ra[1]["ops"])
            if n is None:
                # Range { start: const, end: const }
                for _b2, _s2, st in body.stmts():
                    rv = st.get("rv") or {}
                    if st["k"] == "assign" and rv.get("k") == "agg" and (rv.get("adt") or "").endswith("ops::Range") and st["lhs"]["l"] in d.locals and len(rv["ops"]) == 2:
                        lo, hi = ix.resolve(rv["ops"][0]), ix.resolve(rv["ops"][1])
                        if lo[0] == "const" and hi[0] == "const" and hi[1] >= lo[1]:
                            n = hi[1] - lo[1]
            if n is not None and not ({"take", "skip", "step_by", "filter", "rev", "zip", "chain", "take_while", "skip_while"} & {c.split("::")[-1] for c in d.calls}):
                out[lp["head"]] = (n, blocks, bi, elems)
            break
    return out


def on_every_cycle(body, bb):
    """True when block `bb` lies on every cycle of the innermost natural loop that contains it (each iteration that
    comes back to the loop head has passed through it); None when `bb` is in no loop."""
    from .sym import Explorer

    loops = Explorer(body).loops()
    inside = [(len(blocks), h, blocks) for h, (blocks, _a) in loops.items() if bb in blocks]
    if not inside:
        return None
    _n, h, blocks = min(inside)
    seen, todo = set(), [s_ for s_ in body.succ(h) if s_ in blocks and s_ != bb]
    while todo:
        b_ = todo.pop()
        if b_ == h:
            return False
        if b_ in seen:
            continue
        seen.add(b_)
        todo += [s_ for s_ in body.succ(b_) if s_ in blocks and s_ != bb]
    return True


def counter_sequence(body, limit=64):
    """For a body with exactly one loop driven by a counter (`let mut c = K0; while c <op> K1 { ..; c += / -= k }`): the
    list of values the counter takes in the loop body, computed from the constants; None when the loop is not of that
    shape.  Returns (counter local, [values])."""
    ix = BodyIndex(body)
    loops = Explorer(body).loops()
    if len(loops) != 1:
        return None
    (h, (blocks, _a)), = loops.items()
    latches = [p for p in body.pred(h) if p in blocks]
    step = None
    for bi in blocks:
        for st in body.blocks[bi]["s"]:
            if st["k"] != "assign" or st["lhs"]["p"]:
                continue
            rv = st["rv"]
            binrv = None
            if rv["k"] == "use":
                p = op_place(rv["a"])
                if p and len(p["p"]) == 1 and isinstance(p["p"][0], dict) and p["p"][0].get("f") == 0:
                    d0 = ix.single_def(p["l"])
                    if d0 and d0[0] == "assign" and d0[3]["rv"]["k"] == "bin":
                        binrv = d0[3]["rv"]
            elif rv["k"] == "bin":
                binrv = rv
            if not binrv:
                continue
            op = binrv["op"].replace("WithOverflow", "").replace("Unchecked", "")
            if op not in ("Add", "Sub"):
                continue
            k, src = const_int(binrv["b"]), _strip_cast(ix, binrv["a"])
            if k is None and op == "Add":
                k, src = const_int(binrv["a"]), _strip_cast(ix, binrv["b"])
            if k is not None and k > 0 and src == st["lhs"]["l"] and all(body.dominates(bi, l_) for l_ in latches):
                if step is not None:
                    return None
                step = (st["lhs"]["l"], k if op == "Add" else -k)
    if step is None:
        return None
    c, k = step
    inits = [d for d in body.defs().get(c, []) if d[1] not in blocks]
    if len(inits) != 1 or inits[0][0] != "assign" or inits[0][3]["rv"]["k"] != "use" or const_int(inits[0][3]["rv"]["a"]) is None:
        return None
    init = const_int(inits[0][3]["rv"]["a"])
    test = None
    for bi in sorted(blocks):
        t = body.blocks[bi]["t"]
        if t["k"] != "switch":
            continue
        targets = [(int(v), tg) for v, tg in t["arms"]] + ([(None, t["else"])] if isinstance(t.get("else"), int) else [])
        live = [(v, tg) for v, tg in targets if body.blocks[tg]["t"]["k"] != "unreachable"]
        if not any(tg not in blocks for _v, tg in live):
            continue
        r = ix.resolve(t["a"])
        if not (r[0] == "rv" and r[1]["k"] == "bin" and r[1]["op"] in ("Lt", "Le", "Gt", "Ge", "Ne", "Eq")):
            return None
        a, b = r[1]["a"], r[1]["b"]
        ka, kb = const_int(a), const_int(b)
        if kb is not None and _strip_cast(ix, a) == c:
            op, bound = r[1]["op"], kb
        elif ka is not None and _strip_cast(ix, b) == c:
            op, bound = {"Lt": "Gt", "Le": "Ge", "Gt": "Lt", "Ge": "Le", "Ne": "Ne", "Eq": "Eq"}[r[1]["op"]], ka
        else:
            return None
        # which outcome of the comparison stays in the loop
        stay = [v for v, tg in live if tg in blocks]
        if len(stay) != 1 or test is not None or not all(body.dominates(bi, l_) for l_ in latches):
            return None
        sv = stay[0]
        if sv is None:
            others = [v for v, _tg in live if v is not None]
            sv = 1 if others == [0] else 0 if others == [1] else None
        if sv is None:
            return None
        test = (op, bound, bool(sv))
    if test is None:
        return None
    op, bound, stay_when = test
    fn = {"Lt": lambda x: x < bound, "Le": lambda x: x <= bound, "Gt": lambda x: x > bound, "Ge": lambda x: x >= bound, "Ne": lambda x: x != bound, "Eq": lambda x: x == bound}[op]
    seq, x = [], init
    while fn(x) == stay_when and len(seq) <= limit:
        seq.append(x)
        x += k
    if len(seq) > limit:
        return None
    return c, seq
