"""binrw declaration model (from wirefacts).  Directive parsing here; layout computation in WireModel."""
import re

from .fmt import tok_text


def split_top(toks):
    """Split a token list on top-level commas, keeping closure parameter lists `|a, b|` together."""
    out, cur = [], []
    in_pipes = False
    for t in toks:
        if t == "|" :
            # closure params open/close only when at directive value start or already inside
            if in_pipes:
                in_pipes = False
            elif cur and cur[-1] in ("=", "(", ",") or (len(cur) >= 1 and cur[-1] == "move"):
                in_pipes = True
            cur.append(t)
            continue
        if t == "," and not in_pipes:
            out.append(cur)
            cur = []
        else:
            cur.append(t)
    if cur:
        out.append(cur)
    return out


class Directive:
    __slots__ = ("side", "name", "form", "value", "line")

    def __init__(self, side, name, form, value, line):
        self.side = side  # 'r', 'w', 'rw'
        self.name = name
        self.form = form  # 'bare' | 'eq' | 'paren' | 'brace'
        self.value = value  # token list
        self.line = line

    @property
    def text(self):
        return tok_text(self.value) if self.value else ""

    def __repr__(self):
        return f"{self.side}:{self.name}{'=' + self.text if self.form != 'bare' else ''}"


def directives(attrs):
    out = []
    for a in attrs:
        side = {"br": "r", "bw": "w", "brw": "rw"}.get(a["name"])
        if side is None:
            continue
        for d in split_top(a["t"]):
            if not d:
                continue
            name = d[0] if isinstance(d[0], str) else "?"
            if len(d) == 1:
                out.append(Directive(side, name, "bare", [], a["line"]))
            elif d[1] == "=":
                out.append(Directive(side, name, "eq", d[2:], a["line"]))
            elif isinstance(d[1], dict) and d[1].get("g") == "(":
                out.append(Directive(side, name, "paren", d[1]["t"], a["line"]))
            elif isinstance(d[1], dict) and d[1].get("g") == "{":
                out.append(Directive(side, name, "brace", d[1]["t"], a["line"]))
            else:
                out.append(Directive(side, name, "eq", d[1:], a["line"]))
    return out


def is_binrw_item(item):
    names = {a["name"] for a in item["attrs"]}
    if names & {"binrw", "binread", "binwrite", "binrw::binrw", "binrw::binread"}:
        return True
    for a in item["attrs"]:
        if a["name"] == "derive" and any(t in ("BinRead", "BinWrite") for t in a["t"] if isinstance(t, str)):
            return True
    return False


def int_lit(tok):
    """Integer value of a literal token, or None."""
    if isinstance(tok, dict) and "lit" in tok:
        s = tok["lit"].replace("_", "")
        m = re.match(r"^(0x[0-9a-fA-F]+|0b[01]+|0o[0-7]+|\d+)(u8|u16|u32|u64|usize|i8|i16|i32|i64|isize)?$", s)
        if m:
            return int(m.group(1), 0)
    return None


class Items:
    def __init__(self, wire):
        self.items = [i for i in wire["items"]]
        self.by_path = {}
        for i in self.items:
            self.by_path[i["path"]] = i

    def binrw_items(self):
        return [i for i in self.items if is_binrw_item(i)]
