"""binrw declaration model (from wirefacts).  Directive parsing here; layout computation in WireModel."""
import re

from .fmt import tok_text


def split_top(toks):
    """Split a token list on top-level commas, keeping closure parameter lists `|a, b|` together."""
    out, cur = [], []
    in_pipes = False
    for t in toks:
        if t == "|" :
            # closure params open/close only when at directive value start or already inside
            if in_pipes:
                in_pipes = False
            elif cur and cur[-1] in ("=", "(", ",") or (len(cur) >= 1 and cur[-1] == "move"):
                in_pipes = True
            cur.append(t)
            continue
        if t == "," and not in_pipes:
            out.append(cur)
            cur = []
        else:
            cur.append(t)
    if cur:
        out.append(cur)
    return out


class Directive:
    __slots__ = ("side", "name", "form", "value", "line")

    def __init__(self, side, name, form, value, line):
        self.side = side  # 'r', 'w', 'rw'
        self.name = name
        self.form = form  # 'bare' | 'eq' | 'paren' | 'brace'
        self.value = value  # token list
        self.line = line

    @property
    def text(self):
        return tok_text(self.value) if self.value else ""

    def __repr__(self):
        return f"{self.side}:{self.name}{'=' + self.text if self.form != 'bare' else ''}"


def directives(attrs):
    out = []
    for a in attrs:
        side = {"br": "r", "bw": "w", "brw": "rw"}.get(a["name"])
        if side is None:
            continue
        for d in split_top(a["t"]):
            if not d:
                continue
            name = d[0] if isinstance(d[0], str) else "?"
            if len(d) == 1:
                out.append(Directive(side, name, "bare", [], a["line"]))
            elif d[1] == "=":
                out.append(Directive(side, name, "eq", d[2:], a["line"]))
            elif isinstance(d[1], dict) and d[1].get("g") == "(":
                out.append(Directive(side, name, "paren", d[1]["t"], a["line"]))
            elif isinstance(d[1], dict) and d[1].get("g") == "{":
                out.append(Directive(side, name, "brace", d[1]["t"], a["line"]))
            else:
                out.append(Directive(side, name, "eq", d[1:], a["line"]))
    return out


def is_binrw_item(item):
    names = {a["name"] for a in item["attrs"]}
    if names & {"binrw", "binread", "binwrite", "binrw::binrw", "binrw::binread"}:
        return True
    for a in item["attrs"]:
        if a["name"] == "derive" and any(t in ("BinRead", "BinWrite") for t in a["t"] if isinstance(t, str)):
            return True
    return False


def int_lit(tok):
    """Integer value of a literal token, or None."""
    if isinstance(tok, dict) and "lit" in tok:
        s = tok["lit"].replace("_", "")
        m = re.match(r"^(0x[0-9a-fA-F]+|0b[01]+|0o[0-7]+|\d+)(u8|u16|u32|u64|usize|i8|i16|i32|i64|isize)?$", s)
        if m:
            return int(m.group(1), 0)
    return None


class Items:
    def __init__(self, wire):
        self.items = [i for i in wire["items"]]
        self.by_path = {}
        for i in self.items:
            self.by_path[i["path"]] = i

    def binrw_items(self):
        return [i for i in self.items if is_binrw_item(i)]


# ------------------------------------------------------------------------------------------------
# Wire model: serialised layout of binrw items, computed from the declarations (nothing is run).

PRIM = {"u8": 1, "i8": 1, "bool": None, "u16": 2, "i16": 2, "u32": 4, "i32": 4, "f32": 4, "u64": 8, "i64": 8, "f64": 8, "u128": 16, "i128": 16, "f16": 2}


class WField:
    """One element of a serialised stream."""

    __slots__ = ("name", "kind", "size", "endian", "cond", "ty", "note", "elem", "count", "public", "line", "net_zero")

    def __init__(self, name, kind, size, endian=None, cond=None, ty=None, note=None, elem=None, count=None, public=False, line=0, net_zero=False):
        self.name = name
        self.kind = kind  # data | pad | magic | seek
        self.size = size  # int | None (variable / unknown)
        self.endian = endian
        self.cond = cond
        self.ty = ty
        self.note = note
        self.elem = elem
        self.count = count
        self.public = public
        self.line = line
        self.net_zero = net_zero

    def as_dict(self):
        return {k: getattr(self, k) for k in self.__slots__ if getattr(self, k) not in (None, False, 0) or k in ("name", "kind", "size")}


def ty_text(toks):
    return tok_text(toks).replace(" ", "")


class WireModel:
    def __init__(self, wire, prog=None):
        self.items = Items(wire)
        self.prog = prog
        self.fn_sigs = {f["name"].split("::")[-1]: f for f in wire["fns"]}
        self._size_cache = {}

    # ---- type resolution
    def find_item(self, name, near=None):
        """Resolve a type name as written in `near`'s file (module-aware: same module first)."""
        name = name.split("::")[-1]
        cands = [i for i in self.items.items if i["name"] == name]
        if not cands:
            return None
        if near is not None:
            same = [i for i in cands if i["file"] == near["file"]]
            if same:
                return same[0]
        binrw = [i for i in cands if is_binrw_item(i)]
        return (binrw or cands)[0]

    def const_value(self, name, near=None):
        """Integer value of a named constant via the compiler's evaluation (mirfacts consts)."""
        if self.prog is None:
            return None
        name = name.replace(" ", "")
        tail = name.split("::")[-1]
        hits = [(p, c) for p, c in self.prog.consts.items() if p.split("::")[-1] == tail and "bits" in c]
        if near is not None and len(hits) > 1:
            mod = near["path"].rsplit("::", 1)[0]
            same = [(p, c) for p, c in hits if p.startswith(mod + "::")]
            if same:
                hits = same
        if len(hits) == 1:
            return int(hits[0][1]["bits"])
        return None

    def int_expr(self, toks, near=None):
        """Value of a constant expression: literal, named const, `A * B`, `A + B`, `A - B`, `A / B`, `A as T`."""
        toks = [t for t in toks]
        # strip `as T`
        if "as" in toks:
            toks = toks[: toks.index("as")]
        if len(toks) == 1:
            v = int_lit(toks[0])
            if v is not None:
                return v
            if isinstance(toks[0], str):
                return self.const_value(toks[0], near)
            if isinstance(toks[0], dict) and toks[0].get("g") == "(":
                return self.int_expr(toks[0]["t"], near)
            return None
        # path A::B
        if all(isinstance(t, str) for t in toks) and "::" in toks and not any(t in "+-*/" for t in toks):
            return self.const_value("".join(toks), near)
        for op in ("+", "-", "*", "/", "<<"):
            if op in toks:
                i = len(toks) - 1 - toks[::-1].index(op)
                a, b = self.int_expr(toks[:i], near), self.int_expr(toks[i + 1 :], near)
                if a is None or b is None:
                    return None
                return {"+": a + b, "-": a - b, "*": a * b, "/": a // b if b else None, "<<": a << b}[op]
        return None

    def type_size(self, tyt, near=None, args=None):
        """Serialised size of a Rust type as binrw reads it with no directives: int or None (variable/unknown)."""
        t = [x for x in tyt]
        tp = getattr(self, "_tparams", None)
        if tp and len(t) == 1 and isinstance(t[0], str) and t[0] in tp:
            sub = tp[t[0]]
            self._tparams = None
            try:
                return self.type_size(sub, near, args)
            finally:
                self._tparams = tp
        if len(t) == 1 and isinstance(t[0], str):
            n = t[0]
            if n in PRIM:
                return PRIM[n]
            it = self.find_item(n, near)
            if it is not None and is_binrw_item(it):
                return self.item_size(it, args)
            bf = self.bitflags_repr(n)
            if bf is not None:
                return PRIM.get(bf)
            ms = self.manual_read_size(n, near)
            if ms is not None:
                return ms
            return None
        if len(t) == 1 and isinstance(t[0], dict) and t[0].get("g") == "[":
            inner = t[0]["t"]
            if ";" in inner:
                i = inner.index(";")
                es = self.type_size(inner[:i], near)
                n = self.int_expr(inner[i + 1 :], near)
                if es is not None and n is not None:
                    return es * n
            return None
        if len(t) == 1 and isinstance(t[0], dict) and t[0].get("g") == "(":
            parts = split_top(t[0]["t"])
            if not parts:
                return 0
            s = 0
            for p in parts:
                ps = self.type_size(p, near)
                if ps is None:
                    return None
                s += ps
            return s
        # path types a::b::C
        if all(isinstance(x, str) for x in t) and "::" in t and "<" not in t:
            return self.type_size([t[-1]], near)
        # generic instantiation Name<T> of a local binrw item with one type parameter
        if len(t) >= 4 and isinstance(t[0], str) and t[1] == "<" and t[-1] == ">":
            it = self.find_item(t[0], near)
            if it is not None and is_binrw_item(it) and it.get("generics"):
                m = re.match(r"^<\s*([A-Za-z_]\w*)", it["generics"])
                if m:
                    return self.item_size(it, args, tparams={m.group(1): t[2:-1]})
        return None

    def bitflags_repr(self, name):
        """`bitflags! { #[binrw] struct Name : T { .. } }` -> T"""
        for it in self.items.items:
            if it["kind"] == "macro" and it["name"].endswith("bitflags"):
                t = it["t"]
                for i, tok in enumerate(t):
                    if tok == "struct" and i + 3 < len(t) and t[i + 1] == name and t[i + 2] == ":":
                        return t[i + 3]
        return None

    def bitflags_consts(self, name):
        for it in self.items.items:
            if it["kind"] == "macro" and it["name"].endswith("bitflags"):
                t = it["t"]
                for i, tok in enumerate(t):
                    if tok == "struct" and i + 4 < len(t) and t[i + 1] == name:
                        body = next((x for x in t[i + 2 :] if isinstance(x, dict) and x.get("g") == "{"), None)
                        out = {}
                        if body:
                            bt = body["t"]
                            for j, x in enumerate(bt):
                                if x == "const" and j + 3 < len(bt) and bt[j + 2] == "=":
                                    v = int_lit(bt[j + 3])
                                    if v is not None:
                                        out[bt[j + 1]] = v
                        return out
        return None

    def manual_read_size(self, name, near=None):
        """Size read by a hand-written `impl BinRead for T`: every return path of its read_options performs the same
        sequence of primitive `read_options::<prim>` calls (taken from the MIR; loop-free bodies only)."""
        if self.prog is None:
            return None
        cands = [b for n, b in self.prog.bodies.items() if n.endswith("as binrw::BinRead>::read_options") and not b.user_derived() and (n.startswith("<" + name + " ") or ("::" + name + " as ") in n)]
        if len(cands) != 1:
            return None
        b = cands[0]
        from .sym import Explorer

        ex = Explorer(b, max_paths=200)
        paths = ex.explore()
        if ex.loops() or ex.truncated:
            return None
        sizes = set()
        for p in paths:
            if p.end != "return":
                continue
            tot = 0
            ok_path = False
            for (_bb, callee, args, _res) in p.events:
                m = re.match(r"^binrw::binread::impls::<impl binrw::BinRead for (\w+)>::read_options$", callee)
                if m and m.group(1) in PRIM and PRIM[m.group(1)]:
                    tot += PRIM[m.group(1)]
            # only success paths (those that construct the value) count: they are the longest
            sizes.add(tot)
        return max(sizes) if sizes else None

    def generic_inner(self, tyt, outer):
        """Tokens of T in `Outer<T>`."""
        t = list(tyt)
        if t and t[0] == outer and len(t) >= 4 and t[1] == "<" and t[-1] == ">":
            return t[2:-1]
        return None

    # ---- items
    def item_endian(self, it, side, inherited=None):
        e = inherited
        for d in directives(it["attrs"]):
            if d.name in ("little", "big") and side in d.side:
                e = d.name
        return e

    def item_size(self, it, args=None, tparams=None):
        key = (it["path"], tuple(sorted((args or {}).items())), tuple(sorted((k, ty_text(v)) for k, v in (tparams or {}).items())))
        if key in self._size_cache:
            return self._size_cache[key]
        self._size_cache[key] = None
        self._tparams = tparams
        try:
            st = self.stream(it, "r", None, args)
        finally:
            self._tparams = None
        total = 0
        for f in st:
            if f.kind == "seek" or f.size is None or (f.cond and not f.net_zero):
                total = None
                break
            if not f.net_zero:
                total += f.size
        self._size_cache[key] = total
        return total

    def stream(self, it, side, inherited_endian=None, args=None):
        """Ordered serialised stream of an item for side 'r' or 'w'."""
        endian = self.item_endian(it, side, inherited_endian)
        out = []
        ids = directives(it["attrs"])
        for d in ids:
            if d.name == "magic" and side in d.side:
                out.append(WField("<magic>", "magic", self.magic_size(d.value), endian, note=d.text))
        repr_d = [d for d in ids if d.name == "repr" and side in d.side]
        map_d0 = [d for d in ids if d.name == "map" and side in d.side]
        if map_d0 and side == "r":
            pt = self.map_source_type(map_d0[0].value)
            if pt is not None:
                out.append(WField("<mapped>", "data", self.type_size(pt, it), endian, ty=ty_text(pt)))
                return out
        if it["kind"] == "enum":
            if repr_d:
                rt = repr_d[0].value
                out.append(WField("<repr>", "data", self.type_size(rt, it), endian, ty=ty_text(rt)))
                return out
            # magic-tagged / pre_assert enum: sizes per variant
            sizes = set()
            for v in it["variants"]:
                vs = 0
                pa = [d for d in directives(v["attrs"]) if d.name == "pre_assert" and side in d.side]
                if pa and args and eval_cond(pa[0].value, args) is False:
                    continue
                for d in directives(v["attrs"]):
                    if d.name == "magic" and side in d.side:
                        ms = self.magic_size(d.value)
                        vs = None if ms is None else vs + ms
                for f in self.fields_stream(it, v["fields"], side, endian, args):
                    if vs is None or f.size is None or f.cond or f.kind == "seek":
                        vs = None
                        break
                    if not f.net_zero:
                        vs += f.size
                sizes.add(vs)
            size = sizes.pop() if len(sizes) == 1 else None
            out.append(WField("<variant>", "data", size, endian, ty=it["name"]))
            return out
        # item-level map: the wire type is the closure/function parameter type
        map_d = [d for d in ids if d.name == "map" and side in d.side]
        if map_d and side == "r":
            pt = self.map_source_type(map_d[0].value)
            if pt is not None:
                out.append(WField("<mapped>", "data", self.type_size(pt, it), endian, ty=ty_text(pt)))
                return out
        out.extend(self.fields_stream(it, it["fields"], side, endian, args))
        return out

    def magic_size(self, toks):
        if len(toks) == 1 and isinstance(toks[0], dict) and "lit" in toks[0]:
            s = toks[0]["lit"]
            if s.startswith('b"'):
                body = s[2:-1]
                return len(bytes(body, "utf-8").decode("unicode_escape").encode("latin-1"))
            m = re.match(r"^(0x[0-9a-fA-F_]+|\d[\d_]*)(u8|u16|u32|u64|i8|i16|i32|i64)$", s)
            if m:
                return PRIM[m.group(2)]
            if s.startswith("b'"):
                return 1
        return None

    def map_source_type(self, toks):
        """Parameter type tokens of `|x: T| ..` or of a named function `f::<T>` / `f` (looked up in the crate)."""
        t = list(toks)
        if t and t[0] == "|":
            # | x : T | body
            try:
                j = t.index("|", 1)
            except ValueError:
                return None
            params = t[1:j]
            if ":" in params:
                ty = params[params.index(":") + 1 :]
                if ty and ty[0] == "&":
                    ty = ty[1:]
                return ty
            return None
        # fn path with turbofish: read_bool_from ::< u8 >
        for open_ in ("::<", "<"):
            if open_ in t and ">" in t:
                i = t.index(open_)
                j = len(t) - 1 - t[::-1].index(">")
                if j > i:
                    return t[i + 1 : j]
        return None

    def fields_stream(self, it, fields, side, endian, args=None):
        out = []
        for f in fields:
            ds = [d for d in directives(f["attrs"]) if side in d.side]
            dn = {}
            for d in ds:
                dn.setdefault(d.name, d)
            fe = endian
            if "little" in dn:
                fe = "little"
            if "big" in dn:
                fe = "big"
            # presence on this side
            if side == "r" and ("calc" in dn or "ignore" in dn or "default" in dn):
                continue  # not read from the stream
            if side == "w" and "ignore" in dn:
                continue
            other = [d for d in directives(f["attrs"])]
            if side == "w" and any(d.name == "temp" and "r" in d.side for d in other) and "calc" not in dn:
                # br(temp) without bw(calc): not a field of the struct, nothing to write
                continue
            cond = dn["if"].text if "if" in dn else None
            if cond is not None and args:
                ev = eval_cond(dn["if"].value, args)
                if ev is True:
                    cond = None
                elif ev is False:
                    continue
            if "seek_before" in dn:
                out.append(WField(f["name"], "seek", None, note=dn["seek_before"].text, line=f["line"]))
            if "pad_before" in dn:
                out.append(WField(f["name"] + ".pad_before", "pad", self.int_expr(dn["pad_before"].value, it), cond=cond, line=f["line"]))
            size, elem, count, ty = self.field_size(it, f, dn, side, args)
            tail_gap = None
            if "pad_size_to" in dn:
                p = self.int_expr(dn["pad_size_to"].value, it)
                note = f"pad_size_to={p}"
                if p is not None and size is not None and size < p and elem is None and "map" not in dn:
                    tail_gap = p - size  # a fixed-size value followed by filler up to p
                else:
                    size = p if (p is not None and (size is None or size <= p)) else size
            else:
                note = None
            wf = WField(f["name"], "data", size, fe, cond, ty, note, elem, count, f["pub"], f["line"], net_zero=("restore_position" in dn))
            out.append(wf)
            if tail_gap:
                out.append(WField(f["name"] + ".pad_size_to", "pad", tail_gap, cond=cond, line=f["line"]))
            if "pad_after" in dn:
                out.append(WField(f["name"] + ".pad_after", "pad", self.int_expr(dn["pad_after"].value, it), cond=cond, line=f["line"]))
        return out

    def field_size(self, it, f, dn, side, args):
        tyt = f["tyt"]
        ty = ty_text(tyt)
        wire_t = tyt
        # mapped fields: the wire type is the map source
        if side == "r" and ("map" in dn or "try_map" in dn):
            src = self.map_source_type((dn.get("map") or dn.get("try_map")).value)
            if src is None:
                fn = (dn.get("map") or dn.get("try_map")).text.replace(" ", "")
                src = self.fn_param_type(fn)
            if src is not None:
                wire_t = src
                ty = ty + "<-" + ty_text(src)
            else:
                return None, None, None, ty + "<-?"
        if side == "w" and "map" in dn:
            # writer map: the written type is the closure's / function's result; use the turbofish or fall back to count/pad
            src = self.map_source_type(dn["map"].value)
            if src is not None and dn["map"].value and dn["map"].value[0] != "|":
                wire_t = src
                ty = ty + "->" + ty_text(src)
            else:
                fn = dn["map"].text.replace(" ", "")
                rt = self.fn_ret_type(fn) if dn["map"].value and dn["map"].value[0] != "|" else None
                if rt is None:
                    return None, None, None, ty + "->?"
                ty = ty + "->" + ty_text(rt)
                inner = self.generic_inner(rt, "Vec")
                if inner is not None:
                    n = self.vec_result_len(fn)
                    es = self.type_size(inner, it, args)
                    return (n * es if (n is not None and es is not None) else None), es, n, ty + (f"[len {n}]" if n is not None else "")
                wire_t = rt
        if "parse_with" in dn and side == "r":
            return None, None, None, ty + " parse_with " + dn["parse_with"].text
        if "write_with" in dn and side == "w":
            return None, None, None, ty + " write_with " + dn["write_with"].text
        inner = self.generic_inner(wire_t, "Vec")
        if inner is not None:
            es = self.type_size(inner, it, args)
            if side == "r" and "count" in dn:
                n = self.int_expr(dn["count"].value, it)
                cnt = n if n is not None else dn["count"].text
                return (es * n if (es is not None and n is not None) else None), es, cnt, ty
            return None, es, None, ty
        if args:
            # forward only arguments the field passes on by the same name: `args(index_type)` / `args { x, y }`
            fa = dn.get("args")
            names = [t for t in (fa.value if fa else []) if isinstance(t, str) and t not in (",", "&", "*", ":")]
            args = {k: v for k, v in args.items() if k in names} or None
        opt = self.generic_inner(wire_t, "Option")
        if opt is not None:
            return self.type_size(opt, it, args), None, None, ty
        return self.type_size(wire_t, it, args), None, None, ty

    def fn_param_type(self, fn):
        """First parameter type of a crate function used as `map = f` (from the signature tokens is not available in
        wirefacts; known helpers are listed)."""
        if self.prog is None:
            return None
        base = fn.split("::<")[0].split("::")[-1]
        cands = [b for n, b in self.prog.bodies.items() if n.split("::")[-1] == base and b.j["kind"] in ("Fn", "AssocFn") and b.argc >= 1 and not b.user_derived()]
        if len(cands) > 1:
            cands = [b for b in cands if b.j["kind"] == "Fn"] or cands
        if len(cands) != 1:
            return None
        return tystr_tokens(cands[0].locals[1]["ty"])

    def vec_result_len(self, fn):
        """Length of the Vec a writer-side map function returns, when it is built by `vec![x; CONST]` and its length
        is never changed afterwards (checked on the MIR: from_elem with a constant count feeding the return place, and
        no length-changing Vec method applied to it)."""
        if self.prog is None:
            return None
        base = fn.split("::<")[0].split("::")[-1]
        cands = [b for n, b in self.prog.bodies.items() if n.split("::")[-1] == base and b.j["kind"] == "Fn" and not b.user_derived()]
        if len(cands) != 1:
            return None
        b = cands[0]
        from .mir import const_int, op_place

        n = None
        vec_local = None
        for _bi, t in b.calls():
            c = t.get("res") or ""
            if c.endswith("vec::from_elem") and len(t["args"]) == 2:
                v = const_int(t["args"][1])
                if v is not None and not t["dest"]["p"]:
                    n, vec_local = v, t["dest"]["l"]
        if n is None:
            return None
        # the vec local (or a move of it) must be what is returned
        aliases = {vec_local}
        changed = True
        while changed:
            changed = False
            for _bi, _si, st in b.stmts():
                if st["k"] == "assign" and st["rv"]["k"] == "use":
                    p = op_place(st["rv"]["a"])
                    if p and not p["p"] and p["l"] in aliases and not st["lhs"]["p"] and st["lhs"]["l"] not in aliases:
                        aliases.add(st["lhs"]["l"])
                        changed = True
        if 0 not in aliases:
            return None
        LEN_CHANGING = ("push", "resize", "resize_with", "truncate", "insert", "remove", "extend", "extend_from_slice", "append", "clear", "pop", "drain", "retain", "dedup", "split_off", "swap_remove", "set_len", "reserve")
        refs = set()
        for _bi, _si, st in b.stmts():
            if st["k"] == "assign" and st["rv"]["k"] in ("ref", "rawptr") and st["rv"]["p"]["l"] in aliases and not st["lhs"]["p"]:
                refs.add(st["lhs"]["l"])
        for _bi, t in b.calls():
            c = (t.get("res") or "").split("::")[-1]
            if c in LEN_CHANGING and ("vec::Vec" in (t.get("res") or "")):
                p = op_place(t["args"][0]) if t["args"] else None
                if p and (p["l"] in refs or p["l"] in aliases):
                    return None
        return n

    def fn_ret_type(self, fn):
        if self.prog is None:
            return None
        base = fn.split("::<")[0].split("::")[-1]
        cands = [b for n, b in self.prog.bodies.items() if n.split("::")[-1] == base and b.j["kind"] in ("Fn", "AssocFn") and not b.user_derived()]
        if len(cands) != 1:
            return None
        return tystr_tokens(cands[0].locals[0]["ty"])

    def offsets(self, st):
        """Annotate a stream with byte offsets while the prefix is fixed.  Returns list of (offset|None, WField)."""
        off = 0
        out = []
        for f in st:
            if f.kind == "seek":
                off = None
                out.append((None, f))
                continue
            out.append((off, f))
            if off is not None:
                if f.size is None or (f.cond and not f.net_zero):
                    off = None
                elif not f.net_zero:
                    off += f.size
        return out


def eval_cond(toks, args):
    """Evaluate `* name == Path::Variant` / `name != X` under known import-argument values; None if not decidable."""
    t = [x for x in toks if x != "*"]
    for op in ("==", "!="):
        if op in t:
            i = t.index(op)
            lhs, rhs = t[:i], t[i + 1 :]
            if len(lhs) == 1 and isinstance(lhs[0], str) and lhs[0] in args and all(isinstance(x, str) for x in rhs):
                val = "".join(rhs)
                same = val.split("::")[-1] == str(args[lhs[0]]).split("::")[-1]
                return same if op == "==" else not same
    return None


def tystr_tokens(s):
    """Token list (wirefacts style) of a rustc-printed type such as `std::vec::Vec<u8>` or `[gearsets::GearSlot; 14]`."""
    toks = re.findall(r"[A-Za-z_][A-Za-z0-9_]*|\d+|::|[<>\[\]();,&]", s)

    def parse(i, closer):
        out = []
        while i < len(toks):
            t = toks[i]
            if t == closer:
                return out, i + 1
            if t == "[":
                inner, i = parse(i + 1, "]")
                out.append({"g": "[", "t": inner})
                continue
            if t == "(":
                inner, i = parse(i + 1, ")")
                out.append({"g": "(", "t": inner})
                continue
            if t.isdigit():
                out.append({"lit": t})
            else:
                out.append(t)
            i += 1
        return out, i

    out, _ = parse(0, None)
    # drop module paths: a::b::C -> C
    res = []
    i = 0
    while i < len(out):
        if i + 1 < len(out) and out[i + 1] == "::" and isinstance(out[i], str):
            i += 2
            continue
        res.append(out[i])
        i += 1
    if res and res[0] == "&":
        res = res[1:]
    return res


def signature(wm, it, side="r", args=None):
    """Normalised layout signature of an item: list of tuples (see spec/layouts.txt for the DSL)."""
    out = []
    for f in wm.stream(it, side, None, args):
        if f.kind == "seek":
            out.append(("seek",))
        elif f.kind == "pad":
            n = f.size
            if out and out[-1][0] == "gap" and n is not None and out[-1][1] is not None:
                out[-1] = ("gap", out[-1][1] + n)
            else:
                out.append(("gap", n))
        elif f.kind == "magic":
            out.append(("magic", f.size))
        elif f.net_zero:
            out.append(("peek", f.size, f.name if f.public else "~" + f.name))
        elif f.cond:
            out.append(("cond", f.size, f.name if f.public else "~" + f.name))
        elif f.size is None:
            out.append(("var", f.name if f.public else "~" + f.name, f.elem))
        else:
            e = f.endian if (f.endian and f.size and f.size > 1) else None
            out.append(("f", f.size, f.name if f.public else "~" + f.name) + ((e,) if e else ()))
    return out


def sig_text(sig):
    lines = []
    for t in sig:
        if t[0] == "f":
            lines.append(f"  {t[1]} {t[2]}" + (f" {t[3]}" if len(t) > 3 else ""))
        elif t[0] == "gap":
            lines.append(f"  gap {t[1]}")
        elif t[0] == "magic":
            lines.append(f"  magic {t[1]}")
        elif t[0] == "var":
            lines.append(f"  var {t[1]} elem={t[2]}")
        elif t[0] == "cond":
            lines.append(f"  cond {t[1]} {t[2]}")
        elif t[0] == "peek":
            lines.append(f"  peek {t[1]} {t[2]}")
        elif t[0] == "seek":
            lines.append("  seek")
    return lines


def parse_layouts(path):
    """Parse spec/layouts.txt -> list of dict(type, args, size, basis, sig)."""
    out = []
    cur = None
    with open(path) as fh:
        for raw in fh:
            line = raw.split("#", 1)[0].rstrip()
            if not line.strip():
                continue
            if line.startswith("type "):
                parts = line.split()
                cur = dict(type=parts[1], args={}, size=None, basis="", sig=[])
                for p_ in parts[2:]:
                    if "=" in p_:
                        k, v = p_.split("=", 1)
                        if k == "size":
                            cur["size"] = None if v == "var" else int(v)
                        elif k == "basis":
                            cur["basis"] = v
                        else:
                            cur["args"][k] = v
                out.append(cur)
                continue
            t = line.split()
            def num(x):
                return None if x == "None" else int(x)
            if t[0] == "gap":
                cur["sig"].append(("gap", num(t[1])))
            elif t[0] == "magic":
                cur["sig"].append(("magic", num(t[1])))
            elif t[0] == "var":
                cur["sig"].append(("var", t[1], num(t[2].split("=")[1])))
            elif t[0] == "cond":
                cur["sig"].append(("cond", num(t[1]), t[2]))
            elif t[0] == "peek":
                cur["sig"].append(("peek", num(t[1]), t[2]))
            elif t[0] == "seek":
                cur["sig"].append(("seek",))
            else:
                cur["sig"].append(("f", int(t[0]), t[1]) + ((t[2],) if len(t) > 2 else ()))
    return out
